"""C07 — result blobs are content-addressed, deduplicated and immutable once referenced
(structural part).

Decides: the content key is the SHA-256 of the very bytes written (R1); the dedupe path writes
nothing (R2); result reads are versioned (R3); who may delete data (R4); a fresh version
directory per write and the closed set of write sites (R5); the memento records the key
returned by the store before it is written (R6).
"""
import ast

from .. import astutil as A
from ..fa import FA
from .effects import Assume, param_truth_atom, call_atom

BLOB = "storage_base.Codec.BlobStrategy"
FSDS = "storage_filesystem._FilesystemDataSource"

# who may call the data-source delete operations (confirmed by reading; one reason each)
DELETE_CALLERS = {
    "storage_base.DataSourceMetadataSource.forget_call": "deletes <function dir>/<arg hash>* under the metadata prefix",
    "storage_base.DataSourceMetadataSource.forget_function": "deletes the function directory under the metadata prefix",
    "storage_base.DataSourceMetadataSource.forget_everything": "deletes the metadata root",
    "storage_base.Codec.NullStrategy.store": "removes the pointer of an override key when the new result is null",
    "storage_base.DataSourceMetadataSource.write_metadata": "removes the superseded form (plain / with-data marker) of the same custom metadata key, under the metadata prefix",
}
# callers whose deletion must be confined to a key built by the metadata key builder
DELETE_ARG_VIA = {
    "storage_base.DataSourceMetadataSource.write_metadata": "_get_metadata_key",
}
# which delete operation each caller may use: only the metadata source removes versions; the null
# strategy only unlinks the mutable pointer (versions referenced by older mementos must survive)
DELETE_OPS = {
    "storage_base.Codec.NullStrategy.store": {"delete_nonversioned_key"},
}
# write-mode opens in the filesystem data source
WRITE_OPEN_SITES = {
    FSDS + ".output": "object file under a fresh version directory",
    FSDS + ".output_metadata": "side-car metadata file beside an object",
    FSDS + "._write_non_versioned_link": "pointer file",
}


def _scratch_sites(ck, fi):
    """(fa, scheme paths, [(creating call, path expression)]) for the files `fi` creates under names outside the key scheme."""
    from .c05 import SchemePaths, _created_paths
    from .cache_model import safe_expand
    fa = FA(ck, fi)
    sp = SchemePaths(ck)
    out = []
    for (c, p_, _what) in _created_paths(fa):
        if p_ is None or A.call_attr(c) in ("replace", "rename"):
            continue
        if not sp.is_scheme(safe_expand(fa, p_, c)):
            out.append((c, p_))
    return fa, sp, out


def _same_path(fa, a, at_a, b, at_b) -> bool:
    from .c05 import _strip_path_wrappers
    from .cache_model import safe_expand
    return A.norm(_strip_path_wrappers(safe_expand(fa, a, at_a))) == A.norm(_strip_path_wrappers(safe_expand(fa, b, at_b)))


def _removes_own_scratch(ck, fi, call) -> bool:
    fa, sp, scratch = _scratch_sites(ck, fi)
    tgt = call.args[0] if call.args and not (isinstance(call.func, ast.Attribute) and A.call_attr(call) in ("unlink", "rmdir") and not (A.call_dotted(call) or "").startswith("os.")) \
        else (call.func.value if isinstance(call.func, ast.Attribute) else None)
    if tgt is None:
        return False
    return any(_same_path(fa, tgt, call, p_, c) for (c, p_) in scratch)


def _writes_pointer(ck, fi, call) -> bool:
    """`call` (a write-mode open / Path.write_text) writes the link path of a key itself -- by the role of the path, not by where it stands."""
    from .c08 import path_role, open_path
    fa = FA(ck, fi)
    tgt = call.func.value if A.call_attr(call) in ("write_text", "write_bytes") and isinstance(call.func, ast.Attribute) else open_path(call)
    return bool(fa.nodes(call)) and tgt is not None and path_role(fa, tgt, fa.nodes(call)[0]) == "pointer"


def _pointer_publications(ck, fa):
    """Where `fa` makes an object the one its key designates: calls of the data source's pointer writers, and the pointer written
    (or atomically replaced) on the spot."""
    from .c08 import pointer_writers, write_opens, _atomic_publications
    names = pointer_writers(ck) | {"_write_non_versioned_link"}
    out = [c for c in fa.calls() if fa.nodes(c) and A.call_attr(c) in names and A.dotted(A.call_recv(c)) in ("self", "cls")]
    out += [c for c in write_opens(ck, fa)["pointer"] if fa.nodes(c)] + [c for c in _atomic_publications(fa) if fa.nodes(c)]
    return out


def _staged_onto_absent_object(ck, fi, wopen) -> bool:
    """The file opened for writing at `wopen` is a scratch file (a name outside the key scheme) and every move of it goes onto the
    version-object path of a key that the path conditions establish to be absent (`exists_versioned(k)` / `<path>.exists()` false)."""
    from .c05 import _MOVE_FUNCS
    from .cache_model import safe_expand
    fa, sp, scratch = _scratch_sites(ck, fi)
    mine = [(c, p_) for (c, p_) in scratch if c is wopen]
    if not mine:
        return False
    (c, p_) = mine[0]
    moves = []
    for k in fa.calls():
        d = A.call_dotted(k) or ""
        if d in _MOVE_FUNCS and len(k.args) >= 2 and _same_path(fa, k.args[0], k, p_, c):
            moves.append((k, k.args[1]))
        elif A.call_attr(k) in ("rename", "replace") and isinstance(k.func, ast.Attribute) and len(k.args) == 1 and not d.startswith(("os.", "shutil.")) \
                and _same_path(fa, k.func.value, k, p_, c):
            moves.append((k, k.args[0]))
    if not moves:
        return False
    for (k, dst) in moves:
        if not sp.is_scheme(safe_expand(fa, dst, k), which="_get_path_versioned"):
            return False
        conds = fa.conditions(fa.stmt_of(k))
        if not conds:
            return False
        # in every way of reaching the move, some test said the destination object is not there
        def absent(conj):
            return any((not pol) and ("exists_versioned(" in txt or ".exists()" in txt or "os.path.exists(" in txt) for (txt, pol) in conj)
        if not all(absent(conj) for conj in conds):
            return False
    return True


def check(ck):
    from .memo import check_new_memo_tables
    ck.run(check_new_memo_tables, ck, "C07.M1", ('storage_base', 'storage_filesystem'))
    # immutability as seen through the write-through cache: a memento reads the bytes its content key names,
    # i.e. the cache serves a call only what was put for that call (shared with C05.R4)
    from .c05 import check_cache_reads_own_key
    from .cache_model import CacheModel
    ck.rule("C07.R11", "override keys cannot enter the content-addressed namespace", 1)
    ck.run(check_override_namespace, ck, "C07.R11")
    ck.rule("C07.R12", "a recorded versioned key is never re-resolved through a mutable pointer: codecs look up the latest version "
                       "of a key only for content-addressed keys, and a partition passes its parent's versioned keys on unchanged", 2)
    ck.run(check_pinned_keys, ck, "C07.R12")
    ck.rule("C07.R10", "the memory cache serves a memento only the value cached under that memento's own key", 1)
    ck.run(lambda: check_cache_reads_own_key(ck, CacheModel(ck), "C07.R10"))
    R1, R2, R3, R4, R5, R6 = ("C07.R%d" % i for i in range(1, 7))
    ck.rule(R1, "the content key is the full SHA-256 hex digest of the same bytes that are handed to the data source", 5)
    ck.rule(R2, "dedupe: when the content key exists and there is no override nothing is written and the existing "
                "versioned key is returned; the existence test is skipped only under an override", 3)
    ck.rule(R3, "result reads go through input_versioned with the stored key; codec classes never read non-versioned", 4)
    ck.rule(R4, "who may delete: delete_all_versions / delete_nonversioned_key are called only from the metadata "
                "source's forget operations and the null strategy; filesystem removal primitives live only in the "
                "data source's delete methods", 5)
    ck.rule(R5, "fresh version per write: the object path contains a uuid4() drawn in the same activation; the set of "
                "write-mode opens in the filesystem data source is closed", 4)
    ck.rule(R6, "the memento's content key is the value returned by the codec store, assigned before the memento is written", 2)

    fa = FA(ck, BLOB + ".store")
    P = fa.fi.params
    ck.need(len(P) >= 4, "BlobStrategy.store: expected (self, data source, key override, object) parameters")
    ds_p, ov_p, obj_p = P[1], P[2], P[3]
    # the hash object: hashlib.sha256(...) or hashlib.new("sha256", ...)
    imports = fa.fi.module.imports

    def origin(call):
        """'hashlib.sha256' for hashlib.sha256(...), h.sha256(...) with `import hashlib as h`, sha256(...) with `from hashlib import sha256`"""
        d = A.call_dotted(call) or ""
        head, _, rest = d.partition(".")
        o = imports.get(head)
        if o is None or fa.df.is_local(head):
            return d
        return (o.replace(":", ".") + ("." + rest if rest else "")).lstrip(".")
    named = [c for c in fa.calls("new") if origin(c) == "hashlib.new" and c.args and (A.const_str(c.args[0]) or "").lower().replace("-", "") == "sha256"]
    hashers = [c for c in fa.calls() if origin(c).startswith("hashlib.") and c not in named and origin(c) != "hashlib.new"] + \
        [c for c in fa.calls("new") if origin(c) == "hashlib.new"]
    shas = [c for c in hashers if origin(c) == "hashlib.sha256" or c in named]
    if len(shas) != 1:
        other = [c for c in hashers if c not in shas]
        ck.ob(R1, fa.key(other[0] if other else None, "algorithm"), False,
              "the content hash is not hashlib.sha256 (%s)" % (", ".join("`%s`" % A.short(c, 40) for c in other) if other else "%d SHA-256 computations" % len(shas)),
              fa.where(other[0]) if other else fa.where())
        return
    sha = shas[0]
    SHA_DEP = "call:" + A.call_attr(sha)
    ok_alg = True
    ck.ob(R1, fa.key(sha, "algorithm"), ok_alg, "SHA-256" if ok_alg else "the content hash is not hashlib.sha256", fa.where(sha))

    def is_sha(rv, at, depth=4):
        if rv is sha:
            return True
        if isinstance(rv, ast.Name) and depth > 0:
            ds = fa.df.reaching(at, rv.id)
            return bool(ds) and all(d.kind == "assign" and d.value is not None and is_sha(d.value, d.node, depth - 1) for d in ds)
        return False
    # what is fed to it: the constructor's data argument and every update() of that object
    init_arg = (sha.args[1] if len(sha.args) > 1 else A.kwarg(sha, "data")) if sha in named else (sha.args[0] if sha.args else A.kwarg(sha, "data") or A.kwarg(sha, "string"))
    fed = ([(init_arg, sha)] if init_arg is not None else []) + \
        [(c.args[0] if c.args else None, c) for c in fa.calls("update") if fa.nodes(c) and is_sha(A.call_recv(c), fa.nodes(c)[0])]
    hashed = fed[0][0] if len(fed) == 1 else None
    if not isinstance(hashed, ast.Name):
        ck.ob(R1, fa.key(sha, "same-bytes"), False,
              "the hash is not computed over the local byte string that is written (hashing %s)" %
              (" + ".join("`%s`" % A.short(e, 30) for (e, _c) in fed) if fed else "nothing"), fa.where(sha))
        return
    hashed_at = fed[0][1]
    # the digest is used in full (the hexdigest of that very hash object, not a slice of it)
    hx = [c for c in fa.calls("hexdigest") if fa.nodes(c) and is_sha(A.call_recv(c), fa.nodes(c)[0])]
    # .digest().hex() is the same text
    dg = [c for c in fa.calls("digest") if fa.nodes(c) and is_sha(A.call_recv(c), fa.nodes(c)[0]) and not c.args]
    hx += [c for c in fa.calls("hex") if fa.nodes(c) and not c.args and any(A.call_recv(c) is d_ or (
        isinstance(A.call_recv(c), ast.Name) and all(dd_.kind == "assign" and dd_.value is d_ for dd_ in fa.df.reaching(fa.nodes(c)[0], A.call_recv(c).id))) for d_ in dg)]
    HEX_DEP = "call:" + A.call_attr(hx[0]) if hx else "call:hexdigest"
    par = fa.pm.get(hx[0]) if hx else None
    ok_hex = bool(hx) and not isinstance(par, ast.Subscript)
    ck.ob(R1, fa.key(sha, "full-digest"), ok_hex, "full hexdigest" if ok_hex else "the digest is truncated or not a hex digest", fa.where(sha))
    outs = fa.some(_ds_calls(fa, "output", ds_p), "data_source.output call")
    content_tpl = _content_key_template(ck)

    def is_content_key(leaf, n, dd):
        """built by the content key builder, or spelled out as the builder's own text around one value"""
        return "call:output_key_for_content_key" in dd or _spells_content_key(fa, leaf, n, content_tpl)
    fa._c07_is_content_key = is_content_key
    no_ov = Assume(fa, param_truth_atom(ov_p, False))
    with_ov = Assume(fa, param_truth_atom(ov_p, True))
    hashed_roots = {r for i in fa.nodes(hashed_at) for r in _roots(fa, hashed, i)}
    any_content = False
    for o in outs:
        stream = o.args[1] if len(o.args) > 1 else A.kwarg(o, "data")
        # the stream is BytesIO(<the definition of the bytes that were hashed>), through whatever temporaries
        same = wrap_ok = stream is not None and bool(fa.nodes(o))
        for i in fa.nodes(o):
            for (leaf, n) in (no_ov.cases(stream, i, fa.df.IN) if stream is not None else []):
                if not (isinstance(leaf, ast.Call) and A.call_attr(leaf) == "BytesIO" and len(leaf.args) == 1 and isinstance(leaf.args[0], ast.Name)):
                    wrap_ok = False
                    continue
                if not (hashed_roots and _roots(fa, leaf.args[0], n) == hashed_roots):
                    same = False
        ck.ob(R1, fa.key(o, "same-bytes"), same and wrap_ok,
              "the bytes written are the bytes hashed (same definition of `%s`)" % hashed.id if same and wrap_ok else
              "the stream written is not BytesIO(%s) of the hashed definition: stored bytes need not hash to their key" % hashed.id, fa.where(o))
        # key: without an override the output key is the content key (derived from the digest); any other key is
        # the override key and is used only when an override was given
        keyarg = o.args[0] if o.args else A.kwarg(o, "key")
        ck.need(keyarg is not None, "BlobStrategy.store: output call without a key")
        ok_key = True
        why = []
        for i in no_ov.live(o):
            for (leaf, n) in no_ov.cases(keyarg, i):
                dd = fa.df.deps(leaf, n)
                if not is_content_key(leaf, n, dd):
                    ok_key = False
                    why.append("without an override the output key can be `%s`, which is not built from the content hash" % A.short(leaf, 50))
                elif SHA_DEP not in dd or HEX_DEP not in dd:
                    ok_key = False
                    why.append("content key does not derive from the sha256 hexdigest")
                elif _digest_cut(fa, leaf, n, HEX_DEP[5:]):
                    ok_key = False
                    why.append("only part of the digest goes into the content key (`%s`)" % A.short(_digest_cut(fa, leaf, n, HEX_DEP[5:]), 40))
                else:
                    any_content = True
        for i in with_ov.live(o):
            for (leaf, n) in with_ov.cases(keyarg, i):
                dd = fa.df.deps(leaf, n)
                if is_content_key(leaf, n, dd):
                    if SHA_DEP not in dd or HEX_DEP not in dd:
                        ok_key = False
                        why.append("content key does not derive from the sha256 hexdigest")
                elif not ("call:output_key_for_override_key" in dd and "param:" + ov_p in dd):
                    ok_key = False
                    why.append("the output key is redefined to something that is neither the content key nor the override key (%s)" % A.short(leaf, 50))
        o._c07_key = (ok_key, why)
    for o in outs:
        ok_key, why = o._c07_key
        if not any_content:
            ok_key = False
            why = why + ["no definition of the output key derives from the content hash"]
        ck.ob(R1, fa.key(o, "key"), ok_key, "output key = content key unless overridden" if ok_key else "; ".join(sorted(set(why))), fa.where(o))
    hd = set()
    for i in fa.nodes(hashed_at):
        hd |= fa.df.deps(hashed, i)
    ok_enc = "callq:self.encode" in hd and "param:" + obj_p in hd
    ck.ob(R1, fa.key(sha, "bytes-are-encoding"), ok_enc, "the hashed bytes are the encoding of the stored object" if ok_enc else
          "the hashed bytes are not self.encode(obj)", fa.where(sha))
    ck_f = FA(ck, "storage_base.Codec.Strategy.output_key_for_content_key")
    r = ck_f.one(ck_f.returns(), "return")
    cp = ck_f.fi.params[1] if len(ck_f.fi.params) > 1 else "content_key"
    # the text that is built, whichever way it is spelled ("c/{}".format(h), "{}/{}".format(AREA, h), "c/" + h, f"c/{h}"): the literal
    # area prefix followed by exactly one value, the hash
    okc = False
    for x in ast.walk(ck_f.expand(r.value, ck_f.nodes(r)[0]) if ck_f.nodes(r) else r.value):
        t = _template(x)
        if t is not None and t[0] == "c/{}" and len(t[1]) == 1 and A.norm(_unwrap_str(t[1][0])) == "%s.key" % cp:
            okc = True
    ck.ob(R1, ck_f.key(r), okc, "content keys live under c/<hash>" if okc else "content key path no longer derives from the hash", ck_f.where(r))

    # ---- R2
    exs = [c for c in fa.calls("exists_nonversioned")]
    if len(exs) != 1:
        ck.ob(R2, fa.key(None, "no-write-when-present"), False,
              "store() has %d existence tests on the content key: identical results are written again instead of being shared" % len(exs), fa.where())
        exs = None
    if exs:
        _check_dedupe(ck, fa, exs[0], outs, R2)
    _rest(ck, fa, R3, R4, R5, R6)


def _template(e):
    """A.str_template, also for `"<sep>".join((a, b, ...))` over a display (the parts concatenated with the separator between them)."""
    if isinstance(e, ast.Call) and isinstance(e.func, ast.Attribute) and e.func.attr == "join" and A.const_str(e.func.value) is not None \
            and len(e.args) == 1 and not e.keywords and isinstance(e.args[0], (ast.Tuple, ast.List)) and e.args[0].elts \
            and not any(isinstance(x, ast.Starred) for x in e.args[0].elts):
        sep = A.const_str(e.func.value)
        acc = None
        for x in e.args[0].elts:
            if acc is not None and sep:
                acc = ast.BinOp(left=acc, op=ast.Add(), right=ast.Constant(sep))
            acc = x if acc is None else ast.BinOp(left=acc, op=ast.Add(), right=x)
        e = ast.fix_missing_locations(ast.copy_location(acc, e)) if acc is not e.args[0].elts[0] else acc
    return A.str_template(e)


def _unwrap_str(e):
    while isinstance(e, ast.Call) and isinstance(e.func, ast.Name) and e.func.id == "str" and len(e.args) == 1 and not e.keywords:
        e = e.args[0]
    return e


def _content_key_template(ck):
    """The text the content key builder puts around the hash: 'c/{}'."""
    ck_fa = FA(ck, "storage_base.Codec.Strategy.output_key_for_content_key")
    tm = [_template(x) for r in ck_fa.returns() if r.value is not None for x in ast.walk(r.value)]
    tm = [t for t in tm if t is not None and t[0].endswith("{}") and len(t[0]) > 2]
    return tm[0][0] if tm else None


def _spells_content_key(fa, leaf, n, tpl) -> bool:
    """`DataSourceKey(<the builder's template around ONE value>)`: the builder written out at its call site."""
    if tpl is None:
        return False
    try:
        e = fa.expand(leaf, n)
    except Exception:  # noqa - an expression the expander cannot place
        e = leaf
    if not (isinstance(e, ast.Call) and A.call_attr(e) == "DataSourceKey" and len(e.args) + len(e.keywords) == 1):
        return False
    arg = e.args[0] if e.args else e.keywords[0].value
    t = _template(arg)
    return t is not None and t[0] == tpl and len(t[1]) == 1


def _digest_cut(fa, leaf, n, hexname):
    """A subscript / slice applied to (something containing) the hex digest on its way into the key, or None."""
    try:
        e = fa.expand(leaf, n)
    except Exception:  # noqa
        return None
    for x in ast.walk(e):
        if isinstance(x, ast.Subscript) and any(isinstance(y, ast.Call) and A.call_attr(y) == hexname for y in ast.walk(x.value)):
            return x
    return None


def _ds_calls(fa, name, recv_param):
    """Calls `<data source>.name(...)` where the receiver is the given parameter (through any alias)."""
    out = []
    for c in fa.calls(name):
        rv = A.call_recv(c)
        if rv is None or not fa.nodes(c):
            continue
        if fa.xnorm(rv, fa.nodes(c)[0]) == recv_param:
            out.append(c)
    return out


def _roots(fa, name_expr, node_id, depth=8):
    """The definitions a local name ultimately stands for, following plain aliases `a = b`:
    a set of (cfg node, name) — ('param', name) for a parameter."""
    out = set()
    if not isinstance(name_expr, ast.Name):
        return out
    for d in fa.df.reaching(node_id, name_expr.id):
        if d.kind == "param":
            out.add(("param", d.name))
        elif d.kind == "assign" and isinstance(d.value, ast.Name) and depth > 0:
            sub = _roots(fa, d.value, d.node, depth - 1)
            out |= sub if sub else {(d.node, d.name)}
        else:
            out.add((d.node, d.name))
    return out


def sub_conditions(fa):
    """Every expression of the function that is evaluated for its truth value below statement level: tests of
    conditional expressions, non-final operands of `and` / `or`, comprehension filters, assert tests."""
    out = []
    for x in A.walk_body(fa.node):
        if isinstance(x, ast.IfExp):
            out.append(x.test)
        elif isinstance(x, ast.BoolOp):
            out += x.values[:-1]
        elif isinstance(x, ast.comprehension):
            out += x.ifs
    return out


def expr_live(asm, expr, must=False):
    """Is the expression `expr` evaluated on some feasible path under the assumptions `asm` (must=False), or
    whenever its (feasibly reachable) statement runs (must=True)?  Finer than Assume.live: inside the statement the
    branch of a conditional expression, the later operands of `and` / `or` and the element of a filtered
    comprehension are evaluated only if the deciding sub-expressions allow it — `a if t else b`, `t and a`,
    `[a for x in xs if t]` spell the same guard as `if t: a`.  -> list of CFG nodes at which it is evaluated."""
    return [i for i in asm.live(expr) if sub_live(asm, expr, i, must)]


def sub_live(asm, expr, i, must=False):
    """The part of expr_live below statement level: given that the statement containing `expr` runs at CFG node `i`,
    is `expr` evaluated (on some evaluation: must=False; on every evaluation: must=True)?"""
    fa = asm.fa
    ok = True
    n = expr
    while ok and n is not None and not isinstance(n, ast.stmt):
        p = fa.pm.get(n)
        if isinstance(p, ast.IfExp) and n is not p.test:
            t = asm.truth(p.test, i)
            want = n is p.body
            if (t is (not want)) or (must and t is not want):
                ok = False
        elif isinstance(p, ast.BoolOp) and n is not p.values[0]:
            k = [j for j, v in enumerate(p.values) if v is n][0]
            cont = isinstance(p.op, ast.And)          # evaluation continues while operands are `cont`
            for v in p.values[:k]:
                t = asm.truth(v, i)
                if (t is (not cont)) or (must and t is not cont):
                    ok = False
        elif isinstance(p, (ast.ListComp, ast.SetComp, ast.GeneratorExp, ast.DictComp)) and not isinstance(n, ast.comprehension):
            # the element: once per item that passes every filter
            if must or any(asm.truth(c, i) is False for g in p.generators for c in g.ifs):
                ok = False
        elif isinstance(p, ast.comprehension):
            comp = fa.pm.get(p)
            gens = list(getattr(comp, "generators", [p]))
            k = [j for j, g in enumerate(gens) if g is p][0] if any(g is p for g in gens) else 0
            earlier = [c for g in gens[:k] for c in g.ifs]
            if n is p.iter:
                # the first iterable is evaluated eagerly; a later one once per item of the earlier generators
                if k > 0 and (must or any(asm.truth(c, i) is False for c in earlier)):
                    ok = False
            else:
                j = [x for x, c in enumerate(p.ifs) if c is n]
                earlier = earlier + (p.ifs[:j[0]] if j else [])
                if must or any(asm.truth(c, i) is False for c in earlier):
                    ok = False
        elif isinstance(p, ast.Lambda):
            if must:
                ok = False
        n = p
    return ok


NONNULL_CALLS = ("get_versioned_key", "output")     # DataSource API: return a VersionedDataSourceKey, never None


def refined(fa, atom, rounds=3):
    """An Assume whose atoms additionally decide `x is None` / `x is not None` / the truth of `x` for a local `x`
    from the definitions that reach the test on the paths the assumptions leave feasible (None, or the value of
    a data-source call that never answers None).  This is how "result variable + `if result is None:`" spells
    the same decision as an early return.  Computed by iteration: each round prunes with the reaching
    definitions of the previous one (an over-approximation, so every decision taken is sound)."""
    prev = None
    asm = None
    for _ in range(rounds):
        asm = _Refined(fa, atom, prev)
        IN = asm.IN()
        sig = {n: frozenset((d.node, d.name) for d in ds) for n, ds in IN.items()}
        if prev is not None and sig == prev[1]:
            break
        prev = (IN, sig)
    return asm


class _Refined(Assume):
    def __init__(self, fa, atom, prev):
        self._base_atom = atom
        self._prev = prev[0] if prev is not None else None
        self._at = None
        self._names = set()
        super().__init__(fa, self._atom)

    def truth(self, test, node_id):
        k = (id(test), node_id)
        if k not in self._t:
            old, self._at = (self._at, self._names), node_id
            # only names the test itself reads are looked up at this node (a name brought in by expanding a
            # temporary was evaluated elsewhere)
            self._names = {x.id for x in ast.walk(test) if isinstance(x, ast.Name)}
            try:
                super().truth(test, node_id)
            finally:
                self._at, self._names = old
        return self._t[k]

    def _noneness(self, e, at, depth=4):
        """'none' / 'object' / None (unknown) for the value of expression e at node `at`."""
        if A.is_none(e):
            return "none"
        if isinstance(e, ast.Call) and A.call_attr(e) in NONNULL_CALLS:
            return "object"
        if isinstance(e, ast.IfExp):
            a, b = self._noneness(e.body, at, depth), self._noneness(e.orelse, at, depth)
            return a if a == b else None
        if isinstance(e, ast.Name) and depth > 0 and self._prev is not None and at is not None and (at != self._at or e.id in self._names):
            ds = [d for d in self._prev.get(at, ()) if d.name == e.id]
            if not ds or not all(d.kind == "assign" and d.value is not None for d in ds):
                return None
            vals = {self._noneness(d.value, d.node, depth - 1) for d in ds}
            return vals.pop() if len(vals) == 1 else None
        return None

    def _atom(self, e):
        v = self._base_atom(e)
        if v is not None:
            return v
        if isinstance(e, ast.Compare) and len(e.ops) == 1 and isinstance(e.ops[0], (ast.Is, ast.Eq)) and A.is_none(e.comparators[0]):
            k = self._noneness(e.left, self._at)
            return None if k is None else (k == "none")
        if isinstance(e, ast.Name):
            k = self._noneness(e, self._at)
            return None if k is None else (k == "object")
        return None


def _check_dedupe(ck, fa, ex, outs, R2):
    """Decided on what is reachable under assumptions about the two facts that matter (is there an override?
    does the content key exist?), not on the shape of the tests."""
    P = fa.fi.params
    ov_p = P[2] if len(P) > 2 else "key_override"
    EX = ("exists_nonversioned",)
    present = refined(fa, param_truth_atom(ov_p, False, call_atom(EX, True)))
    absent = refined(fa, param_truth_atom(ov_p, False, call_atom(EX, False)))
    with_ov = refined(fa, param_truth_atom(ov_p, True))
    live = present.reach()
    # evaluated, not merely "in a statement that runs": `reuse(k) if present else output(k, ...)` writes nothing
    ok = not any(expr_live(present, o) for o in outs)
    ck.ob(R2, fa.key(ex, "no-write-when-present"), ok, "output is reached only under an override or when the content key is absent" if ok else
          "a new object version is written although the content key exists and no override was given", fa.where(ex))
    # under an override the new bytes are always written (the override location is mutable: the
    # last write must win)
    ov_tests = [n for n in fa.cfg.nodes if n.kind == "test" and n.id in fa.cfg.reachable_nodes() and with_ov.truth(n.ast, n.id) is not None]
    out_nodes = [i for o in outs for i in expr_live(with_ov, o, must=True)]
    okw = fa.cfg.exit not in with_ov.reach(removed=out_nodes)
    ck.ob(R2, fa.key(ov_tests[0].ast if ov_tests else None, "override-always-writes"), okw, "with a key override the object is always written" if okw else
          "with a key override store() can return without writing (the reuse shortcut also fires for override keys): a second result "
          "written under the same override key is dropped and reads return the first one", fa.where(ex))
    # content key present, no override: what is returned is get_versioned_key(<that content key>)
    ex_keys = set()
    for i in fa.nodes(ex):
        ex_keys |= present.texts(ex.args[0], i) if ex.args else set()
    rets = [fa.cfg.node(i).ast for i in sorted(live) if fa.cfg.node(i).kind == "stmt" and isinstance(fa.cfg.node(i).ast, ast.Return)]
    okr = bool(rets) and bool(ex_keys)
    for x in rets:
        for i in present.live(x):
            for (leaf, n) in (present.cases(x.value, i) if x.value is not None else [(None, i)]):
                if not (isinstance(leaf, ast.Call) and A.call_attr(leaf) == "get_versioned_key" and len(leaf.args) == 1
                        and present.texts(leaf.args[0], n) == ex_keys):
                    okr = False
    first = rets[0] if rets else ex
    ck.ob(R2, fa.key(first, "reuse-existing"), okr, "the existing versioned key of the same key is returned" if okr else
          "the dedupe path does not return get_versioned_key(<content key>)", fa.where(first))
    # the key tested is the content key, and it is the key that is written when the test fails
    exarg_ok = bool(ex_keys)
    for i in fa.nodes(ex):
        for (leaf, n) in (absent.cases(ex.args[0], i) if ex.args else []):
            icc = getattr(fa, "_c07_is_content_key", None)
            dd = fa.df.deps(leaf, n)
            if not (icc(leaf, n, dd) if icc is not None else "call:output_key_for_content_key" in dd):
                exarg_ok = False
    for o in outs:
        keyarg = o.args[0] if o.args else A.kwarg(o, "key")
        for i in absent.live(o):
            if keyarg is None or absent.texts(keyarg, i) != ex_keys:
                exarg_ok = False
    ck.ob(R2, fa.key(ex, "tests-content-key"), bool(exarg_ok), "the existence test is on the content key" if exarg_ok else
          "the existence test is not on the key that would be written", fa.where(ex))



def check_override_namespace(ck, R):
    """Content-addressed objects live under a reserved prefix and are shared between results; a key override
    is caller-chosen text.  The override key builder refuses (or escapes) keys that fall under the prefix the
    content key builder uses, so no object can sit under a content key that its bytes do not hash to."""
    ck_fa = FA(ck, "storage_base.Codec.Strategy.output_key_for_content_key")
    tm = [_template(x) for r in ck_fa.returns() if r.value is not None for x in ast.walk(r.value)]
    tm = [t for t in tm if t is not None and t[0].endswith("{}") and len(t[0]) > 2]
    ck.need(tm, "output_key_for_content_key: cannot identify the content prefix")
    prefix = tm[0][0][:-2]            # 'c/'
    stem = prefix.rstrip("/")
    ov = FA(ck, "storage_base.Codec.Strategy.output_key_for_override_key")
    kp = ov.fi.params[-1] if ov.fi.params else "override_key"

    # a table of reserved areas (a dict / set / tuple literal bound once at module or class level) is read as the literal
    consts = {}
    for name, v in ov.fi.module.assigns.items():
        if isinstance(v, (ast.Dict, ast.Set, ast.Tuple, ast.List)) or (isinstance(v, ast.Call) and A.call_attr(v) in ("frozenset", "set", "dict", "tuple")):
            consts[name] = v
    c_ = ov.fi.cls
    while c_ is not None:
        for st_ in c_.node.body:
            if isinstance(st_, ast.Assign) and len(st_.targets) == 1 and isinstance(st_.targets[0], ast.Name) and isinstance(st_.value, (ast.Dict, ast.Set, ast.Tuple, ast.List)):
                consts.setdefault(st_.targets[0].id, st_.value)
        c_ = getattr(c_, "outer", None)

    def with_tables(e):
        import copy

        class T(ast.NodeTransformer):
            def visit_Name(self, n):
                if isinstance(n.ctx, ast.Load) and n.id in consts and not ov.df.is_local(n.id):
                    return copy.deepcopy(consts[n.id])
                return n

            def visit_Attribute(self, n):
                self.generic_visit(n)
                if isinstance(n.ctx, ast.Load) and n.attr in consts and isinstance(n.value, ast.Name) and n.value.id in ("self", "cls", ov.fi.cls.name if ov.fi.cls else ""):
                    return copy.deepcopy(consts[n.attr])
                return n
        return T().visit(copy.deepcopy(e)) if consts else e

    def table_keys(e):
        """keys of the literal table a look-up `T.get(x)` / `T[x]` reads"""
        t = e.func.value if isinstance(e, ast.Call) and isinstance(e.func, ast.Attribute) and e.func.attr == "get" else (e.value if isinstance(e, ast.Subscript) else None)
        if isinstance(t, ast.Dict):
            return [k.value for k in t.keys if isinstance(k, ast.Constant) and isinstance(k.value, str)]
        return []

    def refused_or_escaped(strings_any, negative_ok=False):
        """Under the assumption that every comparison / call on the override key that mentions one of `strings_any` holds:
        is the key refused on every path, or rewritten before it is returned?  (False when no such test exists.)"""
        hits = [0]

        def atom(e):
            if isinstance(e, ast.Name) and e.id == kp:
                return True
            e = with_tables(e)
            if isinstance(e, ast.Compare) and len(e.ops) == 1 and isinstance(e.ops[0], (ast.Is, ast.Eq)) and A.is_none(e.comparators[0]) \
                    and isinstance(e.left, (ast.Call, ast.Subscript)) and (set(strings_any) & set(table_keys(e.left))) and kp in A.names_in(e.left):
                hits[0] += 1
                return False         # the look-up of a reserved component in the table of reserved areas finds an entry
            if isinstance(e, (ast.Compare, ast.Call)) and (set(strings_any) & set(A.strings_in(e))) \
                    and kp in A.names_in(e) and not (isinstance(e, ast.Compare) and type(e.ops[0]) in (ast.NotEq, ast.NotIn, ast.IsNot)):
                hits[0] += 1
                return True
            return None
        asm = Assume(ov, atom)
        # an `assert` the assumption falsifies raises
        failing = [n.id for n in ov.cfg.nodes if n.kind == "stmt" and isinstance(n.ast, ast.Assert) and asm.truth(n.ast.test, n.id) is False]
        live = asm.reach(removed=failing)
        if ov.cfg.exit not in live:
            res = True        # refused on every path
        else:
            # or escaped: every key returned for such an override is rewritten (quoted / prefix replaced)
            rets = [ov.cfg.node(i) for i in live if ov.cfg.node(i).kind == "stmt" and isinstance(ov.cfg.node(i).ast, ast.Return)]
            res = bool(rets) and all(r.ast.value is not None and any(A.call_attr(c) in ("replace", "quote", "normpath") for c in A.calls_in(ov.expand(r.ast.value, r.id)))
                                     for r in rets)
        return res and hits[0] > 0

    ok = refused_or_escaped((prefix, stem))
    ck.ob(R, ov.key(None, "override-outside-content-namespace"), ok,
          "override keys under %r are refused / escaped" % prefix if ok else
          "a key override is used verbatim, also when it lies under %r: KeyOverrideResult(x, '%s<sha of other bytes>') puts an object under a content "
          "key that its bytes do not hash to, and a later result that does hash to it is deduplicated against the wrong bytes" % (prefix, prefix), ov.where())
    # the same place under another spelling: './c/<sha>', 'x/../c/<sha>' and 'c//<sha>' resolve to the content key's files, so a
    # guard that compares the first component alone is walked around (D44)
    okn = refused_or_escaped(("..",))
    ck.ob(R, ov.key(None, "override-normalised"), okn,
          "override keys with '.', '..' or empty components are refused / normalised" if okn else
          "a key override with '.' / '..' components is used verbatim: './%s<sha>' or 'x/../%s<sha>' passes a guard on the first component and "
          "resolves to the files of a content key, so arbitrary bytes can be planted under a content hash (and '../x' leaves the store)" % (prefix, prefix), ov.where())
    # the metadata tree: with one root for data and metadata (the default), an object under the metadata prefix is listed as a function
    mcls = ck.repo.cls("storage_base.DataSourceMetadataSource")
    mstem = None
    for st in mcls.node.body:
        if isinstance(st, (ast.Assign, ast.AnnAssign)) and st.value is not None:
            tg = st.targets if isinstance(st, ast.Assign) else [st.target]
            if any(isinstance(t, ast.Name) and "prefix" in t.id for t in tg):
                ss = A.strings_in(st.value)
                if len(ss) == 1:
                    mstem = list(ss)[0].rstrip("/")
    ck.need(mstem, "DataSourceMetadataSource: cannot identify the metadata prefix")
    okm = refused_or_escaped((mstem, mstem + "/"))
    ck.ob(R, ov.key(None, "override-outside-metadata-namespace"), okm,
          "override keys under %r are refused / escaped" % (mstem + "/") if okm else
          "a key override under %r is used verbatim: with data and metadata under one root (the default) the object lands in the metadata tree, "
          "list_functions yields it as a function and fails on it" % (mstem + "/"), ov.where())


def _codec_functions(ck):
    """Every function of the result codecs (classes nested in Codec / DefaultCodec, helpers included), as the front end left them."""
    out = []
    for ci in ck.repo.module("storage_base").all_classes():
        if ci.qual.startswith(("storage_base.Codec", "storage_base.DefaultCodec")):
            out += list(ci.methods.values())
    return out


def _carried_field(fa, expr, node_id, fields, depth=6):
    """The field of an EXISTING index entry that `expr` is, unchanged: `<entry>.f`, `getattr(<entry>, 'f')`, `<entry>[i]`, a local
    bound to one of these, or a name unpacked from an entry by an assignment or in a loop target.  None for anything computed."""
    if depth <= 0:
        return None
    if isinstance(expr, ast.Call) and A.call_attr(expr) == "getattr" and len(expr.args) == 2 and A.const_str(expr.args[1]) in fields:
        return A.const_str(expr.args[1])
    ef = _entry_field(fa, expr, node_id, fields, depth)
    if ef is not None:
        return ef[1] if ef[1] in fields else None
    if isinstance(expr, ast.Name):
        ds = fa.df.reaching(node_id, expr.id)
        if len(ds) == 1 and ds[0].kind == "assign" and ds[0].value is not None:
            return _carried_field(fa, ds[0].value, ds[0].node, fields, depth - 1)
        if len(ds) == 1 and ds[0].kind in ("for", "unpack"):
            tg = getattr(ds[0].stmt, "target", None)
            for t in ([tg] if tg is not None else getattr(ds[0].stmt, "targets", [])):
                for x in ast.walk(t):
                    if isinstance(x, (ast.Tuple, ast.List)) and len(x.elts) == len(fields) and not any(isinstance(e, ast.Starred) for e in x.elts):
                        for i, e in enumerate(x.elts):
                            if isinstance(e, ast.Name) and e.id == expr.id:
                                return fields[i]
    return None


def check_pinned_keys(ck, R):
    """A versioned key (key + version) names bytes for good; the pointer of a bare key names whatever was written under that name
    last.  Only for a content-addressed key do the two agree (same key => same bytes), so that is the only kind of key a codec may
    resolve through the pointer when it decides which object a result -- or an entry of a partition index -- is recorded as.  An
    entry a partition inherits from its parent is recorded under the parent's versioned key itself."""
    from . import partition_model as PM
    blob_store = ck.repo.try_func(BLOB + ".store")
    tpl = _content_key_template(ck)
    seen = 0
    for fi in _codec_functions(ck):
        if not any(A.call_attr(c) == "get_versioned_key" for c in A.body_calls(fi.node)):
            continue
        fa = FA(ck, fi)
        # the one place where a key override decides: under an override nothing is looked up (R2 decides what is returned there)
        ov = fi.params[2] if blob_store is not None and fi.qual == blob_store.qual and len(fi.params) > 2 else None
        asm = refined(fa, param_truth_atom(ov, False)) if ov else Assume(fa, lambda e: None)
        for c in fa.calls("get_versioned_key"):
            seen += 1
            arg = c.args[0] if c.args else A.kwarg(c, "key")
            ok = arg is not None
            bad = None
            if ov and expr_live(refined(fa, param_truth_atom(ov, True)), c):
                ok, bad = False, "an override key"
            for i in (expr_live(asm, c) if ok else []):
                for (leaf, n) in asm.cases(arg, i):
                    dd = fa.df.deps(leaf, n)
                    if not ("call:output_key_for_content_key" in dd or _spells_content_key(fa, leaf, n, tpl)):
                        ok, bad = False, "`%s`" % A.short(leaf, 50)
            ck.ob(R, fa.key(c, "latest-version-only-of-content-keys"), ok,
                  "the latest version is looked up for a content-addressed key" if ok else
                  "%s resolves %s through the key's mutable pointer and records the answer: the key is not built from the hash of the bytes, so "
                  "the latest version under it is whatever was written there last (an override key is overwritten in place) -- the value "
                  "recorded keeps reading bytes other than the ones it was created with" % (fi.qual.split(".", 1)[1], bad or "a key"), fa.where(c))
    ck.need(seen, "no codec resolves a content key to its stored version (get_versioned_key): cannot place the dedupe path")
    # what a partition records for each of its values
    fa = FA(ck, PM.STORE)
    fields = PM.entry_type_fields(ck) or _namedtuple_fields(ck, "storage_base", ("result_type", "content_key"))
    ents = [(c, ef) for (c, ef) in PM.entries_in(fa.node, fields) if fa.nodes(c)]
    asm = Assume(fa, lambda e: None)
    stored = 0
    for (c, ef) in ents:
        okc = True
        bad = None
        for i in fa.nodes(c):
            for (leaf, n) in asm.cases(ef["content_key"], i):
                if isinstance(leaf, ast.Call) and A.call_attr(leaf) == "store":
                    stored += 1
                    continue            # written (or shared by content) in this activation: the key the codec answered
                if _carried_field(fa, leaf, n, fields) == "content_key":
                    continue            # an existing entry's versioned key, as it is
                okc, bad = False, leaf
        ck.ob(R, fa.key(c, "entry-key-unchanged"), okc,
              "index entries record the key their value was stored under / the parent's versioned key itself" if okc else
              "a partition index entry is recorded under `%s`, which is neither the key the codec returned for the value stored now nor the "
              "versioned key of the parent's entry: the merged partition reads other bytes than its parent did when it was created"
              % A.short(bad, 60), fa.where(c))
    ck.need(stored, "PicklePartitionStrategy.store: no index entry records the key returned by the codec's store")


def check_who_may_delete(ck, R4):
    """Stored objects are shared (content addressed) and referenced by mementos: the data-source delete
    operations are called only by the metadata source's forget operations (on the metadata prefix) and
    by the null strategy (pointer only) — never from the write path, an error handler or a partition."""
    sites = ck.cg.call_sites_of(lambda call, cands: A.call_attr(call) in ("delete_all_versions", "delete_nonversioned_key"))
    for (fi, call, cands) in sites:
        inside_fsds = fi.cls is not None and fi.cls.qual == FSDS
        allowed = fi.qual in DELETE_CALLERS or inside_fsds
        recv = A.dotted(A.call_recv(call)) or ""
        if fi.qual.startswith("storage_base.StorageBackendBase") or recv == "self._data_source":
            allowed = False
        if fi.qual in DELETE_OPS and A.call_attr(call) not in DELETE_OPS[fi.qual]:
            ck.ob(R4, "%s::%s::operation" % (fi.qual, A.call_attr(call)), False,
                  "%s calls %s: it may only remove the pointer (%s); deleting all versions destroys objects that older mementos still reference"
                  % (fi.qual.split(".")[-2], A.call_attr(call), sorted(DELETE_OPS[fi.qual])), A.loc(fi, call))
            continue
        if allowed and fi.qual in DELETE_ARG_VIA and call.args:
            fa_ = FA(ck, fi)
            via = "call:" + DELETE_ARG_VIA[fi.qual]
            if via not in fa_.deps(call.args[0]):
                ck.ob(R4, "%s::%s::confined" % (fi.qual, A.call_attr(call)), False,
                      "%s deletes a key that is not built by %s: it may only remove its own metadata files" % (fi.qual, DELETE_ARG_VIA[fi.qual]), A.loc(fi, call))
                continue
        ck.ob(R4, "%s::%s" % (fi.qual, A.short(call, 70)), allowed,
              DELETE_CALLERS.get(fi.qual, "internal to the data source") if allowed else
              "data deletion called from %s: result objects shared by other mementos can disappear" % fi.qual, A.loc(fi, call))
    return sites


def _namedtuple_fields(ck, modname, must_have):
    """Field list of the module-level namedtuple that has the given fields (the partition index entry)."""
    m = ck.repo.module(modname)
    for n in ast.walk(m.tree):
        if isinstance(n, ast.Call) and A.call_attr(n) == "namedtuple" and len(n.args) == 2:
            f = n.args[1]
            names = [A.const_str(e) for e in f.elts] if isinstance(f, (ast.List, ast.Tuple)) else (A.const_str(f) or "").replace(",", " ").split()
            if all(x in names for x in must_have):
                return names
        if isinstance(n, ast.ClassDef) and any(A.norm(b).endswith("NamedTuple") for b in n.bases):
            names = [st.target.id for st in n.body if isinstance(st, ast.AnnAssign) and isinstance(st.target, ast.Name)]
            if all(x in names for x in must_have):
                return names
    return list(must_have)


def _entry_field(fa, expr, node_id, fields, depth=6):
    """`expr` as a field of a record: (name-independent text of the record, field name) for `rec.field`,
    `rec[i]`, or a local bound by `a, b, _ = rec` / `x = rec.field`; None otherwise."""
    if depth <= 0:
        return None
    if isinstance(expr, ast.Attribute):
        return (fa.xnorm(expr.value, node_id), expr.attr)
    if isinstance(expr, ast.Subscript) and isinstance(expr.slice, ast.Constant) and isinstance(expr.slice.value, int) \
            and 0 <= expr.slice.value < len(fields):
        return (fa.xnorm(expr.value, node_id), fields[expr.slice.value])
    if isinstance(expr, ast.Name):
        ds = fa.df.reaching(node_id, expr.id)
        if len(ds) != 1:
            return None
        d = ds[0]
        if d.kind == "assign" and d.value is not None:
            return _entry_field(fa, d.value, d.node, fields, depth - 1)
        if d.kind == "unpack" and isinstance(d.stmt, ast.Assign) and len(d.stmt.targets) == 1 and isinstance(d.stmt.targets[0], (ast.Tuple, ast.List)):
            elts = d.stmt.targets[0].elts
            if len(elts) == len(fields) and not any(isinstance(e, ast.Starred) for e in elts):
                for i, e in enumerate(elts):
                    if isinstance(e, ast.Name) and e.id == expr.id:
                        return (fa.xnorm(d.value, d.node), fields[i])
    return None


def _rest(ck, fa, R3, R4, R5, R6):
    # ---- R3
    strat = ck.repo.cls("storage_base.Codec.Strategy")
    for c in ck.repo.subclasses(strat):
        ld = c.methods.get("load")
        if ld is None:
            continue
        f2 = FA(ck, ld)
        reads = f2.calls("input_versioned") + f2.calls("input_nonversioned")
        ctor = [x for x in f2.calls("PicklePartition")]
        if not reads and not ctor:
            # NullStrategy: constant
            okn = all(r.value is None or A.is_none(r.value) for r in f2.returns())
            ck.ob(R3, f2.key(None), okn, "constant load" if okn else "load neither reads versioned data nor is constant", f2.where())
            continue
        LP = f2.fi.params
        ds_l, key_l = (LP[1], LP[2]) if len(LP) >= 3 else ("data_source", "key")
        xn = lambda call: [f2.xnorm(a, f2.nodes(call)[0]) for a in call.args] if f2.nodes(call) else None
        ok = all(A.call_attr(x) == "input_versioned" and xn(x) == [key_l] for x in reads) and \
            all((xn(x) or [])[1:] == [ds_l, key_l] for x in ctor)
        ck.ob(R3, f2.key(None), ok, "load reads input_versioned(key)" if ok else
              "load does not read exactly the versioned key it was given", f2.where())
    for modname in ("storage_base",):
        for ci in ck.repo.module(modname).all_classes():
            if ci.qual.startswith(("storage_base.Codec", "storage_base.DefaultCodec")):
                for m in ci.methods.values():
                    for call in A.body_calls(m.node):
                        if A.call_attr(call) == "input_nonversioned":
                            ck.ob(R3, "%s::%s" % (m.qual, A.short(call, 60)), False,
                                  "a codec reads through the mutable pointer (input_nonversioned): the memento no longer pins its bytes", A.loc(m, call))
    pp = FA(ck, "storage_base.DefaultCodec.PicklePartition.get")
    lc = pp.one(pp.calls("load"), "codec.load call")
    kp = pp.fi.params[1] if len(pp.fi.params) > 1 else "key"
    fields = _namedtuple_fields(ck, "storage_base", ("result_type", "content_key"))
    at = pp.nodes(lc)[0]
    # by the callee's parameter names, so positional and keyword spellings are the same call
    cl = ck.repo.try_func("storage_base.Codec.load")
    lparams = [p_ for p_ in (cl.params if cl is not None else ["self", "result_type", "data_source", "key"]) if p_ != "self"]
    largs = [A.arg_or_kw(lc, i, pn) for i, pn in enumerate(lparams[:3])]
    okp = len(lc.args) + len(lc.keywords) == 3 and all(a is not None for a in largs)
    if okp:
        rt, ckf = _entry_field(pp, largs[0], at, fields), _entry_field(pp, largs[2], at, fields)
        entries = ("self._index[%s]" % kp, "self._index.get(%s)" % kp)
        okp = rt is not None and ckf is not None and rt[1] == "result_type" and ckf[1] == "content_key" \
            and rt[0] == ckf[0] and rt[0] in entries and pp.xnorm(largs[1], at) == "self._data_source"
    ck.ob(R3, pp.key(None, "loads-indexed-key"), okp, "partition values are loaded by their indexed versioned key" if okp else
          "partition get() does not load (entry.result_type, data source, entry.content_key)", pp.where(lc))
    pi = FA(ck, "storage_base.DefaultCodec.PicklePartition.__init__")
    iv = pi.calls("input_versioned")
    base_vals = {"self._base_key"} | {pi.xnorm(st.value, pi.nodes(st)[0]) for st in pi.stmts(ast.Assign)
                                      if any(A.dotted(t) == "self._base_key" for t in st.targets) and pi.nodes(st)}
    oki = len(iv) == 1 and len(iv[0].args) == 1 and bool(pi.nodes(iv[0])) and pi.xnorm(iv[0].args[0], pi.nodes(iv[0])[0]) in base_vals \
        and not pi.calls("input_nonversioned")
    ck.ob(R3, pi.key(None, "index-read"), oki, "the partition index is read by its versioned key" if oki else
          "the partition index is not read through its versioned key", pi.where())

    # ---- R4
    sites = check_who_may_delete(ck, R4)
    seen_callers = {fi.qual for (fi, _, _) in sites}
    for q in DELETE_CALLERS:
        if q not in seen_callers:
            ck.note(R4, q, "listed delete caller has no delete call any more")
    for q, lst in ck.cg.fs_write_sites.items():
        for n in lst:
            nm = A.call_attr(n) if isinstance(n, ast.Call) else ""
            if nm in ("unlink", "rmtree", "rmdir", "remove", "removedirs"):
                fi = ck.cg.funcs[q]
                ok = (fi.cls is not None and fi.cls.qual == FSDS and ("delete" in fi.name)) or fi.qual == "storage_filesystem.OnDiskPartition.__del__"
                if not ok and fi.cls is not None and fi.cls.qual == FSDS:
                    # a scratch file the method itself created under a name outside the key scheme (never a stored object)
                    ok = _removes_own_scratch(ck, fi, n)
                ck.ob(R4, "%s::%s" % (q, A.short(n, 50)), ok, "removal primitive inside a delete method of the data source" if ok else
                      "filesystem removal outside the data source's delete methods", A.loc(fi, n))
    for name in ("forget_call", "forget_function", "forget_everything"):
        m = ck.repo.func("storage_base.StorageBackendBase." + name)
        bad = [c for c in A.body_calls(m.node) if (A.dotted(A.call_recv(c)) or "").startswith("self._data_source")]
        ck.ob(R4, m.qual + "::no-data-source", not bad, "%s does not touch the data source" % name if not bad else
              "%s operates on the data source (%s)" % (name, A.short(bad[0], 50)), A.loc(m, bad[0] if bad else m.node))

    # ---- R7: a content key is visible only once its bytes are completely written
    from .c08 import check_write_order
    ck.run(check_write_order, ck, "C07.R7", only_output=True)
    # ---- R5
    fo = FA(ck, FSDS + ".output")
    from .c08 import write_opens, open_path, path_role, OBJ_PATH
    # the open that receives the object's bytes (a pointer write inlined into output is not it)
    wopen = fo.one(write_opens(ck, fo)["object"], "write-mode open of the object in output")
    deps = fo.deps(open_path(wopen))
    ok = "call:uuid4" in deps and "call:_get_path_versioned" in deps
    ck.ob(R5, fo.key(wopen, "fresh-version"), ok, "the object is written under a uuid4() version directory" if ok else
          "the written object path does not contain a fresh uuid4(): an existing version can be overwritten", fo.where(wopen))
    # ... and exactly AT the versioned path (no staging name derived from the key alone, which two
    # writers of the same key would share)
    recv = open_path(wopen)
    exact = False
    if isinstance(recv, ast.Call) and A.call_attr(recv) == "str" and recv.args:
        recv = recv.args[0]
    if isinstance(recv, ast.Name):
        ds = [d for i in fo.nodes(wopen) for d in fo.df.reaching(i, recv.id)]
        exact = bool(ds) and all(isinstance(d.value, ast.Call) and A.call_attr(d.value) == "_get_path_versioned" and len(d.value.args) == 1 and not d.value.keywords for d in ds)
    if not exact and recv is not None and fo.nodes(wopen):
        # the same fact through temporaries / wrappers: the opened path IS the value of the versioned-path builder
        # called for the object (no metadata key)
        from .c08 import _strip_path_wrappers
        e = _strip_path_wrappers(fo.expand(recv, fo.nodes(wopen)[0]))
        exact = path_role(fo, recv, fo.nodes(wopen)[0]) == "object" and isinstance(e, ast.Call) and A.call_attr(e) == OBJ_PATH \
            and len(e.args) + len(e.keywords) == 1 and all(k.arg != "metadata_key" for k in e.keywords)
    ck.ob(R5, fo.key(wopen, "written-at-versioned-path"), exact, "bytes are written directly at the fresh versioned path" if exact else
          "the object's bytes are first written to `%s`, a name that is not the fresh versioned path: two writers of the same key share that "
          "file, so one version can end up holding the other's bytes" % A.short(recv, 60), fo.where(wopen))
    gp = FA(ck, FSDS + "._get_path_versioned")
    okv = all("attr:key.version" in gp.deps(r.value) for r in gp.returns()) and len(gp.returns()) >= 1
    ck.ob(R5, gp.key(None, "version-in-path"), okv, "every versioned path contains key.version" if okv else
          "a versioned path is built without the version component", gp.where())
    rk = fo.one(fo.returns(), "return")
    okrk = fo.xnorm(rk.value).startswith("VersionedDataSourceKey(") and "call:uuid4" in fo.deps(rk.value)
    ck.ob(R5, fo.key(None, "returns-fresh-key"), okrk, "output returns the fresh versioned key" if okrk else
          "output does not return the versioned key it just wrote", fo.where(rk))
    for q, lst in ck.cg.fs_write_sites.items():
        if not q.startswith("storage_filesystem.") and not q.startswith("storage_base."):
            continue
        for n in lst:
            if isinstance(n, ast.Call) and A.call_attr(n) in ("open", "write_text", "write_bytes"):
                fi = ck.cg.funcs[q]
                ok = q in WRITE_OPEN_SITES
                why = WRITE_OPEN_SITES.get(q, "")
                if not ok and fi.cls is not None and fi.cls.qual == FSDS and _writes_pointer(ck, fi, n):
                    # the pointer file is the one mutable name of a key, wherever in the data source it is written (when, and after
                    # what, is C08.R1 / R2's obligation): no stored object is opened
                    ok, why = True, "pointer file"
                if not ok and fi.cls is not None and fi.cls.qual == FSDS:
                    # bytes staged under a scratch name and moved onto a version path that does not exist yet: no stored
                    # object is written in place (that the scratch file cannot leak is C05.R5's obligation)
                    ok = _staged_onto_absent_object(ck, fi, n)
                    why = "object staged under a scratch name and moved onto a version path that is not there yet"
                    if ok:
                        # an object that appears under a version path without going through output() is an object of this store
                        # like any other: unless the key already designates one, it becomes the object its key designates, so that
                        # a later result with the same bytes is stored AS it (the dedupe test of R2 looks at the key) -- D52
                        f2 = FA(ck, fi)
                        links = _pointer_publications(ck, f2)

                        def _excused(conj):
                            return all((not pol) and any(w in txt for w in ("exists", " is self", "self is ", " is None")) for (txt, pol) in conj)
                        from .c08 import open_path as _op

                        def _key_params(e, at):
                            return {d_[6:] for d_ in f2.df.deps(e, at) if d_.startswith("param:") and d_[6:] not in ("self", "cls")}
                        obj_keys = _key_params(_op(n), f2.nodes(n)[0]) if f2.nodes(n) and _op(n) is not None else set()
                        okl = False
                        for c in links:
                            # ... of the same key: what names the pointer is taken from what names the object brought in
                            named = [a for a in list(c.args) + [k.value for k in c.keywords]] if A.call_attr(c) not in ("open", "write_text", "write_bytes", "FileIO") \
                                else [c.func.value if A.call_attr(c) in ("write_text", "write_bytes") and isinstance(c.func, ast.Attribute) else _op(c)]
                            ptr_keys = set()
                            for a in named:
                                if a is not None:
                                    ptr_keys |= _key_params(a, f2.nodes(c)[0])
                            if obj_keys and not (ptr_keys and ptr_keys <= obj_keys):
                                continue
                            conds = f2.conditions(f2.stmt_of(c))
                            if conds and all(_excused(conj) for conj in conds):
                                okl = True
                        ck.ob("C07.R2", "%s::%s::registered-under-its-key" % (q, A.short(n, 50)), okl,
                              "the object brought in is made the one its key designates when the key designates none" if okl else
                              "%s puts an object under a version path but never writes the key's pointer for it: the next result that serializes "
                              "to the same bytes does not find it and is stored a second time beside it" % q, A.loc(fi, n))
                ck.ob(R5, "%s::%s" % (q, A.short(n, 50)), ok, why if ok else
                      "new write-mode open in the storage layer at %s (not one of the known write sites, and not a scratch file that is "
                      "moved onto a version path established to be absent): a stored object can be written in place" % q, A.loc(fi, n))
    om = FA(ck, FSDS + ".output_metadata")
    pc = om.one(om.calls("_get_path_versioned"), "_get_path_versioned call")
    okm = A.kwarg(pc, "metadata_key") is not None or len(pc.args) > 1
    ck.ob(R5, om.key(pc, "side-car"), okm, "metadata is written to a side-car path, never the object path" if okm else
          "output_metadata writes to the object path itself", om.where(pc))

    # ... for EVERY metadata key string: the object path (the one built without the metadata key)
    # may be selected only by `metadata_key is None`, not by the key's truth value ('' is a key)
    ck.rule("C07.R9", "the object path is selected only when no metadata key is given (`is None`), never by the truth value of the key string", 1)
    GP = gp.fi.params
    mk = "metadata_key" if "metadata_key" in GP else (GP[2] if len(GP) > 2 else "metadata_key")
    # every condition on the metadata key, wherever it is evaluated: if / while tests, conditional expressions,
    # operands of and / or used for their truth value, assert, comprehension filters
    conds = []
    for x in A.walk_body(gp.node):
        if isinstance(x, (ast.If, ast.While, ast.IfExp, ast.Assert)):
            conds.append(x.test)
        elif isinstance(x, ast.BoolOp):
            conds += x.values[:-1] if not any(x is c_ or x in ast.walk(c_) for c_ in conds) else []
        elif isinstance(x, ast.comprehension):
            conds += x.ifs

    def atoms(t):
        if isinstance(t, ast.UnaryOp) and isinstance(t.op, ast.Not):
            return atoms(t.operand)
        if isinstance(t, ast.BoolOp):
            return [a for v in t.values for a in atoms(v)]
        return [t]

    def reads_mk(a):
        if mk in {x.id for x in ast.walk(a) if isinstance(x, ast.Name)}:
            return True
        ids = gp.nodes(a)
        return bool(ids) and any("param:" + mk in gp.df.deps(a, i) for i in ids[:1])

    mk_tests = [a for t in conds for a in atoms(t) if reads_mk(a)]

    def is_none_test(a):
        if not (isinstance(a, ast.Compare) and len(a.ops) == 1 and isinstance(a.ops[0], (ast.Is, ast.IsNot)) and A.norm(a.comparators[0]) == "None"):
            return False
        ids = gp.nodes(a)
        return A.norm(a.left) == mk or (bool(ids) and gp.xnorm(a.left, ids[0]) == mk)

    none_tests = [a for a in mk_tests if is_none_test(a)]
    bad_t = [a for a in mk_tests if a not in none_tests]
    # with no metadata key, some returned path is built without it (the object path)
    from .effects import Assume as _As
    nokey = _As(gp, lambda e: True if (isinstance(e, ast.Compare) and len(e.ops) == 1 and isinstance(e.ops[0], ast.Is)
                                       and A.norm(e.left) == mk and A.is_none(e.comparators[0])) else None)

    def prune(e):
        class Pr(ast.NodeTransformer):
            def visit_IfExp(self, n):
                t = nokey.ev(n.test)
                if t is True:
                    return self.visit(n.body)
                if t is False:
                    return self.visit(n.orelse)
                return self.generic_visit(n)
        return Pr().visit(e)

    obj_paths = []
    for r in gp.returns():
        for i in nokey.live(r):
            if r.value is None:
                continue
            e = prune(gp.expand(r.value, i))
            free = {x.id for x in ast.walk(e) if isinstance(x, ast.Name)}
            dep = mk in free
            for nm in free:
                for d in nokey.IN().get(i, ()):
                    if d.name == nm and d.kind != "param" and d.value is not None:
                        for (leaf, n) in nokey.cases(d.value, d.node):
                            if "param:" + mk in gp.df.deps(prune(gp.expand(leaf, n)), n):
                                dep = True
            if not dep:
                obj_paths.append(r)
    ok9 = bool(obj_paths) and not bad_t and (bool(none_tests) or mk not in gp.fi.params)
    ck.ob("C07.R9", gp.key(None, "object-path-only-for-None"), ok9, "the object path is chosen by `metadata_key is None` (%d test(s))" % len(none_tests) if ok9 else
          "`%s` decides between the object path and the side-car path: the empty metadata key '' is falsy, so "
          "put_metadata('', value, store_with_data=True) opens the result object itself for writing and replaces its bytes"
          % (A.short(bad_t[0], 40) if bad_t else "nothing"), gp.where(bad_t[0]) if bad_t else gp.where())

    # the memento's content key survives the metadata codec (split at the last '#')
    from .c11 import check_versioned_key_codec
    ck.rule("C07.R8", "a memento's versioned content key is written as key#version and split at the last '#'", 2)
    ck.run(check_versioned_key_codec, ck, "C07.R8")
    # ---- R6
    mz = FA(ck, "storage_base.StorageBackendBase.memoize")
    mp = mz.fi.params[2] if len(mz.fi.params) > 3 else "memento"
    asgs = [s for s in mz.stmts(ast.Assign) if any(A.dotted(t) == mp + ".content_key" for t in s.targets)]
    if len(asgs) != 1:
        ck.ob(R6, mz.key(None, "from-store"), False, "memoize assigns memento.content_key %d times: the memento does not record where its bytes are" % len(asgs), mz.where())
        return
    asg = asgs[0]
    d6 = mz.deps(asg.value)
    ok6 = "call:store" in d6 and "attr:self.codec" in d6
    ck.ob(R6, mz.key(None, "from-store"), ok6, "content_key is what codec.store returned" if ok6 else
          "memento.content_key does not come from codec.store", mz.where(asg))
    pm_calls = mz.some(mz.calls("put_memento"), "put_memento call")
    okb = all(mz.cfg.must_pass(mz.nodes(asg), i) for i in mz.nodes_all(pm_calls))
    ck.ob(R6, mz.key(None, "before-put"), okb, "assigned before the memento is written" if okb else
          "the memento can be written before its content key is set", mz.where(asg))
    from .c08 import recv_calls
    st = mz.one(recv_calls(mz, "store", "self.codec"), "codec.store call")
    # by the callee's parameter names, so positional and keyword spellings are the same call
    cs = ck.repo.try_func("storage_base.Codec.store")
    cparams = [p_ for p_ in (cs.params if cs is not None else ["self", "result_type", "data_source", "key_override", "obj"]) if p_ != "self"]
    MP = mz.fi.params
    want = ["%s.invocation_metadata.result_type" % (MP[2] if len(MP) > 3 else "memento"), "self._data_source",
            MP[1] if len(MP) > 3 else "key_override", MP[3] if len(MP) > 3 else "result"]
    got = [A.arg_or_kw(st, i, pn) for i, pn in enumerate(cparams[:4])]
    oks = all(g is not None for g in got) and [mz.xnorm(a, mz.nodes(st)[0]) for a in got] == want
    ck.ob(R6, mz.key(None, "store-args"), oks, "store(result_type, data source, key_override, result)" if oks else
          "codec.store is not given (result_type, self._data_source, key_override, result)", mz.where(st))
