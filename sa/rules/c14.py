"""C14 — the static dependency closure is exact and calls outside it are refused (structural part)."""
from . import hashing as H


def check(ck):
    from .memo import check_new_memo_tables
    ck.run(check_new_memo_tables, ck, "C14.M1", ('memento', 'code_hash', 'dependency_graph'))
    ck.run(H.check_descent_complete, ck, "C14.R1")
    ck.run(H.check_dotted_names, ck, "C14.R1b")
    ck.run(H.check_names_resolved_where_defined, ck, "C14.R1c")
    ck.run(H.check_graph_derivation, ck, "C14.R2")
    ck.run(H.check_graph_nodes_from_own_rules, ck, "C14.R5")
    ck.run(H.check_edges_of_a_node_depend_on_its_function_only, ck, "C14.R6")
    ck.run(H.check_version_taint, ck, "C14.R3")
    ck.run(H.check_enforcement, ck, "C14.R4")
