"""C01 — memoized results are never stale with respect to code and data changes (structural part).

Decides that every way the program text can change is visible to the version and that the version
is part of every key; does not execute programs."""
from . import hashing as H
from .keys import check_keying


def check(ck):
    from .memo import check_new_memo_tables
    ck.run(check_new_memo_tables, ck, "C01.M1", ('code_hash', 'memento', 'reference', 'runner_local', 'runner', 'base'))
    ck.rule("C01.R11", "every referenced symbol is watched by a hash rule", 1)
    ck.run(H.check_every_symbol_watched, ck, "C01.R11")
    ck.run(H.check_hash_input_coverage, ck, "C01.R1")
    ck.run(H.check_rule_kinds_contribute, ck, "C01.R2")
    ck.run(H.check_variable_kinds_described, ck, "C01.R2b")
    ck.run(H.check_digest_consumes_rules, ck, "C01.R3")
    ck.run(H.check_descent_complete, ck, "C01.R4")
    ck.run(H.check_dotted_names, ck, "C01.R4b")
    ck.run(H.check_names_resolved_where_defined, ck, "C01.R4c")
    ck.run(check_keying, ck, "C01.R5")
    ck.run(H.check_enforcement, ck, "C01.R6")
    ck.run(H.check_version_taint, ck, "C01.R7")
    ck.run(H.check_did_change, ck, "C01.R8")
    ck.run(H.check_resolver_closures, ck, "C01.R9")
    ck.rule("C01.R10", "bindings: every symbol a function uses has its own watcher (rules are distinct per symbol), and which symbol "
                       "is bound to which object is visible in the digest", 4)
    ck.run(H.check_bindings, ck, "C01.R10")
    # edits delivered inside a running process reach the results only through the version updater
    ck.run(H.check_update_protocol, ck, "C01.R12")
    ck.run(H.check_recompute_from_scratch, ck, "C01.R13")
