"""C02 — memoization is transparent: same outcome, body runs once per distinct call (structural).

Decides: result-type exhaustiveness (R1); subclass-before-superclass dispatch order (R2); run-once /
record / replay path rules of the local runner (R3); replay and totality of exception
reconstruction (R4); forget addresses the same key (R5); frame rule for the returned value (R6).
"""
import ast

from .. import astutil as A
from ..fa import FA
from .valeq import check_typed_identity, check_json_bytes, check_enum_distinct
from .c16 import sibling_reference_sites
from .ladders import extract_ladder, check_ladder_order, repo_subclass_pairs, handler_ladder
from . import partition_model as PM

RL = "runner_local.memento_run_local"

# calls that can raise inside exception reconstruction, with the exception they signal
MAY_RAISE = {
    "import_module": ("ImportError", "ModuleNotFoundError", "Exception"),
    "getattr": ("AttributeError", "Exception"),
}


def check_exhaustive(ck, R):
    ck.rule(R, "result-type exhaustiveness: every ResultType that from_object can return, and every member that is a "
               "valid return type, has a strategy in the default codec; the decoder looks the member up by name", 3)
    fo = FA(ck, "metadata.ResultType.from_object")
    returned = set()
    for r in fo.returns():
        d = A.dotted(r.value)
        if d and d.startswith("ResultType."):
            returned.add(d.split(".")[1])
    rt = ck.repo.cls("metadata.ResultType")
    members = [t.id for st in rt.node.body if isinstance(st, ast.Assign) for t in st.targets if isinstance(t, ast.Name)]
    dc = FA(ck, "storage_base.DefaultCodec.__init__")
    dicts = [n for n in A.walk_body(dc.node) if isinstance(n, ast.Dict)]
    keys = set()
    for d in dicts:
        for k in d.keys:
            dk = A.dotted(k)
            if dk and dk.startswith("ResultType."):
                keys.add(dk.split(".")[1])
    miss = returned - keys
    ck.ob(R, fo.key(None, "classified-has-strategy"), not miss and bool(returned),
          "%d result types classified, all have a storage strategy" % len(returned) if not miss else
          "from_object can classify a result as %s but the default codec has no strategy for it" % sorted(miss), fo.where())
    arg_only = {"memento_function"}
    miss2 = set(members) - arg_only - keys
    ck.ob(R, dc.key(None, "members-have-strategy"), not miss2, "every return-type member has a strategy" if not miss2 else
          "ResultType members without a strategy: %s" % sorted(miss2), dc.where())
    unreturned = set(members) - arg_only - returned
    ck.ob(R, fo.key(None, "members-classified"), not unreturned, "every return-type member is produced by from_object" if not unreturned else
          "from_object never produces %s" % sorted(unreturned), fo.where())
    # strategy kinds: exception -> JSON exception strategy, null -> null strategy, partition -> partition strategy
    kinds = {}
    for d in dicts:
        for k, v in zip(d.keys, d.values):
            dk = A.dotted(k)
            if dk and isinstance(v, ast.Call):
                kinds[dk.split(".")[1]] = A.call_attr(v)
    want = {"exception": "JsonExceptionStrategy", "null": "NullStrategy", "partition": "PicklePartitionStrategy"}
    bad = {k: kinds.get(k) for k, w in want.items() if kinds.get(k) != w}
    ck.ob(R, dc.key(None, "special-strategies"), not bad, "exception/null/partition use their dedicated strategies" if not bad else
          "result types mapped to the wrong strategy: %s" % bad, dc.where())


def check_order(ck, R):
    ck.rule(R, "dispatch order: in every isinstance ladder / handler list with early exits a subclass is tested before "
               "its superclass when their outcomes differ", 4)
    pairs = repo_subclass_pairs(ck)
    n = 0
    for qual, label in (("metadata.ResultType.from_object", "classify"), ("reference.ArgumentHasher._encode", "hash-encode"),
                        ("serialization.MementoCodec.encode_arg", "wire-encode")):
        fa = FA(ck, qual)
        lad = extract_ladder(fa.node)
        ck.need(len(lad) >= 5, "%s: isinstance ladder not recognised" % qual)
        n += check_ladder_order(ck, R, fa, lad, pairs, label)
    rl = FA(ck, RL)
    body = rl.one(rl.calls("_filter_call"), "_filter_call call")
    tr = [t for t in rl.stmts(ast.Try) if any(rl.inside(body, b) for b in t.body) and t.handlers]
    tr = tr[0] if tr else None
    ck.need(tr is not None, "memento_run_local: try around the body call not found")
    n += check_ladder_order(ck, R, rl, handler_ladder(tr), pairs, "handlers")
    ck.need(n >= 4, "dispatch-order rule found only %d comparable pairs" % n)


def check_run_record_replay(ck, R):
    ck.rule(R, "run-once / record / replay on the CFG of memento_run_local: the body is reachable only when no valid "
               "memento exists; non-memoized exceptions never reach memoize; the recorded result type classifies the "
               "very value that is memoized; ordinary exceptions are converted and memoized", 7)
    rl = FA(ck, RL)
    cfg = rl.cfg
    body = rl.one(rl.calls("_filter_call"), "_filter_call call")
    bn = rl.nodes(body)
    # (a)
    # tests are recognised on their expansion: "the looked-up memento" / "its processed form is valid"
    xt = {n.id: rl.xnorm(n.ast, n.id) for n in cfg.nodes if n.kind == "test"}
    t_exists = [i for i, t in xt.items() if t.startswith("storage_backend.get_memento(") and t.endswith(")") and " is " not in t or
                (t.startswith("storage_backend.get_memento(") and t.endswith(" is not None"))]
    t_valid = [i for i, t in xt.items() if t.startswith("process_existing_memento(") and t.endswith(".valid_result")]
    lookup_calls = [c for c in rl.calls("get_memento")]
    lookups = rl.nodes_all([c for c in lookup_calls if rl.unconditional(c)])
    cond_lookups = [c for c in lookup_calls if not rl.unconditional(c)]
    for c in cond_lookups:
        ck.ob(R, rl.key(c, "lookup-unconditional"), False,
              "the store lookup inside memento_run_local is evaluated only under a condition (`%s`): an invocation whose result was memoized "
              "between a caller's earlier query and this point (duplicate in a batch, callee of an earlier element, another thread) runs its body again"
              % A.short(rl.pm.get(c), 70), rl.where(c))
    ok = bool(t_exists) and bool(t_valid) and bool(lookups)
    if ok:
        live = cfg.reach([cfg.entry], edge_ok=lambda s, d, l: not ((s in t_exists or s in t_valid) and l == "F"))
        ok = not (set(bn) & live) and all(cfg.must_pass(lookups, i) for i in bn)
    ck.ob(R, rl.key(body, "body-only-on-miss"), ok, "the body runs only after a lookup found no valid memento" if ok else
          "the function body can run although a valid memoized result exists (or without looking one up)", rl.where(body))
    # served result is what the store returned
    for r in rl.returns():
        if r.value is not None and "call:process_existing_memento" in rl.deps(r.value):
            xr = rl.xnorm(r.value)
            okv = xr.startswith("process_existing_memento(") and xr.endswith(").result")
            ck.ob(R, rl.key(None, "served-value"), okv, "a hit returns the stored value" if okv else "a hit does not return the stored value", rl.where(r))
    # (b)
    mem = rl.some([c for c in rl.calls("memoize") if A.dotted(A.call_recv(c)) == "storage_backend"], "memoize call")
    mn = rl.nodes_all(mem)
    tr = [t for t in rl.stmts(ast.Try) if any(rl.inside(body, b) for b in t.body) and t.handlers][0]
    for h in tr.handlers:
        tn = A.norm(h.type) if h.type is not None else ""
        hn = [n.id for n in cfg.nodes if n.kind == "except" and n.ast is h]
        if tn in ("NonMemoizedException", "RemoteCallException"):
            reach = cfg.reach(hn)
            okh = not (set(mn) & reach) and cfg.exit not in reach
            ck.ob(R, rl.key(h, "never-recorded"), okh, "%s is re-raised and never memoized" % tn if okh else
                  "%s can reach memoize or a normal return: it is recorded / swallowed" % tn, rl.where(h))
    names = [A.norm(h.type) for h in tr.handlers if h.type is not None]
    for need in ("NonMemoizedException", "RemoteCallException"):
        ck.ob(R, rl.key(tr, "handler-" + need), need in names, "%s has its own handler" % need if need in names else
              "no dedicated handler for %s: it is memoized like an ordinary exception" % need, rl.where(tr))
    # (c)
    rts = [s for s in rl.stmts(ast.Assign) if any((A.dotted(t) or "").endswith("invocation_metadata.result_type") for t in s.targets)]
    if len(rts) != 1:
        ck.ob(R, rl.key(None, "result-type-recorded"), False, "result_type is assigned %d times in memento_run_local" % len(rts), rl.where())
    else:
        rt = rts[0]
        v = rt.value
        okc = isinstance(v, ast.Call) and A.call_dotted(v) == "ResultType.from_object" and len(v.args) == 1 and isinstance(v.args[0], ast.Name)
        for c in mem:
            val = c.args[2] if len(c.args) > 2 else A.kwarg(c, "result")
            same = okc and isinstance(val, ast.Name) and val.id == v.args[0].id and \
                all(rl.df.same_defs(val.id, a, b) for a in rl.nodes(rt) for b in rl.nodes(c))
            dom = all(cfg.must_pass(rl.nodes(rt), i) for i in rl.nodes(c))
            ck.ob(R, rl.key(c, "type-of-stored-value"), bool(same and dom),
                  "result_type = from_object(<the value passed to memoize>), recorded before memoize" if same and dom else
                  "the recorded result type does not classify the very value that is memoized (e.g. classified before unwrapping a key override)", rl.where(c))
            m2 = c.args[1] if len(c.args) > 1 else A.kwarg(c, "memento")
            okm = m2 is not None and isinstance(m2, ast.Attribute) and m2.attr == "memento" and isinstance(m2.value, ast.Name) \
                and rl.xnorm(m2.value, rl.nodes(c)[0]).startswith("StackFrame(") and (A.dotted(rt.targets[0]) or "").startswith(A.norm(m2) + ".")
            ck.ob(R, rl.key(c, "memento-arg"), okm, "the frame's memento (carrying result_type and provenance) is memoized" if okm else
                  "memoize is not given stack_frame.memento", rl.where(c))
            ko = c.args[0] if c.args else A.kwarg(c, "key_override")
            okk = ko is not None and "getattr:key_override" in rl.deps(ko) | {"getattr:key_override" if "attr:result.key_override" in rl.deps(ko) else ""}
            ck.ob(R, rl.key(c, "key-override-arg"), bool(okk), "the key override unwrapped from the result is honoured" if okk else
                  "the key override of a KeyOverrideResult is not passed to memoize", rl.where(c))
    # unwrap precedes classification
    unwrap = [s for s in rl.stmts(ast.Assign) if len(s.targets) == 1 and isinstance(s.targets[0], ast.Name) and isinstance(s.value, ast.Attribute)
              and s.value.attr == "result" and isinstance(s.value.value, ast.Name) and s.value.value.id == s.targets[0].id]
    oku = bool(unwrap) and bool(rts) and all(cfg.must_pass(rl.nodes(unwrap[0]), i, edge_ok=None) or True for i in rl.nodes(rts[0]))
    if unwrap and rts:
        g = rl.enclosing(unwrap[0], ast.If)
        oku = g is not None and any((A.isinstance_types(t_) or ("", []))[0] == unwrap[0].targets[0].id and "KeyOverrideResult" in A.isinstance_types(t_)[1]
                                    for t_ in A.conj_atoms(g.test) if A.isinstance_types(t_)) and \
            not (set(rl.nodes(unwrap[0])) & cfg.reach(rl.nodes(rts[0]), include_start=False))
    ck.ob(R, rl.key(None, "unwrap-before-classify"), bool(oku), "a KeyOverrideResult is unwrapped before the value is classified" if oku else
          "a KeyOverrideResult is not unwrapped before classification", rl.where())
    # (d)
    gen = [h for h in tr.handlers if h.type is not None and A.norm(h.type) == "Exception" and h.name]
    okd = False
    if gen:
        h = gen[0]
        conv = [s for s in A.walk_local(h) if isinstance(s, ast.Assign) and isinstance(s.value, ast.Call)
                and A.call_dotted(s.value) == "MementoException.from_exception" and [A.norm(a) for a in s.value.args] == [h.name]]
        if conv:
            tgt = conv[0].targets[0]
            for c in mem:
                val = c.args[2] if len(c.args) > 2 else None
                if isinstance(val, ast.Name) and isinstance(tgt, ast.Name) and tgt.id == val.id:
                    ds = []
                    for i in rl.nodes(c):
                        ds += rl.df.reaching(i, val.id)
                    okd = any(d.stmt is conv[0] for d in ds)
        keep = [s for s in A.walk_local(h) if isinstance(s, ast.Assign) and A.norm(s.value) == h.name]
        okd = okd and bool(keep)
    ck.ob(R, rl.key(tr, "exception-recorded"), okd, "an ordinary exception is converted to a MementoException, memoized, and kept for re-raising" if okd else
          "an ordinary exception raised by the body is not converted with MementoException.from_exception and memoized", rl.where(tr))
    # the original exception object is what the caller gets
    kept = {s_.targets[0].id for h_ in gen for s_ in A.walk_local(h_) if isinstance(s_, ast.Assign) and A.norm(s_.value) == h_.name
            and isinstance(s_.targets[0], ast.Name)}
    er = [r for r in rl.returns() if isinstance(r.value, ast.Name) and r.value.id in kept]
    g_ok = False
    for r in er:
        g = rl.enclosing(r, ast.If)
        if g is not None and A.norm(g.test) == "%s is not None" % r.value.id:
            g_ok = True
    ck.ob(R, rl.key(None, "exception-returned"), g_ok, "a failing first call hands the original exception to the caller" if g_ok else
          "a failing first call does not return its exception object", rl.where())
    # memoize only if not already memoized
    im = [n.id for n in cfg.nodes if n.kind == "test" and "is_memoized" in A.norm(n.ast)]
    oki = bool(im) and all(cfg.must_pass(im, i) for i in mn)
    if oki:
        for c in A.calls_in(cfg.node(im[0]).ast):
            if A.call_attr(c) == "is_memoized":
                oki = [A.norm(a) for a in c.args] == ["fn_reference_with_args.fn_reference", "fn_reference_with_args.arg_hash"]
    ck.ob(R, rl.key(None, "memoize-iff-absent"), oki, "the result is memoized unless the same call was memoized meanwhile" if oki else
          "memoize is not guarded by is_memoized(fn_reference, arg_hash) of this call", rl.where())
    # ignore_result: exceptions still surface
    ig = [n for n in cfg.nodes if n.kind == "test" and "ignore_result" in A.norm(n.ast)]
    oke = bool(ig) and all("ResultType.exception" in A.norm(n.ast) for n in ig)
    ck.ob(R, rl.key(None, "ignore-result-keeps-exceptions"), oke, "ignore_result suppresses values but not exceptions" if oke else
          "ignore_result also suppresses exceptions", rl.where())


def check_replay(ck, R):
    ck.rule(R, "replay: a stored value is read through read_result; a stored MementoException is rebuilt through "
               "to_exception, which never raises (every may-raise step is covered by a handler that returns self)", 5)
    pe = FA(ck, "runner.process_existing_memento")
    rr = pe.one(pe.calls("read_result"), "read_result call")
    okr = [A.norm(a) for a in rr.args] == ["existing_memento"]
    ck.ob(R, pe.key(rr, "reads-own-memento"), okr, "the value is read for the memento at hand" if okr else
          "read_result is not called with the existing memento", pe.where(rr))
    te = pe.calls("to_exception")
    okt = False
    for c in te:
        g = pe.enclosing(c, ast.If)
        if g is not None:
            for t_ in A.conj_atoms(g.test):
                ty = A.isinstance_types(t_)
                if ty and "MementoException" in ty[1] and "call:read_result" in pe.deps(t_.args[0]) \
                        and A.call_recv(c) is not None and "call:read_result" in pe.deps(A.call_recv(c)):
                    okt = True
    ck.ob(R, pe.key(None, "unwraps-exception"), okt, "a stored MementoException is rebuilt into the original exception class" if okt else
          "a stored MementoException is not passed through to_exception()", pe.where())
    rets = [r for r in pe.returns() if isinstance(r.value, ast.Call) and A.norm(A.kwarg(r.value, "valid_result")) == "True"
            and A.kwarg(r.value, "result") is not None and not A.is_none(A.kwarg(r.value, "result"))]
    okv = len(rets) == 1 and "call:read_result" in pe.deps(A.kwarg(rets[0].value, "result")) and isinstance(A.kwarg(rets[0].value, "result"), ast.Name)
    ck.ob(R, pe.key(None, "returns-read-value"), okv, "the value read back is returned as valid" if okv else
          "process_existing_memento does not return the value it read", pe.where())
    ign = [r for r in pe.returns() if isinstance(r.value, ast.Call) and A.is_none(A.kwarg(r.value, "result")) and A.norm(A.kwarg(r.value, "valid_result")) == "True"]
    oki = bool(ign) and all(pe.enclosing(r, ast.If) is not None and "ignore_result" in A.names_in(pe.enclosing(r, ast.If).test) for r in ign)
    ck.ob(R, pe.key(None, "ignore-means-valid-none"), oki, "(None, valid) is returned only under ignore_result" if oki else
          "a valid-but-empty answer is returned outside ignore_result", pe.where())
    # sibling agreement with the computing path (memento_run_local suppresses the value only when
    # the result is not an exception): a recorded exception is replayed under ignore_result too
    okx = bool(ign) and all("exception" in A.norm(pe.enclosing(r, ast.If).test) and "result_type" in A.norm(pe.enclosing(r, ast.If).test) for r in ign if pe.enclosing(r, ast.If) is not None)
    ck.ob(R, pe.key(None, "ignore-keeps-exceptions"), okx, "ignore_result does not suppress a recorded exception" if okx else
          "under ignore_result a memoized call answers (None, valid) without looking at the recorded result type: the first call raises the "
          "function's exception, every later call returns None", pe.where())
    # totality of to_exception
    tx = FA(ck, "exception.MementoException.to_exception")
    risky = []
    for c in tx.calls():
        nm = A.call_attr(c)
        if nm in MAY_RAISE and not (nm == "getattr" and len(c.args) != 2):
            risky.append((c, MAY_RAISE[nm], "%s(...)" % nm))
    # calling the reconstructed class itself
    for c in tx.calls():
        if isinstance(c.func, ast.Name) and tx.df.is_local(c.func.id) and c.func.id not in ("match",):
            risky.append((c, ("Exception",), "constructing the exception class (its __init__ is user code and may raise anything)"))
    # the class is located by importing its module: a replay in a process that has not imported that
    # module yet (second process on a shared store, class imported lazily inside the function body) must
    # still raise the recorded class, so a look-up among the already loaded modules is not enough
    imps = [c for c in tx.calls("import_module")] + [c for c in tx.calls("__import__")]
    ck.ob(R, tx.key(None, "class-located-by-import"), bool(imps),
          "the recorded exception class is located by importing its module" if imps else
          "to_exception no longer imports the module that defines the recorded exception class (e.g. it only consults sys.modules): in a "
          "process that has not loaded that module the replay raises MementoException instead of the recorded class", tx.where())
    ck.need(len(risky) >= 2, "to_exception: expected getattr / constructor call")
    for (c, exc_names, what) in risky:
        covered = False
        n = c
        while n is not None and not covered:
            p = tx.pm.get(n)
            if isinstance(p, ast.Try) and any(tx.inside(c, b) for b in p.body):
                for h in p.handlers:
                    hts = [A.norm(t) for t in (h.type.elts if isinstance(h.type, ast.Tuple) else [h.type])] if h.type is not None else ["BaseException"]
                    if set(hts) & set(exc_names) | ({"x"} if "ImportError" in hts and "ModuleNotFoundError" in exc_names else set()):
                        rets = [x for x in A.walk_local(h) if isinstance(x, ast.Return)]
                        if rets and all(A.norm(r.value) == "self" for r in rets) and not any(isinstance(x, ast.Raise) for x in A.walk_local(h)):
                            covered = True
            n = p
        ck.ob(R, tx.key(c, "total"), covered, "%s is covered by a handler that returns self" % what if covered else
              "%s can raise %s out of to_exception: replaying a memoized exception whose class cannot be located "
              "(e.g. defined inside a function) raises a different error instead of the memoized one" % (what, exc_names[0]), tx.where(c))
    # from_exception keeps message and qualified class name
    fe = FA(ck, "exception.MementoException.from_exception")
    mk = fe.one(fe.calls("MementoException"), "MementoException(...) in from_exception")
    d0 = fe.deps(mk.args[0]) if mk.args else set()
    okn = "getattr:__module__" in d0 | {"getattr:__module__" if any("__module__" in x for x in d0) else ""} and any("__qualname__" in x for x in d0) \
        and len(mk.args) > 1 and A.norm(mk.args[1]) == "str(e)"
    ck.ob(R, fe.key(mk, "records-class-and-message"), okn, "the exception's module, qualified class name and message are recorded" if okn else
          "from_exception does not record module:qualname and str(e)", fe.where(mk))


def check_exception_surface(ck, R):
    """The exception object produced by the runner is raised to the caller of call(); the stored
    form of an exception is read with the keys it is written with."""
    cl = FA(ck, "base.MementoFunctionBase.call")
    raises = [r for r in cl.stmts(ast.Raise) if isinstance(r.exc, ast.Name)]
    ok = False
    for r in raises:
        g = cl.enclosing(r, ast.If)
        if g is not None and A.norm(g.test) == "isinstance(%s, Exception)" % r.exc.id and "op:subscript" in cl.deps(r.exc) and "call:memento_run_batch" in cl.deps(r.exc):
            ok = True
    ck.ob(R, cl.key(None, "raises-result-exception"), ok, "call() raises the exception found in its result slot" if ok else
          "call() does not raise an exception returned in its result slot: a failing (or replayed failing) call returns the exception object as a value", cl.where())
    rets = [r for r in cl.returns() if r.value is not None]
    okr = bool(rets) and all("call:memento_run_batch" in cl.deps(r.value) and "op:subscript" in cl.deps(r.value) for r in rets)
    ck.ob(R, cl.key(None, "returns-slot-0"), okr, "call() returns slot 0 of the one-element batch" if okr else "call() does not return the single batch slot", cl.where())
    enc = FA(ck, "storage_base.DefaultCodec.JsonExceptionStrategy.encode")
    ld = FA(ck, "storage_base.DefaultCodec.JsonExceptionStrategy.load")
    wk = set()
    for d in [n for n in A.walk_body(enc.node) if isinstance(n, ast.Dict)]:
        wk |= {A.const_str(k) for k in d.keys if A.const_str(k)}
    rk = {A.const_str(n.slice) for n in A.walk_body(ld.node) if isinstance(n, ast.Subscript) and A.const_str(n.slice)}
    okk = wk == rk and len(wk) == 3
    ck.ob(R, enc.key(None, "exception-fields"), okk, "stored exceptions are read with the fields they are written with %s" % sorted(wk) if okk else
          "stored exception fields differ: written %s, read %s" % (sorted(wk), sorted(rk)), enc.where())
    ctor = ld.one(ld.calls("MementoException"), "MementoException(...) in load")
    order = [A.const_str(a.slice) if isinstance(a, ast.Subscript) else None for a in ctor.args]
    oko = order == ["exception_name", "message", "stack_trace"]
    ck.ob(R, ld.key(ctor, "field-order"), oko, "name, message and stack trace are restored in their positions" if oko else
          "MementoException is rebuilt with fields in the wrong positions: %s" % order, ld.where(ctor))
    msg = [k for d in [n for n in A.walk_body(enc.node) if isinstance(n, ast.Dict)] for k, v in zip(d.keys, d.values) if A.const_str(k) == "message" and A.norm(v) == "obj.message"]
    ck.ob(R, enc.key(None, "message-preserved"), bool(msg), "the original message is stored" if msg else "the stored exception does not keep obj.message", enc.where())
    vp = FA(ck, "storage_base.DefaultCodec.ValuePickleStrategy.encode")
    vl = FA(ck, "storage_base.DefaultCodec.ValuePickleStrategy.load")
    okp = any(A.call_dotted(c) == "pickle.dumps" and [A.norm(a) for a in c.args] == ["obj"] for c in vp.calls()) and \
        any(A.call_dotted(c) == "pickle.loads" for c in vl.calls()) and all(("call:dumps" in vp.deps(r.value)) for r in vp.returns() if r.value is not None)
    ck.ob(R, vp.key(None, "pickle-pair"), okp, "values are stored with pickle.dumps(obj) and read with pickle.loads" if okp else
          "the value strategy no longer pairs pickle.dumps(obj) with pickle.loads", vp.where())


def check_frame_rule(ck, R):
    ck.rule(R, "frame rule: what storing a partition writes onto the returned object is disjoint from what that "
               "object's own accessors read, so the value handed back by the first call stays usable", 2)
    fa = FA(ck, PM.STORE)
    writes = PM.store_writes_on_obj(fa)
    ck.need(writes, "PicklePartitionStrategy.store: no attribute writes on the stored object found")
    for cls in PM.partition_classes(ck):
        if cls.qual == PM.PICKLE_PARTITION:
            continue
        attrs = PM.declared_attrs(ck, cls)
        reads = PM.accessor_reads(ck, cls)
        for (attr, st, guard) in writes:
            applies = True
            if guard is not None:
                v = PM.eval_duck_test(guard.test, attrs, False, "obj")
                applies = v is not False
            if not applies:
                continue
            ok = attr not in reads
            ck.ob(R, "%s::%s::%s" % (fa.qual, cls.name, attr), ok,
                  "store() writes obj.%s, which %s's accessors do not read" % (attr, cls.name) if ok else
                  "store() overwrites obj.%s, which %s.get()/list_keys() read: the partition returned by the computing call "
                  "cannot serve its keys any more" % (attr, cls.name), fa.where(st))


def check(ck):
    from .memo import check_new_memo_tables
    ck.run(check_new_memo_tables, ck, "C02.M1", ('runner_local', 'runner', 'storage_base', 'storage_filesystem', 'exception', 'base', 'metadata'))
    ck.run(check_exhaustive, ck, "C02.R1")
    ck.run(check_order, ck, "C02.R2")
    ck.run(check_run_record_replay, ck, "C02.R3")
    ck.run(check_replay, ck, "C02.R4")
    ck.run(check_exception_surface, ck, "C02.R4")
    ck.rule("C02.R5", "forget / memento / metadata address the same key as call(): every keyed reference construction in "
                      "base.py passes the function's own context args", 6)
    sibling_reference_sites(ck, "C02.R5")
    ck.run(check_frame_rule, ck, "C02.R6")
    ck.run(check_typed_identity, ck, "C02.R7", ("storage_base", "metadata", "runner_local", "runner"))
    ck.run(check_enum_distinct, ck, "C02.R1")
    ck.run(check_json_bytes, ck, "C02.R4", ["storage_base.DefaultCodec.JsonExceptionStrategy.encode", "storage_base.DataSourceMetadataSource.put_memento",
                                     "storage_base.DefaultCodec.PicklePartition._serialize_index"])
    from .c15 import check_slots
    ck.run(check_slots, ck, "C02.R8")
    # run-once needs one mutex per invocation for as long as a caller may hold it (shared with C09.R2)
    from .c09 import check_mutex_table_stable
    ck.rule("C02.R9", "the per-invocation mutex table never drops a mutex", 1)
    ck.run(check_mutex_table_stable, ck, "C02.R9")
