"""C02 — memoization is transparent: same outcome, body runs once per distinct call (structural).

Decides: result-type exhaustiveness (R1); subclass-before-superclass dispatch order (R2); run-once /
record / replay path rules of the local runner (R3); replay and totality of exception
reconstruction (R4); forget addresses the same key (R5); frame rule for the returned value (R6).
"""
import ast
import copy

from .. import astutil as A
from ..fa import FA, log_call
from ..loader import AnalysisError
from .valeq import check_typed_identity, check_json_bytes, check_enum_distinct
from .c16 import sibling_reference_sites
from .ladders import (extract_ladder, check_ladder_order, repo_subclass_pairs, handler_ladder, dispatch_model, _bound_value, _literal_seq,
                      table_entries, _Unsupported, subst, sequence_elements, resolve_callee, handler_type_names, comprehension_elements, fold_lookups, record_fields, Dispatch)
from . import partition_model as PM

RL = "runner_local.memento_run_local"


# ---------------------------------------------------------------------------------------------
# Path-sensitive symbolic view of one function (used by R3 / R4).
#
# The rules below decide clauses of the form "on every path on which <condition>, <place> holds
# <value>" ("a hit returns the stored value", "the value given to memoize is the one that was
# classified", "a failing call returns its exception object").  They are decided on the product of the
# statement CFG with a symbolic store: every local (and every attribute / subscript location that is
# assigned) is mapped to the *expression that was assigned to it along this path*, written over
# parameters, globals, calls and opaque tokens (caught exception, loop variable).  Names therefore do
# not matter (temporaries, result variables, aliases of `stack_frame.memento`, tuple unpacking of a
# named tuple all disappear), and neither does the shape of the control flow: a state also carries the
# branch literals it has passed (only those a rule asks to watch), tests that are decided by the store
# (`None is not None`, `ExistingMementoResult(result=None, valid_result=False).valid_result`) prune the
# infeasible branch, and a rule may cut edges ("the look-up found nothing") and ask what is still
# reachable.
# ---------------------------------------------------------------------------------------------
_PARSED = {}


def _parse(text):
    """Expression of a text produced by the symbolic store (shared: callers must not modify it)."""
    if text not in _PARSED:
        if len(_PARSED) > 20000:
            _PARSED.clear()
        _PARSED[text] = ast.parse(text, mode="eval").body
    return _PARSED[text]


def _is_pure_dotted(e):
    return A.dotted(e) is not None


def dnf(test, positive=True):
    """What taking a branch test with the given polarity implies: a disjunction (list) of conjunctions (lists)
    of literals (expr, polarity)."""
    t = test
    if isinstance(t, ast.UnaryOp) and isinstance(t.op, ast.Not):
        return dnf(t.operand, not positive)
    if isinstance(t, ast.BoolOp):
        parts = [dnf(v, positive) for v in t.values]
        if (isinstance(t.op, ast.And) and positive) or (isinstance(t.op, ast.Or) and not positive):
            out = [[]]
            for p_ in parts:
                out = [a + b for a in out for b in p_]
                if len(out) > 64:
                    return [[]]
            return out
        return [c for p_ in parts for c in p_]
    if isinstance(t, ast.Compare) and len(t.ops) == 1:
        neg = {ast.IsNot: ast.Is, ast.NotEq: ast.Eq, ast.NotIn: ast.In}
        op = t.ops[0]
        l, r = t.left, t.comparators[0]
        if type(op) in neg:
            op = neg[type(op)]()
            positive = not positive
        if isinstance(op, ast.Eq) and A.norm(r) < A.norm(l):
            l, r = r, l
        t = ast.Compare(left=l, ops=[op], comparators=[r])
    return [[(t, positive)]]


def certain(d):
    """Literals (text, polarity, expr) that hold in every disjunct of a dnf."""
    if not d:
        return []
    sets = [{(A.norm(e), p) for (e, p) in c} for c in d]
    common = set.intersection(*sets)
    out, seen = [], set()
    for (e, p) in d[0]:
        k = (A.norm(e), p)
        if k in common and k not in seen:
            seen.add(k)
            out.append((k[0], p, e))
    return out


class Sym:
    def __init__(self, fa, watch=None, cut=None, stop=None, tuples=None, returns=None, rewrite=None, truth=None, cap=40000, records=None):
        """watch(text, expr) -> bool : literals to remember along a path (also used to prune contradictions)
        cut(dnf) -> bool            : edges not to follow
        stop(literals) -> bool      : path classes not to continue
        tuples  {ctor: [fields]}     : named tuples (field projection of a constructor call is folded)
        returns {function: ctor}     : functions returning such a tuple (x[0] is read as x.<field0>)
        rewrite(expr) -> expr|None   : domain facts applied bottom-up
        truth(expr) -> bool|None     : extra decided tests"""
        self.fa = fa
        self.cfg = fa.cfg
        self.watch = watch or (lambda text, e: False)
        self.cut = cut
        self.stop = stop
        self.tuples = tuples or {}
        self.records = records or {}   # {class: ([constructor parameters], {field: expression over them})}
        self.rets = returns or {}
        self.rewrite = rewrite
        self.xtruth = truth
        self.cap = cap
        self._tok = {}
        self._produced = {}
        self.states = {}
        # module-level names bound once to a record built from constants (`_NOT_FOUND = Result(None, False)`) stand for it
        self.consts = {}
        for nm_, v_ in (getattr(fa.fi.module, "assigns", {}) or {}).items():
            if isinstance(v_, ast.Call) and A.call_attr(v_) in self.tuples and not any(isinstance(a_, ast.Starred) for a_ in v_.args) \
                    and all(isinstance(a_, ast.Constant) for a_ in list(v_.args) + [k_.value for k_ in v_.keywords]) \
                    and all(k_.arg for k_ in v_.keywords) and not fa.df.is_local(nm_):
                self.consts[nm_] = v_
        # `with contextlib.suppress(...)`: a statement of the body that can raise may also continue after the with statement,
        # with the store as it was before that statement (the graph has no such edge); the path is marked
        self.suppress = {}
        for w_ in A.all_stmts(fa.node):
            if isinstance(w_, (ast.With, ast.AsyncWith)) and any(isinstance(i_.context_expr, ast.Call) and A.call_attr(i_.context_expr) == "suppress" for i_ in w_.items):
                inside = set()
                for st_ in w_.body:
                    for x_ in [st_] + [y_ for y_ in ast.walk(st_) if isinstance(y_, ast.stmt)]:
                        inside |= set(fa.nodes(x_))
                cont = {d_ for n_ in inside for (d_, l_) in self.cfg.succ[n_] if d_ not in inside and l_ != "exc" and d_ != self.cfg.exit
                        and self.cfg.node(d_).ast is not None and not isinstance(self.cfg.node(n_).ast, (ast.Return, ast.Raise))}
                for n_ in inside:
                    self.suppress.setdefault(n_, []).append((w_, sorted(cont)))
        # module-level sentinels (`_MISS = object()`): identical to nothing but themselves
        self.sentinels = {nm_ for nm_, v_ in (getattr(fa.fi.module, "assigns", {}) or {}).items()
                          if isinstance(v_, ast.Call) and isinstance(v_.func, ast.Name) and v_.func.id == "object" and not v_.args and not v_.keywords
                          and not fa.df.is_local(nm_)}
        self._explore()

    # ---- expressions ---------------------------------------------------------------------------
    def _p(self, text):
        import copy
        return copy.deepcopy(_parse(text))

    def token(self, kind, astnode, name=""):
        k = (kind, id(astnode), name)
        if k not in self._tok:
            self._tok[k] = "_%s%d%s" % (kind, len(self._tok), ("_" + name) if name else "")
        return self._tok[k]

    def simplify(self, n):
        if isinstance(n, ast.Call) and isinstance(n.func, ast.Name) and n.func.id == "cast" and len(n.args) == 2:
            return n.args[1]
        if isinstance(n, ast.Subscript) and isinstance(n.value, (ast.Tuple, ast.List)) and isinstance(n.slice, ast.Constant) \
                and isinstance(n.slice.value, int) and -len(n.value.elts) <= n.slice.value < len(n.value.elts) \
                and not any(isinstance(x, ast.Starred) for x in n.value.elts):
            return n.value.elts[n.slice.value]  # (a, b)[0]
        if isinstance(n, ast.Attribute) and isinstance(n.value, ast.Call) and A.call_attr(n.value) in self.records \
                and not any(isinstance(a, ast.Starred) for a in n.value.args) and all(k.arg for k in n.value.keywords):
            # a field of a freshly constructed plain object is what its __init__ stored there
            params, fieldmap = self.records[A.call_attr(n.value)]
            if n.attr in fieldmap:
                bound = {}
                for i, pn in enumerate(params):
                    a_ = A.arg_or_kw(n.value, i, pn)
                    if a_ is not None:
                        bound[pn] = a_
                need_ = {x for x in A.names_in(fieldmap[n.attr]) if x in params}
                if need_ <= set(bound):
                    return subst(fieldmap[n.attr], bound)
        if isinstance(n, (ast.Attribute, ast.Subscript)) and isinstance(n.value, ast.Call):
            ctor = A.call_attr(n.value)
            if ctor in self.tuples and not any(isinstance(a, ast.Starred) for a in n.value.args):
                fields = self.tuples[ctor]
                idx = None
                if isinstance(n, ast.Attribute) and n.attr in fields:
                    idx = fields.index(n.attr)
                elif isinstance(n, ast.Subscript) and isinstance(n.slice, ast.Constant) and isinstance(n.slice.value, int) \
                        and 0 <= n.slice.value < len(fields):
                    idx = n.slice.value
                if idx is not None:
                    v = A.arg_or_kw(n.value, idx, fields[idx])
                    if v is not None:
                        return v
            if isinstance(n, ast.Subscript) and ctor in self.rets and isinstance(n.slice, ast.Constant) and isinstance(n.slice.value, int):
                fields = self.tuples.get(self.rets[ctor], [])
                if 0 <= n.slice.value < len(fields):
                    return ast.Attribute(value=n.value, attr=fields[n.slice.value], ctx=ast.Load())
        if self.rewrite is not None:
            r = self.rewrite(n)
            if r is not None:
                return r
        return n

    def sub(self, expr, env):
        """Copy of `expr` with every location replaced by what the store holds for it."""
        import copy
        bound = set()
        for x in ast.walk(expr):
            if isinstance(x, ast.comprehension):
                bound |= {n.id for n in ast.walk(x.target) if isinstance(n, ast.Name)}
            if isinstance(x, ast.Lambda):
                bound |= {a.arg for a in x.args.args + x.args.kwonlyargs + x.args.posonlyargs}
        sym = self
        if any(isinstance(x, ast.NamedExpr) for x in ast.walk(expr)):
            env = dict(env)   # `(x := e)` binds x for the rest of the expression (operands are visited left to right)

        class T(ast.NodeTransformer):
            def visit_Name(self, n):
                if isinstance(n.ctx, ast.Load) and n.id not in bound and n.id in env:
                    return sym._p(env[n.id])
                if isinstance(n.ctx, ast.Load) and n.id not in bound and n.id in sym.consts:
                    return copy.deepcopy(sym.consts[n.id])
                return n

            def visit_Attribute(self, n):
                self.generic_visit(n)
                n.ctx = ast.Load()
                k = A.norm(n)
                if k in env:
                    return sym._p(env[k])
                return sym.simplify(n)

            def visit_Subscript(self, n):
                self.generic_visit(n)
                n.ctx = ast.Load()
                k = A.norm(n)
                if k in env:
                    return sym._p(env[k])
                return sym.simplify(n)

            def visit_Call(self, n):
                self.generic_visit(n)
                return sym.simplify(n)

            def visit_NamedExpr(self, n):
                v = self.visit(n.value)  # `(x := e)` has the value of e
                if isinstance(n.target, ast.Name):
                    env[n.target.id] = sym._fit(A.norm(v), n, n.target.id)
                return v

        return T().visit(copy.deepcopy(expr))

    def text(self, expr, env):
        return A.norm(self.sub(expr, env))

    def loc(self, target, env):
        """Store key of an assignment target."""
        if isinstance(target, ast.Name):
            return target.id
        if isinstance(target, ast.Attribute):
            return A.norm(ast.Attribute(value=self.sub(target.value, env), attr=target.attr, ctx=ast.Load()))
        if isinstance(target, ast.Subscript):
            return A.norm(ast.Subscript(value=self.sub(target.value, env), slice=self.sub(target.slice, env), ctx=ast.Load()))
        return None

    def truth(self, t):
        """Three-valued truth of an (already substituted) test."""
        if isinstance(t, ast.Constant):
            return bool(t.value)
        if isinstance(t, ast.UnaryOp) and isinstance(t.op, ast.Not):
            r = self.truth(t.operand)
            return None if r is None else (not r)
        if isinstance(t, ast.BoolOp):
            rs = [self.truth(v) for v in t.values]
            if isinstance(t.op, ast.And):
                if any(r is False for r in rs):
                    return False
                return True if all(r is True for r in rs) else None
            if any(r is True for r in rs):
                return True
            return False if all(r is False for r in rs) else None
        if isinstance(t, ast.Compare) and len(t.ops) == 1:
            op, l, r = t.ops[0], t.left, t.comparators[0]
            if isinstance(op, (ast.Is, ast.IsNot, ast.Eq, ast.NotEq)):
                same = None
                if isinstance(l, ast.Constant) and isinstance(r, ast.Constant):
                    same = (l.value is r.value) if isinstance(op, (ast.Is, ast.IsNot)) else (l.value == r.value and type(l.value) is type(r.value))
                elif _is_pure_dotted(l) and _is_pure_dotted(r) and A.norm(l) == A.norm(r) and not self.fa.df.is_local(A.norm(l).split(".")[0]):
                    same = True
                elif isinstance(op, (ast.Is, ast.IsNot)) and any(isinstance(x_, ast.Name) and x_.id in self.sentinels for x_ in (l, r)):
                    # a value in which the sentinel does not occur is not the sentinel
                    for (a_, b_) in ((l, r), (r, l)):
                        if isinstance(b_, ast.Name) and b_.id in self.sentinels and b_.id not in A.names_in(a_) \
                                and not any(t_.startswith("_") and not t_.startswith("_exc") for t_ in A.names_in(a_) if t_ in self._tok.values()):
                            same = False
                elif isinstance(op, (ast.Is, ast.IsNot)):
                    # a caught exception object is not None
                    for (a_, b_) in ((l, r), (r, l)):
                        if A.is_none(b_) and isinstance(a_, ast.Name) and a_.id.startswith("_exc"):
                            same = False
                        # nor is a display (tuple, list, dict, set, f-string)
                        if A.is_none(b_) and isinstance(a_, (ast.Tuple, ast.List, ast.Dict, ast.Set, ast.JoinedStr)):
                            same = False
                        # nor is a named tuple (constructed here, or returned by a function known to return one)
                        if A.is_none(b_) and isinstance(a_, ast.Call) and (A.call_attr(a_) in self.tuples or A.call_attr(a_) in self.rets):
                            same = False
                if same is not None:
                    return same if isinstance(op, (ast.Is, ast.Eq)) else (not same)
        if self.xtruth is not None:
            return self.xtruth(t)
        return None

    # ---- exploration -----------------------------------------------------------------------------
    def _feasible(self, d, lits):
        """The disjuncts of a dnf that neither the store nor the literals already passed refute."""
        out = []
        for c in d:
            ok = True
            for (e, p) in c:
                tv = self.truth(e)
                if (tv is not None and tv != p) or (A.norm(e), not p) in lits:
                    ok = False
                    break
                # `x is None` cannot hold where the path has seen isinstance(x, ...) answer yes
                if p and isinstance(e, ast.Compare) and len(e.ops) == 1 and isinstance(e.ops[0], ast.Is) and A.is_none(e.comparators[0]):
                    subj = A.norm(e.left)
                    if any(p2 and tx.startswith("isinstance(") and (A.isinstance_types(_parse(tx)) or ("",))[0] == subj for (tx, p2) in lits):
                        ok = False
                        break
            if ok:
                out.append(c)
        return out

    def _fit(self, text, astnode, name):
        if len(text) > 700:
            return self.token("big", astnode, "".join(ch if ch.isalnum() else "_" for ch in name)[:20])
        return text

    def _bind(self, env, key, text, astnode):
        if key is None:
            return
        # rebinding a name invalidates what was recorded about locations written through it
        if key.isidentifier():
            for k in [k for k in env if k.startswith(key + ".") or k.startswith(key + "[")]:
                del env[k]
        text = self._fit(text, astnode, key)
        # a value that keeps wrapping what the same statement produced before (a loop folding into one variable) is
        # replaced by one opaque token, so that the exploration converges
        prod = self._produced.setdefault((id(astnode), key), [])
        if text not in prod:
            if len(prod) >= 3 and any(pv in text for pv in prod):
                text = self.token("big", astnode, "".join(ch if ch.isalnum() else "_" for ch in key)[:20])
            if text not in prod:
                prod.append(text)
        env[key] = text

    def _assign_target(self, env, env_in, t, vtext, astnode):
        if isinstance(t, (ast.Tuple, ast.List)):
            for i, e in enumerate(t.elts):
                if isinstance(e, ast.Starred):
                    self._assign_target(env, env_in, e.value, self.token("rest", astnode, str(i)), astnode)
                else:
                    sub = self.simplify(ast.Subscript(value=self._p(vtext), slice=ast.Constant(value=i), ctx=ast.Load()))
                    self._assign_target(env, env_in, e, A.norm(sub), astnode)
            return
        self._bind(env, self.loc(t, env_in), vtext, astnode)

    def arms(self, value, env, lits=frozenset()):
        """A value that is a conditional expression, split into its cases: [(literals, text)] (infeasible arms
        dropped); any other value is its own single case."""
        if not isinstance(value, ast.IfExp):
            return [(lits, self.text(value, env))]
        out = []
        t = self.sub(value.test, env)
        verdict = self.truth(t)
        for (pol, arm) in ((True, value.body), (False, value.orelse)):
            if verdict is not None and verdict != pol:
                continue
            dd = self._feasible(dnf(t, pol), lits)
            if not dd:
                continue
            cs = certain(dd)
            out += self.arms(arm, env, lits | {(tx, p) for (tx, p, e) in cs if self.watch(tx, e)})
        return out

    def _step(self, nd, env_in, lits):
        """[(store, literals)] after executing node `nd` normally (several when a conditional expression is assigned)."""
        a = nd.ast
        if nd.kind == "stmt" and isinstance(a, (ast.Assign, ast.AnnAssign)) and isinstance(a.value, ast.IfExp):
            out = []
            for (l2, v) in self.arms(a.value, env_in, lits):
                env = dict(env_in)
                for t in (a.targets if isinstance(a, ast.Assign) else [a.target]):
                    self._assign_target(env, env_in, t, v, a)
                out.append((env, l2))
            return out
        return [(self._step1(nd, env_in), lits)]

    def _step1(self, nd, env_in):
        a = nd.ast
        env = dict(env_in)
        if a is None:
            return env
        if nd.kind == "stmt":
            if isinstance(a, ast.Assign):
                v = self.text(a.value, env_in)
                for t in a.targets:
                    self._assign_target(env, env_in, t, v, a)
            elif isinstance(a, ast.AnnAssign) and a.value is not None:
                self._assign_target(env, env_in, a.target, self.text(a.value, env_in), a)
            elif isinstance(a, ast.AugAssign):
                k = self.loc(a.target, env_in)
                if k is not None:
                    import copy
                    load = copy.deepcopy(a.target)
                    for x in ast.walk(load):
                        if hasattr(x, "ctx"):
                            x.ctx = ast.Load()
                    v = self.text(ast.BinOp(left=load, op=a.op, right=a.value), env_in)
                    if k in env_in and env_in[k].startswith("_big"):
                        v = env_in[k]
                    self._bind(env, k, v, a)
            elif isinstance(a, ast.Delete):
                for t in a.targets:
                    k = self.loc(t, env_in)
                    if k in env:
                        del env[k]
        elif nd.kind == "for":
            for n in ast.walk(a.target):
                if isinstance(n, ast.Name):
                    self._bind(env, n.id, self.token("for", a, n.id), a)
        elif nd.kind == "with":
            for it in a.items:
                if it.optional_vars is not None:
                    for n in ast.walk(it.optional_vars):
                        if isinstance(n, ast.Name):
                            self._bind(env, n.id, self.token("with", a, n.id), a)
        elif nd.kind == "except":
            if a.name:
                self._bind(env, a.name, self.token("exc", a), a)
        # walrus
        if nd.kind in ("stmt", "test"):
            named = sorted((x for x in A.walk_local(a) if isinstance(x, ast.NamedExpr) and isinstance(x.target, ast.Name)),
                           key=lambda x: (getattr(x, "lineno", 0), getattr(x, "col_offset", 0)))
            if named:
                seen_ = dict(env_in)   # a later `:=` of the same expression sees the earlier ones
                for sub_ in named:
                    v_ = self.text(sub_.value, seen_)
                    self._bind(env, sub_.target.id, v_, a)
                    seen_[sub_.target.id] = env[sub_.target.id]
        return env

    def exc_token(self, handler):
        return self.token("exc", handler)

    def suppress_mark(self, with_stmt):
        return ("@suppress:%s" % self.token("sup", with_stmt), True)

    def suppress_continues(self, with_stmt):
        """Does the graph know where control continues after this `with suppress(...)`?"""
        return any(c_ for lst in self.suppress.values() for (w_, c_) in lst if w_ is with_stmt)

    def handler_mark(self, handler):
        return ("@except:%s" % self.token("exc", handler), True)

    def _explore(self):
        cfg = self.cfg
        start = (cfg.entry, (), frozenset())
        seen = {start}
        work = [start]
        while work:
            st = work.pop()
            n, envk, lits = st
            env_in = dict(envk)
            self.states.setdefault(n, []).append((env_in, lits))
            nd = cfg.node(n)
            if nd.kind == "except":
                lits = lits | {self.handler_mark(nd.ast)}
            if nd.kind == "for":
                # a new iteration: what was learnt about the previous element no longer holds
                tks = [self.token("for", nd.ast, x.id) for x in ast.walk(nd.ast.target) if isinstance(x, ast.Name)]
                lits = frozenset(x for x in lits if not any(tk in x[0] for tk in tks))
            env_out = None
            verdict, d_t, d_f = None, None, None
            is_test = nd.kind == "test" and not isinstance(self.fa.pm.get(nd.ast), ast.While)
            if nd.kind == "test":
                t = self.sub(nd.ast, env_in)
                verdict = self.truth(t)
                if is_test:
                    d_t, d_f = dnf(t, True), dnf(t, False)
            if n in self.suppress and nd.ast is not None and any(isinstance(x_, (ast.Call, ast.Subscript)) for x_ in A.walk_local(nd.ast)):
                for (w_, cont_) in self.suppress[n]:
                    for d_ in cont_:
                        nxt = (d_, envk, lits | {self.suppress_mark(w_)})
                        if nxt not in seen:
                            seen.add(nxt)
                            work.append(nxt)
            for (d, l) in cfg.succ[n]:
                nl = lits
                if l == "exc":
                    alts = [(env_in, lits)]
                else:
                    if env_out is None:
                        env_out = self._step(nd, env_in, lits)
                    alts = env_out
                if nd.kind == "test" and l in ("T", "F"):
                    if verdict is not None and verdict != (l == "T"):
                        continue
                    if is_test:
                        dd = self._feasible(d_t if l == "T" else d_f, lits)
                        if not dd:
                            continue
                        cs = certain(dd)
                        if any((tx, not p) in lits for (tx, p, e) in cs):
                            continue
                        if self.cut is not None and self.cut(dd):
                            continue
                        add = {(tx, p) for (tx, p, e) in cs if self.watch(tx, e)}
                        if add:
                            alts = [(e2, l2 | add) for (e2, l2) in alts]
                for (env2, nl) in alts:
                    if self.stop is not None and self.stop(nl):
                        continue
                    nxt = (d, tuple(sorted(env2.items())), nl)
                    if nxt not in seen:
                        seen.add(nxt)
                        if len(seen) > self.cap:
                            raise AnalysisError("%s: too many path classes for the symbolic store" % self.fa.qual)
                        work.append(nxt)

    # ---- queries -----------------------------------------------------------------------------------
    def at(self, astnode):
        """[(store, literals)] of the states in which the statement / expression `astnode` is evaluated."""
        out = []
        for i in self.fa.nodes(astnode):
            out += self.states.get(i, [])
        return out

    def reached(self, ids):
        return [i for i in ids if i in self.states]

    def return_states(self):
        """[(return statement, store, literals, text of the returned value)]"""
        out = []
        for r in self.fa.returns():
            for (env, lits) in self.at(r):
                if r.value is None:
                    out.append((r, env, lits, "None"))
                else:
                    out += [(r, env, l2, v) for (l2, v) in self.arms(r.value, env, lits)]
        return out


def namedtuple_fields(ck, modname, name):
    """Field names of a NamedTuple declared in `modname` (functional or class form)."""
    mod = ck.repo.module(modname)
    for st in mod.tree.body:
        if isinstance(st, ast.Assign) and any(isinstance(t, ast.Name) and t.id == name for t in st.targets) and isinstance(st.value, ast.Call) \
                and A.call_attr(st.value) in ("NamedTuple", "namedtuple") and len(st.value.args) >= 2:
            spec = st.value.args[1]
            if isinstance(spec, (ast.List, ast.Tuple)):
                out = []
                for e in spec.elts:
                    if isinstance(e, (ast.Tuple, ast.List)) and e.elts and A.const_str(e.elts[0]):
                        out.append(A.const_str(e.elts[0]))
                    elif A.const_str(e):
                        out.append(A.const_str(e))
                if out:
                    return out
            if A.const_str(spec):
                return A.const_str(spec).replace(",", " ").split()
        if isinstance(st, ast.ClassDef) and st.name == name and any("NamedTuple" in A.norm(b) for b in st.bases):
            return [s.target.id for s in st.body if isinstance(s, ast.AnnAssign) and isinstance(s.target, ast.Name)]
    raise AnalysisError("%s.%s: named tuple declaration not found" % (modname, name))


def record_types(ck, modname):
    """{name: [field names]} of the record types a module declares: NamedTuple / namedtuple (functional or class form) and
    dataclasses.  A field read of a freshly constructed record is the constructor argument, whatever the record is called."""
    mod = ck.repo.modules.get(modname)
    out = {}
    if mod is None:
        return out
    for st in mod.tree.body:
        if isinstance(st, ast.Assign) and isinstance(st.value, ast.Call) and A.call_attr(st.value) in ("NamedTuple", "namedtuple"):
            for t in st.targets:
                if isinstance(t, ast.Name):
                    try:
                        out[t.id] = namedtuple_fields(ck, modname, t.id)
                    except AnalysisError:
                        pass
        elif isinstance(st, ast.ClassDef):
            is_nt = any("NamedTuple" in A.norm(b) for b in st.bases)
            is_dc = any(A.norm(d.func if isinstance(d, ast.Call) else d).split(".")[-1] == "dataclass" for d in st.decorator_list)
            if is_nt or is_dc:
                fields = [s_.target.id for s_ in st.body if isinstance(s_, ast.AnnAssign) and isinstance(s_.target, ast.Name)]
                if fields:
                    out[st.name] = fields
    return out


def class_records(ck, modname):
    """{class: ([constructor parameters], {field: expression})} for the plain classes of a module whose __init__ stores its
    parameters (or expressions over them) in fields, once, unconditionally -- a "method object" / parameter object."""
    mod = ck.repo.modules.get(modname)
    out = {}
    if mod is None:
        return out
    for cls in mod.all_classes():
        init = cls.methods.get("__init__")
        if init is None or init.is_static or len(init.params) < 1 or cls.node.bases:
            continue
        a = init.node.args
        if a.vararg or a.kwarg:
            continue
        me, params = init.params[0], init.params[1:]
        fieldmap, dropped = {}, set()
        for st in A.all_stmts(init.node):
            tgs = st.targets if isinstance(st, ast.Assign) else [st.target] if isinstance(st, (ast.AnnAssign, ast.AugAssign)) else []
            for t in tgs:
                for x in ast.walk(t):
                    if isinstance(x, ast.Attribute) and isinstance(x.value, ast.Name) and x.value.id == me:
                        top = st in init.node.body and isinstance(st, (ast.Assign, ast.AnnAssign)) and x is t and getattr(st, "value", None) is not None
                        if not top or x.attr in fieldmap or me in A.names_in(st.value):
                            dropped.add(x.attr)
                        else:
                            fieldmap[x.attr] = st.value
        # a field that any other method assigns is not a constant of the object
        for m in cls.methods.values():
            if m is init or not m.params:
                continue
            for x in ast.walk(m.node):
                if isinstance(x, ast.Attribute) and isinstance(x.ctx, (ast.Store, ast.Del)) and isinstance(x.value, ast.Name) and x.value.id == m.params[0]:
                    dropped.add(x.attr)
        fieldmap = {f: v for f, v in fieldmap.items() if f not in dropped}
        if fieldmap:
            out[cls.name] = (params, fieldmap)
    return out


def exact_class(ck, call):
    """Class of the object a call constructs, when that is evident: `Cls(...)`, or a function of the
    repository all of whose returns are `Cls(...)`."""
    if not isinstance(call, ast.Call):
        return None
    d = A.call_dotted(call)
    if not d:
        return None
    parts = d.split(".")
    cl = ck.repo.classes_named(parts[-1])
    if len(cl) == 1:
        return cl[0]
    if len(parts) >= 2:
        for c in ck.repo.classes_named(parts[-2]):
            m = ck.repo.find_method(c, parts[-1])
            if m is not None:
                rets = [r for r in A.all_stmts(m.node) if isinstance(r, ast.Return)]
                kinds = set()
                for r in rets:
                    k = ck.repo.classes_named(A.call_attr(r.value) or "") if isinstance(r.value, ast.Call) else []
                    kinds.add(k[0] if len(k) == 1 else None)
                if len(kinds) == 1 and None not in kinds:
                    return kinds.pop()
    return None


def isinstance_truth(ck, t):
    """isinstance(<constructed object>, <repository class>) decided by the class hierarchy."""
    it = A.isinstance_types(t)
    if it is None or not isinstance(t.args[0], ast.Call):
        return None
    k = exact_class(ck, t.args[0])
    if k is None:
        return None
    res = False
    for tn in it[1]:
        cands = ck.repo.classes_named(tn.split(".")[-1])
        if len(cands) != 1:
            return None
        if ck.repo.is_subclass(k, cands[0]):
            res = True
    return res


def possible_values(fa, expr, at, _depth=0):
    """The expressions a value can stand for: a local is followed to its definitions, a loop variable over a
    literal table to the table's entries, a conditional expression to both arms."""
    if _depth > 6:
        return [expr]
    if isinstance(expr, ast.IfExp):
        return possible_values(fa, expr.body, at, _depth + 1) + possible_values(fa, expr.orelse, at, _depth + 1)
    if isinstance(expr, ast.BoolOp):
        return [v for x in expr.values for v in possible_values(fa, x, at, _depth + 1)]
    if isinstance(expr, ast.Call) and isinstance(expr.func, ast.Name) and expr.func.id == "next" and 1 <= len(expr.args) <= 2 \
            and isinstance(expr.args[0], ast.GeneratorExp):
        # the first element a filter lets through: any of them, or the default
        bs = comprehension_elements(fa, expr.args[0].generators, at, possible=True)
        if bs is not None:
            out = [v for b in bs for v in possible_values(fa, subst(expr.args[0].elt, b), at, _depth + 1)]
            if len(expr.args) == 2 and not A.is_none(expr.args[1]):
                out += possible_values(fa, expr.args[1], at, _depth + 1)
            if out:
                return out
    if isinstance(expr, ast.Call) and _depth <= 3 and isinstance(expr.func, ast.Name) and fa.df.is_local(expr.func.id):
        # a function picked from a table and then called: what any of the functions it can stand for returns
        out = []
        for fv in possible_values(fa, expr.func, at, _depth + 1):
            if isinstance(fv, ast.Name) and not fa.df.is_local(fv.id):
                out += possible_values(fa, ast.Call(func=fv, args=list(expr.args), keywords=list(expr.keywords)), at, _depth + 1)
        if out:
            return out
    if isinstance(expr, ast.Call) and _depth <= 3:
        callee, _off = resolve_callee(fa, expr)
        if callee is not None and callee.node is not fa.node:
            try:
                cfa = FA(fa.ck, callee)
                out = []
                for r in cfa.returns():
                    if r.value is not None and cfa.nodes(r) and not A.is_none(r.value):
                        out += possible_values(cfa, r.value, cfa.nodes(r)[0], _depth + 2)
                if out:
                    return out
            except AnalysisError:
                pass
    if isinstance(expr, ast.Name) and fa.df.is_local(expr.id):
        out = []
        for d in fa.df.reaching(at, expr.id):
            if d.kind == "assign" and d.value is not None:
                out += possible_values(fa, d.value, d.node, _depth + 1)
            elif d.kind == "for" and isinstance(d.stmt, (ast.For, ast.AsyncFor)):
                it = d.stmt.iter
                for _ in range(4):  # the iterable may be bound to a local, a module-level or a class-level name
                    b = _bound_value(fa, it, d.node)
                    if b is None:
                        break
                    it = b
                items = None
                if isinstance(it, (ast.Tuple, ast.List)):
                    items = list(it.elts)
                elif isinstance(it, ast.Call) and A.call_attr(it) == "items" and isinstance(A.call_recv(it), ast.Dict):
                    dd = A.call_recv(it)
                    items = [ast.Tuple(elts=[k, v], ctx=ast.Load()) for k, v in zip(dd.keys, dd.values)]
                elif isinstance(it, ast.Call) and A.call_attr(it) == "values" and isinstance(A.call_recv(it), ast.Dict):
                    items = list(A.call_recv(it).values)
                if items is None:
                    return [expr]
                tg = d.stmt.target
                if isinstance(tg, ast.Name):
                    out += items
                elif isinstance(tg, (ast.Tuple, ast.List)):
                    idx = [i for i, e in enumerate(tg.elts) if isinstance(e, ast.Name) and e.id == expr.id]
                    if not idx or not all(isinstance(x, (ast.Tuple, ast.List)) and len(x.elts) == len(tg.elts) for x in items):
                        return [expr]
                    out += [x.elts[idx[0]] for x in items]
                else:
                    return [expr]
            else:
                return [expr]
        return out or [expr]
    # a look-up in a literal table (possibly bound to a local or module-level name): any of its values
    tab, extra = None, []
    if isinstance(expr, ast.Subscript):
        tab = expr.value
    elif isinstance(expr, ast.Call) and A.call_attr(expr) == "get" and A.call_recv(expr) is not None and 1 <= len(expr.args) <= 2:
        tab, extra = A.call_recv(expr), list(expr.args[1:2])
    if tab is not None:
        ent = table_entries(fa, tab, at)
        if ent:
            return [v for (_k, v) in ent] + extra
    return [expr]


# calls that can raise inside exception reconstruction, with the exception they signal
MAY_RAISE = {
    "import_module": ("ImportError", "ModuleNotFoundError", "Exception"),
    "__import__": ("ImportError", "ModuleNotFoundError", "Exception"),
    "getattr": ("AttributeError", "Exception"),
}


def strategy_table(fa):
    """{ResultType member: strategy class name} as DefaultCodec.__init__ builds it, however the dictionary is
    spelled: literals, comprehensions, `d[k] = v` (also in a loop over a literal sequence), `d.update(...)`."""
    pairs = []
    for n in A.walk_body(fa.node):
        ids = fa.nodes(n) if isinstance(n, (ast.expr, ast.stmt)) else []
        if not ids:
            continue
        if isinstance(n, (ast.Dict, ast.DictComp)) or (isinstance(n, ast.Call) and A.call_dotted(n) in ("dict.fromkeys", "dict") and n.args):
            ent = table_entries(fa, n, ids[0])
            if ent:
                pairs += [(k, v, ids[0]) for (k, v) in ent]
        elif isinstance(n, ast.Assign) and len(n.targets) == 1 and isinstance(n.targets[0], ast.Subscript):
            pairs.append((n.targets[0].slice, n.value, ids[0]))
        if isinstance(n, ast.Call) and A.call_attr(n) == "update" and len(n.args) == 1 and not isinstance(n.args[0], (ast.Dict, ast.DictComp)):
            # d.update(<(key, value) rows>)
            rows = _literal_seq(fa, n.args[0], ids[0])
            if rows is not None and all(isinstance(r, (ast.Tuple, ast.List)) and len(r.elts) == 2 for r in rows):
                for r in rows:
                    v_ = fold_lookups(fa, r.elts[1], ids[0])
                    ast.copy_location(v_, n)
                    k_ = ast.copy_location(copy.deepcopy(r.elts[0]), n)
                    pairs.append((k_, v_, ids[0]))
    table = {}
    # in source order: a later entry for the same member replaces an earlier one
    pairs.sort(key=lambda kv_: (getattr(kv_[0], "lineno", 0) or getattr(kv_[1], "lineno", 0), getattr(kv_[0], "col_offset", 0)))
    for (k, v, at) in pairs:
        for kv in possible_values(fa, k, at):
            dk = A.dotted(kv)
            if not (dk and dk.startswith("ResultType.")):
                continue
            ve = fa.expand(v, at)
            if isinstance(ve, ast.Call) and isinstance(ve.func, ast.Call) and A.call_attr(ve.func) == "partial" and ve.func.args:
                ve = ast.Call(func=ve.func.args[0], args=list(ve.func.args[1:]) + list(ve.args), keywords=[])   # partial(C, a)() is C(a)
            table[dk.split(".")[1]] = A.call_attr(ve) if isinstance(ve, ast.Call) else None
    # entries whose key and value come from the same row of a table walked in (nested) loops: what an abstract run of the body
    # leaves in its dictionaries (later entries replace earlier ones there as they do at run time)
    if not table or any(v is None for v in table.values()):
        for (_nm, ent) in sorted(tables_built(fa).items()):
            got = {}
            for (k, v) in ent:
                dk = A.dotted(k)
                if dk and dk.startswith("ResultType.") and dk.count(".") == 1:
                    got[dk.split(".")[1]] = A.call_attr(v) if isinstance(v, ast.Call) and A.dotted(v.func) is not None else None
            for m_, v_ in got.items():
                if table.get(m_) is None:
                    table[m_] = v_
    return table


class _TableRun(Dispatch):
    """Abstract run of a function that fills dictionaries (a strategy table built in loops over literal tables, entries whose
    key and value come from the same row): a local bound to a dictionary display follows `d[k] = v`, and `getattr(x, "name")`
    is `x.name`."""

    def _bind(self, target, value, env):
        if isinstance(target, ast.Subscript) and isinstance(target.value, ast.Name) and isinstance(env.get(target.value.id), ast.Dict):
            d = env[target.value.id]
            k = self.ev(target.slice, dict(env), ("<no class>", "exact", "own"))
            env[target.value.id] = ast.Dict(keys=list(d.keys) + [k], values=list(d.values) + [value])
            return
        Dispatch._bind(self, target, value, env)

    def _call(self, e, env, w):
        if isinstance(e.func, ast.Name) and e.func.id == "getattr" and e.func.id not in env and len(e.args) == 2 and not e.keywords:
            o, nm = self.ev(e.args[0], env, w), self.ev(e.args[1], env, w)
            if A.const_str(nm) and A.const_str(nm).isidentifier():
                return ast.Attribute(value=o, attr=A.const_str(nm), ctx=ast.Load())
        if isinstance(e.func, ast.Attribute) and e.func.attr == "update" and isinstance(e.func.value, ast.Name) and isinstance(env.get(e.func.value.id), ast.Dict) \
                and len(e.args) <= 1 and all(k.arg for k in e.keywords):
            add = self.ev(e.args[0], env, w) if e.args else ast.Dict(keys=[], values=[])
            if not isinstance(add, ast.Dict) or any(k is None for k in add.keys):
                raise _Unsupported("update with something that is not a display")
            d = env[e.func.value.id]
            env[e.func.value.id] = ast.Dict(keys=list(d.keys) + list(add.keys) + [ast.Constant(value=k.arg) for k in e.keywords],
                                            values=list(d.values) + list(add.values) + [self.ev(k.value, env, w) for k in e.keywords])
            return ast.Constant(value=None)
        return Dispatch._call(self, e, env, w)


def tables_built(fa):
    """{local name: [(key, value)]} -- the dictionaries the function holds in its locals when it ends, entries in the order they
    were made, decided by running the body abstractly (loops over literal tables unrolled); {} when the body is not understood or
    its paths disagree."""
    params = [p for p in (fa.fi.params or []) if p not in ("self", "cls")] or list(fa.fi.params or [])
    if not params:
        return {}
    try:
        run = _TableRun(fa, [], subject=params[0])
        comps = run._block(fa.node.body, {}, ("<no class>", "exact", "own"))
    except (_Unsupported, AnalysisError, RecursionError):
        return {}
    ends = [env for (kind, env, _v) in comps if kind in ("fall", "return")]
    if not ends:
        return {}
    out = {}
    for nm in ends[0]:
        vs = [e.get(nm) for e in ends]
        if all(isinstance(v, ast.Dict) and all(k is not None for k in v.keys) for v in vs) and len({A.norm(v) for v in vs}) == 1 and vs[0].keys:
            out[nm] = list(zip(vs[0].keys, vs[0].values))
    return out


def check_exhaustive(ck, R):
    ck.rule(R, "result-type exhaustiveness: every ResultType that from_object can return, and every member that is a "
               "valid return type, has a strategy in the default codec; the decoder looks the member up by name", 3)
    fo = FA(ck, "metadata.ResultType.from_object")
    returned = set()
    for r in fo.returns():
        if r.value is None or not fo.nodes(r):
            continue
        # the members a return can stand for (a member named directly, or picked from a literal table)
        for v in possible_values(fo, r.value, fo.nodes(r)[0]):
            d = A.dotted(v)
            if d and d.startswith("ResultType."):
                returned.add(d.split(".")[1])
    # ... and what the classifier answers for a value of each class it names (covers dispatch written as `next(...)` over a
    # table, a look-up keyed by the value's class, ...)
    try:
        D = dispatch_model(ck, fo, repo_subclass_pairs(ck))
        if D is not None:
            worlds = [(k, kind, "actual") for k in D.named() + ["None", "<no class>"] for kind in ("exact", "sub")]
            texts = set()
            for w in worlds:
                texts |= {val for (kind, val) in D.outcome(w) if kind == "return"}
            for val in sorted(texts | D.helper_returns):
                if val.startswith("ResultType.") and val.split(".", 1)[1].isidentifier():
                    returned.add(val.split(".")[1])
                    continue
                try:   # e.g. a look-up in a literal table: any of its values
                    for v in possible_values(fo, _parse(val), None):
                        d = A.dotted(v)
                        if d and d.startswith("ResultType.") and d.count(".") == 1:
                            returned.add(d.split(".")[1])
                except (AnalysisError, SyntaxError, AttributeError, TypeError, IndexError, KeyError):
                    pass
    except _Unsupported:
        pass
    rt = ck.repo.cls("metadata.ResultType")
    members = [t.id for st in rt.node.body if isinstance(st, ast.Assign) for t in st.targets if isinstance(t, ast.Name)]
    dc = FA(ck, "storage_base.DefaultCodec.__init__")
    kinds = strategy_table(dc)
    keys = set(kinds)
    miss = returned - keys
    ck.ob(R, fo.key(None, "classified-has-strategy"), not miss and bool(returned),
          "%d result types classified, all have a storage strategy" % len(returned) if not miss else
          "from_object can classify a result as %s but the default codec has no strategy for it" % sorted(miss), fo.where())
    arg_only = {"memento_function"}
    miss2 = set(members) - arg_only - keys
    ck.ob(R, dc.key(None, "members-have-strategy"), not miss2, "every return-type member has a strategy" if not miss2 else
          "ResultType members without a strategy: %s" % sorted(miss2), dc.where())
    unreturned = set(members) - arg_only - returned
    if unreturned:
        # a member picked by a computed name (`ResultType["array_" + str(dtype)]`, `getattr(ResultType, name)`): which members can be
        # produced is then a fact about strings, not about the shape of the classifier
        computed = []
        for x in A.walk_body(fo.node):
            pick = None
            if isinstance(x, ast.Subscript) and isinstance(x.ctx, ast.Load) and A.dotted(x.value) == "ResultType":
                pick = x.slice
            elif isinstance(x, ast.Call) and isinstance(x.func, ast.Name) and x.func.id == "getattr" and len(x.args) >= 2 and A.dotted(x.args[0]) == "ResultType":
                pick = x.args[1]
            if pick is None:
                continue
            names_ = None
            try:
                vals_ = possible_values(fo, pick, (fo.nodes(x) or [None])[0])
                if vals_ and all(A.const_str(v_) is not None for v_ in vals_):
                    names_ = {A.const_str(v_) for v_ in vals_}
            except (AnalysisError, SyntaxError, AttributeError, TypeError, IndexError, KeyError):
                pass
            if names_ is None:
                computed.append(x)
            else:
                returned |= names_ & set(members)
        unreturned = set(members) - arg_only - returned
        ck.need(not (unreturned and computed), "from_object picks a ResultType member by a computed name (`%s`): the members it can produce are not evident"
                % (A.short(computed[0], 50) if computed else ""))
    ck.ob(R, fo.key(None, "members-classified"), not unreturned, "every return-type member is produced by from_object" if not unreturned else
          "from_object never produces %s" % sorted(unreturned), fo.where())
    # strategy kinds: exception -> JSON exception strategy, null -> null strategy, partition -> partition strategy
    want = {"exception": "JsonExceptionStrategy", "null": "NullStrategy", "partition": "PicklePartitionStrategy"}
    bad = {k: kinds.get(k) for k, w in want.items() if kinds.get(k) != w}
    ck.ob(R, dc.key(None, "special-strategies"), not bad, "exception/null/partition use their dedicated strategies" if not bad else
          "result types mapped to the wrong strategy: %s" % bad, dc.where())


def check_order(ck, R):
    ck.rule(R, "dispatch order: in every isinstance ladder / handler list with early exits a subclass is tested before "
               "its superclass when their outcomes differ", 4)
    pairs = repo_subclass_pairs(ck)
    n = 0
    for qual, label in (("metadata.ResultType.from_object", "classify"), ("reference.ArgumentHasher._encode", "hash-encode"),
                        ("serialization.MementoCodec.encode_arg", "wire-encode")):
        fa = FA(ck, qual)
        lad = extract_ladder(fa.node)
        D = dispatch_model(ck, fa, pairs)
        ck.need(len(lad) >= 5 or (D is not None and len(D.named()) >= 5), "%s: type dispatch not recognised" % qual)
        n += check_ladder_order(ck, R, fa, lad, pairs, label)
    rl = FA(ck, RL)
    body = rl.one(rl.calls("_filter_call"), "_filter_call call")
    tr = [t for t in rl.stmts(ast.Try) if any(rl.inside(body, b) for b in t.body) and t.handlers]
    tr = tr[0] if tr else None
    ck.need(tr is not None, "memento_run_local: try around the body call not found")
    n += check_ladder_order(ck, R, rl, handler_ladder(tr, rl.fi.module.assigns), pairs, "handlers")
    ck.need(n >= 4, "dispatch-order rule found only %d comparable pairs" % n)


def classifies_exception(ck):
    """Does ResultType.from_object answer ResultType.exception for every MementoException?  Decided on what from_object
    answers for a value whose class is MementoException or one of its subclasses (abstract run of its body, `Dispatch`),
    whatever its shape: early returns, an elif chain assigning a result variable, a first-match table, an exact-class
    look-up in front.  Every way out for such a value returns ResultType.exception."""
    memo = ck.__dict__.setdefault("_c02_classifies_exception", {})
    if "v" in memo:
        return memo["v"]
    memo["v"] = False
    fo = ck.repo.try_func("metadata.ResultType.from_object")
    if fo is None or not fo.params:
        return False
    try:
        pairs = repo_subclass_pairs(ck)
        D = dispatch_model(ck, FA(ck, fo), pairs)
        if D is None or len(D.named()) < 5:
            # from_object is written in a way the dispatch model cannot follow: that is reported by the rule that reads its
            # order (an analysis error, R2); the runner rules proceed on the reference behaviour instead of deriving
            # violations of their own from a fact nobody could establish
            memo["v"] = True
            return True
        if "MementoException" not in D.named():
            return False
        classes = ["MementoException"] + sorted({sub for (sub, sup) in pairs if sup == "MementoException"})
        want = frozenset({("return", "ResultType.exception")})
        memo["v"] = all(D.outcome((k, kind, "actual")) == want for k in classes for kind in ("exact", "sub"))
    except (AnalysisError, _Unsupported):
        memo["v"] = True    # (as above: not analysable is reported where from_object itself is checked)
    return memo["v"]


def _runner_sym(ck, fa, **kw):
    """Symbolic view with the facts the runner rules share: ExistingMementoResult is a named tuple that
    process_existing_memento returns; a constructed object's class decides isinstance tests on it; classifying a
    MementoException yields ResultType.exception (checked on from_object's first rung)."""
    tuples = dict(record_types(ck, fa.fi.module.name))
    tuples["ExistingMementoResult"] = namedtuple_fields(ck, "runner", "ExistingMementoResult")
    exc_first = classifies_exception(ck)

    def rewrite(n):
        if exc_first and isinstance(n, ast.Call) and A.call_dotted(n) == "ResultType.from_object" and len(n.args) == 1 and not n.keywords:
            k = exact_class(ck, n.args[0])
            me = ck.repo.classes_named("MementoException")
            if k is not None and len(me) == 1 and ck.repo.is_subclass(k, me[0]):
                return ast.parse("ResultType.exception", mode="eval").body
        return None

    return Sym(fa, tuples=tuples, returns={"process_existing_memento": "ExistingMementoResult"}, rewrite=rewrite,
               truth=lambda t: isinstance_truth(ck, t), records=class_records(ck, fa.fi.module.name), **kw)


def _is_call_to(e, name):
    return isinstance(e, ast.Call) and A.call_attr(e) == name


def check_run_record_replay(ck, R):
    ck.rule(R, "run-once / record / replay on the CFG of memento_run_local: the body is reachable only when no valid "
               "memento exists; non-memoized exceptions never reach memoize; the recorded result type classifies the "
               "very value that is memoized; ordinary exceptions are converted and memoized", 7)
    rl = FA(ck, RL)
    cfg = rl.cfg
    body = rl.one(rl.calls("_filter_call"), "_filter_call call")
    bn = rl.nodes(body)

    # ---- the literals the clauses speak about, recognised on what the tested expression *is* ---------------
    def single_lookup(c):
        """The reference a store look-up is made for: get_memento(ref), or the only slot of get_mementos([ref])."""
        if _is_call_to(c, "get_memento") and c.args:
            return c.args[0]
        if _is_call_to(c, "get_mementos") and len(c.args) == 1 and isinstance(c.args[0], (ast.List, ast.Tuple)) and len(c.args[0].elts) == 1:
            return c.args[0].elts[0]
        return None

    def is_lookup(e):
        if isinstance(e, ast.Subscript) and isinstance(e.slice, ast.Constant) and e.slice.value in (0, -1) and _is_call_to(e.value, "get_mementos"):
            return single_lookup(e.value) is not None
        return _is_call_to(e, "get_memento")

    def is_valid(e):
        return isinstance(e, ast.Attribute) and e.attr == "valid_result" and _is_call_to(e.value, "process_existing_memento") \
            and len(e.value.args) >= 2 and is_lookup(e.value.args[1])

    def kind(e, pol):
        """'miss' / 'found' / 'hit' for a literal about the looked-up memento."""
        if is_lookup(e):
            return "found" if pol else "miss"
        if isinstance(e, ast.Compare) and isinstance(e.ops[0], ast.Is) and is_lookup(e.left) and A.is_none(e.comparators[0]):
            return "miss" if pol else "found"
        if is_valid(e):
            return "hit" if pol else "miss"
        return None

    def ko_subject(e):
        it = A.isinstance_types(e)
        return it[0] if it and any(t.split(".")[-1] == "KeyOverrideResult" for t in it[1]) else None

    def on_caught_exception(e):
        it = A.isinstance_types(e)
        return bool(it) and it[0].startswith("_exc")

    def watch(tx, e):
        return kind(e, True) is not None or ko_subject(e) is not None or _is_call_to(e, "is_memoized") or on_caught_exception(e)

    def cut_miss(d):
        return bool(d) and all(any(kind(e, p) == "miss" for (e, p) in c) for c in d)

    # (a) with every "the look-up found nothing valid" edge removed, the body cannot be reached
    lookup_calls = [c for c in rl.calls("get_memento")] + [c for c in rl.calls("get_mementos") if is_lookup(rl.pm.get(c))]
    lookups = rl.nodes_all([c for c in lookup_calls if rl.unconditional(c)])
    cond_lookups = [c for c in lookup_calls if not rl.unconditional(c)]
    for c in cond_lookups:
        ck.ob(R, rl.key(c, "lookup-unconditional"), False,
              "the store lookup inside memento_run_local is evaluated only under a condition (`%s`): an invocation whose result was memoized "
              "between a caller's earlier query and this point (duplicate in a batch, callee of an earlier element, another thread) runs its body again"
              % A.short(rl.pm.get(c), 70), rl.where(c))
    S = _runner_sym(ck, rl, watch=watch)
    hit_seen = any(("hit" == kind(_parse(tx), p)) for sts in S.states.values() for (_e, lits) in sts for (tx, p) in lits if not tx.startswith("@"))
    ok = bool(lookups) and hit_seen
    if ok:
        Sc = _runner_sym(ck, rl, watch=watch, cut=cut_miss, stop=lambda lits: any(not tx.startswith("@") and kind(_parse(tx), p) == "miss" for (tx, p) in lits))
        ok = not Sc.reached(bn) and all(cfg.must_pass(lookups, i) for i in bn)
    ck.ob(R, rl.key(body, "body-only-on-miss"), ok, "the body runs only after a lookup found no valid memento" if ok else
          "the function body can run although a valid memoized result exists (or without looking one up)", rl.where(body))
    # served result is what the store returned: on every path that has seen a valid memento, and wherever the
    # processed memento flows into the returned value
    rets = S.return_states()
    served = []
    for (r, env, lits, v) in rets:
        is_hit = any(not tx.startswith("@") and kind(_parse(tx), p) == "hit" for (tx, p) in lits)
        if is_hit or "process_existing_memento(" in v:
            e = _parse(v)
            served.append((r, isinstance(e, ast.Attribute) and e.attr == "result" and _is_call_to(e.value, "process_existing_memento")
                           and len(e.value.args) >= 2 and is_lookup(e.value.args[1])))
    okv = bool(served) and all(x for (_r, x) in served)
    bad_r = [r for (r, x) in served if not x]
    ck.ob(R, rl.key(None, "served-value"), okv, "a hit returns the stored value" if okv else "a hit does not return the stored value",
          rl.where(bad_r[0] if bad_r else (served[0][0] if served else None)))
    # (b)
    recv = {A.norm(A.call_recv(c)) for c in lookup_calls if A.call_recv(c) is not None} or {"storage_backend"}
    mem = rl.some([c for c in rl.calls("memoize") if A.call_recv(c) is not None and rl.xnorm(A.call_recv(c)) in {rl.xnorm(A.call_recv(c2)) for c2 in lookup_calls if A.call_recv(c2) is not None} | recv],
                  "memoize call")
    mn = rl.nodes_all(mem)
    trs = [t for t in rl.stmts(ast.Try) if any(rl.inside(body, b) for b in t.body) and t.handlers]
    ck.need(trs, "memento_run_local: no try statement with handlers around the body call (is the exception policy in a context manager's __exit__?)")
    tr = trs[0]

    def caught(h):
        return handler_type_names(h, rl.fi.module.assigns)

    for h in tr.handlers:
        hn = [n.id for n in cfg.nodes if n.kind == "except" and n.ast is h]
        for tn in caught(h):
            if tn in ("NonMemoizedException", "RemoteCallException"):
                reach = cfg.reach(hn)
                okh = not (set(mn) & reach) and cfg.exit not in reach
                ck.ob(R, rl.key(h, "never-recorded"), okh, "%s is re-raised and never memoized" % tn if okh else
                      "%s can reach memoize or a normal return: it is recorded / swallowed" % tn, rl.where(h))
    # an exception that must never be recorded either has no handler here at all (it propagates), or the first handler that
    # catches it -- its own, or one written for a superclass -- lets it reach neither memoize nor a normal return: every such
    # state has seen `isinstance(<the caught exception>, <that class>)` answer no
    supers = {}
    for (sub_, sup_) in repo_subclass_pairs(ck):
        supers.setdefault(sub_, set()).add(sup_)

    def catches(h, cls_name):
        ts = [t.split(".")[-1] for t in caught(h)]
        return h.type is None or cls_name in ts or any(t in supers.get(cls_name, ()) or t == "BaseException" for t in ts)

    def ruled_out(cls_name, lits, tok):
        for (tx, p) in lits:
            if p or tx.startswith("@"):
                continue
            it = A.isinstance_types(_parse(tx))
            if it and it[0] == tok and any(t.split(".")[-1] == cls_name or t.split(".")[-1] in supers.get(cls_name, ()) for t in it[1]):
                return True
        return False

    for need in ("NonMemoizedException", "RemoteCallException"):
        first = ([h for h in tr.handlers if catches(h, need)] or [None])[0]
        okn, how, at_ = True, "%s propagates: no handler of the body call catches it" % need, tr
        if first is not None:
            mark, tok = S.handler_mark(first), S.exc_token(first)
            leaks = [c for c in mem for (env, lits) in S.at(c) if mark in lits and not ruled_out(need, lits, tok)]
            leaks += [r for (r, env, lits, v) in rets if mark in lits and not ruled_out(need, lits, tok)]
            okn = not leaks
            at_ = leaks[0] if leaks else first
            own = need in [t.split(".")[-1] for t in caught(first)]
            how = ("%s has its own handler" % need) if own else ("%s is sorted out of the handler for %s before anything is recorded" % (need, "/".join(caught(first)) or "everything"))
        ck.ob(R, rl.key(tr, "handler-" + need), okn, how if okn else
              "no dedicated handler for %s: it is memoized like an ordinary exception" % need, rl.where(at_ if not okn else tr))
    # (c) in every state in which memoize is called: what the store holds for <memento>.invocation_metadata.result_type
    # is from_object(<the value being memoized>), and <memento> is the frame's memento
    any_ko = False
    ok_ko = True
    for c in mem:
        a_key, a_mem, a_val = A.arg_or_kw(c, 0, "key_override"), A.arg_or_kw(c, 1, "memento"), A.arg_or_kw(c, 2, "result")
        sts = S.at(c)
        ck.need(a_mem is not None and a_val is not None and sts, "memento_run_local: memoize(key_override, memento, result) call not understood")
        same, okm, recorded = True, True, True
        for (env, lits) in sts:
            m_txt, v_txt = S.text(a_mem, env), S.text(a_val, env)
            rt = env.get(m_txt + ".invocation_metadata.result_type")
            if rt is None:
                recorded = False
            want = A.norm(S.simplify(_parse("ResultType.from_object(%s)" % v_txt)))
            same = same and rt is not None and rt == want
            me = _parse(m_txt)
            okm = okm and isinstance(me, ast.Attribute) and me.attr == "memento" and _is_call_to(me.value, "StackFrame") and rt is not None
            for (tx, p) in lits:
                subj = None if tx.startswith("@") else ko_subject(_parse(tx))
                if subj is not None and p:
                    any_ko = True
                    k_txt = S.text(a_key, env) if a_key is not None else ""
                    if not (v_txt == A.norm(_parse("(%s).result" % subj)) and k_txt == A.norm(_parse("(%s).key_override" % subj)) and rt == want):
                        ok_ko = False
        if not recorded:
            ck.ob(R, rl.key(None, "result-type-recorded"), False, "memoize can be reached without result_type having been recorded on the memento it is given", rl.where(c))
        ck.ob(R, rl.key(c, "type-of-stored-value"), bool(same),
              "result_type = from_object(<the value passed to memoize>), recorded before memoize" if same else
              "the recorded result type does not classify the very value that is memoized (e.g. classified before unwrapping a key override)", rl.where(c))
        ck.ob(R, rl.key(c, "memento-arg"), bool(okm), "the frame's memento (carrying result_type and provenance) is memoized" if okm else
              "memoize is not given stack_frame.memento", rl.where(c))
        ko = a_key
        okk = ko is not None and "getattr:key_override" in rl.deps(ko) | {"getattr:key_override" if "attr:result.key_override" in rl.deps(ko) else ""}
        ck.ob(R, rl.key(c, "key-override-arg"), bool(okk), "the key override unwrapped from the result is honoured" if okk else
              "the key override of a KeyOverrideResult is not passed to memoize", rl.where(c))
    # unwrap precedes classification: whenever the computed value was seen to be a KeyOverrideResult, its .result is
    # what is classified and memoized, under its .key_override
    oku = any_ko and ok_ko
    ck.ob(R, rl.key(None, "unwrap-before-classify"), bool(oku), "a KeyOverrideResult is unwrapped before the value is classified" if oku else
          "a KeyOverrideResult is not unwrapped before classification", rl.where())
    # (d) on the paths through the handler of ordinary exceptions
    gen = [h for h in tr.handlers if caught(h) == ["Exception"]]
    okd = False
    exc_rets = []
    if gen:
        h = gen[0]
        mark, tok = S.handler_mark(h), S.exc_token(h)
        vals = []
        for c in mem:
            a_val = A.arg_or_kw(c, 2, "result")
            for (env, lits) in S.at(c):
                if mark in lits and not any(p and not tx.startswith("@") and ko_subject(_parse(tx)) for (tx, p) in lits):
                    vals.append(S.text(a_val, env))
        exc_rets = [(r, v) for (r, env, lits, v) in rets if mark in lits]
        okd = bool(vals) and all(v == "MementoException.from_exception(%s)" % tok for v in vals) and any(v == tok for (_r, v) in exc_rets)
    ck.ob(R, rl.key(tr, "exception-recorded"), okd, "an ordinary exception is converted to a MementoException, memoized, and kept for re-raising" if okd else
          "an ordinary exception raised by the body is not converted with MementoException.from_exception and memoized", rl.where(tr))
    # the original exception object is what the caller gets
    g_ok = bool(gen) and any(v == tok for (_r, v) in exc_rets) and all(v in (tok, "None") for (_r, v) in exc_rets)
    ck.ob(R, rl.key(None, "exception-returned"), g_ok, "a failing first call hands the original exception to the caller" if g_ok else
          "a failing first call does not return its exception object", rl.where())
    # memoize only if not already memoized: every state calling memoize has seen is_memoized(<this call>) answer no
    look_arg = None
    for c in lookup_calls:
        for (env, _lits) in (S.at(c) if single_lookup(c) is not None else []):
            a0 = _parse(S.text(single_lookup(c), env))
            if _is_call_to(a0, "fn_reference_with_arg_hash") and A.call_recv(a0) is not None:
                look_arg = A.norm(A.call_recv(a0))
    oki = look_arg is not None
    for c in mem:
        for (env, lits) in S.at(c):
            seen_no = False
            for (tx, p) in lits:
                e = None if tx.startswith("@") else _parse(tx)
                if e is not None and _is_call_to(e, "is_memoized") and not p and A.call_recv(e) is not None and A.call_recv(c) is not None \
                        and A.norm(A.call_recv(e)) == S.text(A.call_recv(c), env):
                    if [A.norm(x) for x in e.args] == ["%s.fn_reference" % look_arg, "%s.arg_hash" % look_arg] and not e.keywords:
                        seen_no = True
            oki = oki and seen_no
    ck.ob(R, rl.key(None, "memoize-iff-absent"), oki, "the result is memoized unless the same call was memoized meanwhile" if oki else
          "memoize is not guarded by is_memoized(fn_reference, arg_hash) of this call", rl.where())
    # ignore_result: exceptions still surface
    oke = bool(exc_rets) and all(v != "None" for (_r, v) in exc_rets)
    ck.ob(R, rl.key(None, "ignore-result-keeps-exceptions"), oke, "ignore_result suppresses values but not exceptions" if oke else
          "ignore_result also suppresses exceptions", rl.where())


def check_replay(ck, R):
    ck.rule(R, "replay: a stored value is read through read_result; a stored MementoException is rebuilt through "
               "to_exception, which never raises (every may-raise step is covered by a handler that returns self)", 5)
    pe = FA(ck, "runner.process_existing_memento")
    rr = pe.one(pe.calls("read_result"), "read_result call")
    pe_params = pe.fi.params
    rr_arg = A.arg_or_kw(rr, 0, "memento")
    okr = rr_arg is not None and len(pe_params) >= 2 and pe.xnorm(rr_arg) == pe_params[1] and len(rr.args) + len(rr.keywords) == 1
    ck.ob(R, pe.key(rr, "reads-own-memento"), okr, "the value is read for the memento at hand" if okr else
          "read_result is not called with the existing memento", pe.where(rr))
    # what the function returns, per path class: ExistingMementoResult(result=<r>, valid_result=<v>) over the symbolic store
    fields = namedtuple_fields(ck, "runner", "ExistingMementoResult")

    ck.need(len(pe_params) >= 3, "process_existing_memento(storage_backend, existing_memento, ignore_result): parameters not found")
    p_memento, p_ignore = pe_params[1], pe_params[2]

    def watch(tx, e):
        it = A.isinstance_types(e)
        return p_ignore in A.names_in(e) or "result_type" in A.attrs_in(e) or bool(it and "MementoException" in [t.split(".")[-1] for t in it[1]])

    S = _runner_sym(ck, pe, watch=watch)
    read = {S.text(rr, env) for (env, _l) in S.at(rr)}
    ck.need(len(read) == 1, "process_existing_memento: read_result call not understood")
    read = read.pop()
    outs = []  # (return stmt, literals, result text, valid text)
    for (r, env, lits, v) in S.return_states():
        e = _parse(v)
        if isinstance(e, ast.Call) and A.call_attr(e) == "ExistingMementoResult" and not any(isinstance(x, ast.Starred) for x in e.args):
            fr, fv = A.arg_or_kw(e, 0, fields[0]), A.arg_or_kw(e, 1, fields[1])
            # (`valid_result=not tripped` with the flag known on the path: the constant it stands for)
            if isinstance(fv, ast.UnaryOp) and isinstance(fv.op, ast.Not) and isinstance(fv.operand, ast.Constant) and isinstance(fv.operand.value, bool):
                fv = ast.Constant(value=not fv.operand.value)
            outs.append((r, lits, A.norm(fr) if fr is not None else None, A.norm(fv) if fv is not None else None))
        else:
            outs.append((r, lits, None, None))
    ck.need(outs, "process_existing_memento: no return reached")
    ck.need(all(o[3] in ("True", "False") for o in outs if o[3] is not None),
            "process_existing_memento: whether an answer is valid is not evident on every path (`%s`)"
            % next((o[3] for o in outs if o[3] not in ("True", "False", None)), ""))
    def exc_test(lits, pol):
        """Has the path seen `isinstance(<the value read>, MementoException)` answer `pol`?"""
        for (tx, p) in lits:
            if p != pol or tx.startswith("@"):
                continue
            it = A.isinstance_types(_parse(tx))
            if it and it[0] == read and [t.split(".")[-1] for t in it[1]] == ["MementoException"]:
                return True
        return False

    unwrapped = A.norm(_parse("(%s).to_exception()" % read))
    valid = [o for o in outs if o[3] != "False"]  # every answer that is not "recompute"
    on_exc = [o for o in valid if exc_test(o[1], True)]
    okt = bool(on_exc) and all(o[2] == unwrapped and o[3] == "True" for o in on_exc)
    ck.ob(R, pe.key(None, "unwraps-exception"), okt, "a stored MementoException is rebuilt into the original exception class" if okt else
          "a stored MementoException is not passed through to_exception()", pe.where())
    with_value = [o for o in valid if o[2] != "None"]
    okv = bool(with_value) and all(o[3] == "True" and o[2] in (read, unwrapped) for o in with_value) and any(o[2] == read for o in with_value) \
        and all(o[2] == read for o in with_value if exc_test(o[1], False))
    ck.ob(R, pe.key(None, "returns-read-value"), okv, "the value read back is returned as valid" if okv else
          "process_existing_memento does not return the value it read", pe.where())
    ign = [o for o in valid if o[2] == "None"]
    oki = bool(ign) and all((p_ignore, True) in o[1] for o in ign)
    ck.ob(R, pe.key(None, "ignore-means-valid-none"), oki, "(None, valid) is returned only under ignore_result" if oki else
          "a valid-but-empty answer is returned outside ignore_result", pe.where())
    # sibling agreement with the computing path (memento_run_local suppresses the value only when
    # the result is not an exception): a recorded exception is replayed under ignore_result too
    def not_exception(lits):
        for (tx, p) in lits:
            e = None if tx.startswith("@") else _parse(tx)
            if isinstance(e, ast.Compare) and isinstance(e.ops[0], (ast.Eq, ast.Is)) and not p:  # enum members: == and `is` agree
                sides = [A.norm(e.left), A.norm(e.comparators[0])]
                if "ResultType.exception" in sides and any(x == p_memento + ".invocation_metadata.result_type" for x in sides):
                    return True
        return False

    okx = bool(ign) and all(not_exception(o[1]) for o in ign)
    ck.ob(R, pe.key(None, "ignore-keeps-exceptions"), okx, "ignore_result does not suppress a recorded exception" if okx else
          "under ignore_result a memoized call answers (None, valid) without looking at the recorded result type: the first call raises the "
          "function's exception, every later call returns None", pe.where())
    # totality of to_exception
    tx = FA(ck, "exception.MementoException.to_exception")
    risky = []
    for c in tx.calls():
        nm = A.call_attr(c)
        if nm in MAY_RAISE and not (nm == "getattr" and len(c.args) != 2):
            risky.append((c, MAY_RAISE[nm], "%s(...)" % nm))
    for c in tx.calls():
        if isinstance(c.func, ast.Call) and A.call_attr(c.func) == "attrgetter":
            risky.append((c, MAY_RAISE["getattr"], "attrgetter(...)(...)"))
        elif A.call_attr(c) == "reduce" and c.args and isinstance(c.args[0], ast.Name) and c.args[0].id == "getattr":
            risky.append((c, MAY_RAISE["getattr"], "reduce(getattr, ...)"))
    # calling the reconstructed class itself
    for c in tx.calls():
        if isinstance(c.func, ast.Name) and tx.df.is_local(c.func.id) and c.func.id not in ("match",):
            risky.append((c, ("Exception",), "constructing the exception class (its __init__ is user code and may raise anything)"))
    # the class is located by importing its module: a replay in a process that has not imported that
    # module yet (second process on a shared store, class imported lazily inside the function body) must
    # still raise the recorded class, so a look-up among the already loaded modules is not enough
    imps = [c for c in tx.calls("import_module")] + [c for c in tx.calls("__import__")]
    ck.ob(R, tx.key(None, "class-located-by-import"), bool(imps),
          "the recorded exception class is located by importing its module" if imps else
          "to_exception no longer imports the module that defines the recorded exception class (e.g. it only consults sys.modules): in a "
          "process that has not loaded that module the replay raises MementoException instead of the recorded class", tx.where())
    ck.need(len(risky) >= 2, "to_exception: expected getattr / constructor call")
    TS = Sym(tx)
    falls_off = {s_ for (s_, l_) in tx.cfg.pred[tx.cfg.exit] if not isinstance(tx.cfg.node(s_).ast, ast.Return)}
    mod_consts = tx.fi.module.assigns

    def handler_types(h):
        return handler_type_names(h, mod_consts) or ["BaseException"]

    def returns_self(h):
        """Once in the handler, the function can only end by returning self: no raise inside the handler, no falling
        off the end, and every return reached on a path through the handler yields `self` in the symbolic store."""
        hn = [n_.id for n_ in tx.cfg.nodes if n_.kind == "except" and n_.ast is h]
        if not hn:
            return False
        after = tx.cfg.reach(hn)
        if any(isinstance(x, ast.Raise) and set(tx.nodes(x)) & after for x in A.walk_local(h)) or falls_off & after:
            return False
        mark = TS.handler_mark(h)
        vals = [v for (_r, _env, lits, v) in TS.return_states() if mark in lits]
        return bool(vals) and all(v == "self" for v in vals)

    def suppressed_types(w):
        out = []
        for it_ in w.items:
            c_ = it_.context_expr
            if isinstance(c_, ast.Call) and A.call_attr(c_) == "suppress" and not c_.keywords:
                for a_ in c_.args:
                    a_ = mod_consts.get(a_.id, a_) if isinstance(a_, ast.Name) else a_
                    out += [A.norm(x) for x in (a_.elts if isinstance(a_, ast.Tuple) else [a_])]
        return out

    def returns_self_after(stmt):
        """Whatever runs after `stmt` (where control continues when an exception raised inside it is suppressed) can
        only end by returning self."""
        cur = stmt
        nxt = None
        while nxt is None:
            par = tx.pm.get(cur)
            if par is None or isinstance(par, (ast.For, ast.AsyncFor, ast.While)):
                return False
            for fld in ("body", "orelse", "finalbody"):
                blk = getattr(par, fld, None)
                if isinstance(blk, list) and cur in blk:
                    rest = blk[blk.index(cur) + 1:]
                    if rest:
                        nxt = rest[0]
                    elif isinstance(par, ast.Try) and fld == "body" and (par.orelse or par.finalbody):
                        nxt = (par.orelse or par.finalbody)[0]
                    break
            else:
                if isinstance(par, ast.ExceptHandler):
                    pass
                else:
                    return False
            if nxt is None:
                if isinstance(par, (ast.FunctionDef, ast.AsyncFunctionDef)):
                    return False  # falls off the end: returns None
                cur = par
        ids = tx.nodes(nxt)
        if not ids:
            # the graph does not know that control continues here (everything inside the with statement returns):
            # decided on the statements themselves -- nothing but logging, then `return self`
            par = tx.pm.get(nxt)
            for fld in ("body", "orelse", "finalbody"):
                blk = getattr(par, fld, None)
                if isinstance(blk, list) and nxt in blk:
                    for st in blk[blk.index(nxt):]:
                        if isinstance(st, ast.Expr) and isinstance(st.value, ast.Call) and log_call(st.value):
                            continue
                        return isinstance(st, ast.Return) and isinstance(st.value, ast.Name) and st.value.id == (tx.fi.params or ["self"])[0]
            return False
        after = tx.cfg.reach(ids) | set(ids)
        if any(isinstance(x, ast.Raise) and set(tx.nodes(x)) & after for x in A.walk_body(tx.node)) or falls_off & after:
            return False
        vals = [v for (r, _env, _lits, v) in TS.return_states() if set(tx.nodes(r)) & after]
        return bool(vals) and all(v == "self" for v in vals)

    for (c, exc_names, what) in risky:
        covered = False
        n = c
        while n is not None and not covered:
            p = tx.pm.get(n)
            if isinstance(p, (ast.With, ast.AsyncWith)) and any(tx.inside(c, b) for b in p.body):
                sts_ = suppressed_types(p)
                if (set(sts_) & (set(exc_names) | {"BaseException"})) or ("ImportError" in sts_ and "ModuleNotFoundError" in exc_names):
                    if TS.suppress_continues(p):
                        # every way the function can end after the failure was suppressed returns self
                        mk = TS.suppress_mark(p)
                        vals = [v for (_r, _env, lits, v) in TS.return_states() if mk in lits]
                        leaks = any(mk in lits for x in A.walk_body(tx.node) if isinstance(x, ast.Raise) for (_e, lits) in TS.at(x)) or \
                            any(mk in lits for s_ in falls_off for (_e, lits) in TS.states.get(s_, []))
                        covered = bool(vals) and all(v == "self" for v in vals) and not leaks
                    elif returns_self_after(p):
                        covered = True
                    break
            if isinstance(p, ast.Try) and any(tx.inside(c, b) for b in p.body):
                for h in p.handlers:
                    hts = handler_types(h)
                    if (set(hts) & (set(exc_names) | {"BaseException"})) or ("ImportError" in hts and "ModuleNotFoundError" in exc_names):
                        if returns_self(h):
                            covered = True
                        break  # the first matching handler is the one that runs
            n = p
        ck.ob(R, tx.key(c, "total"), covered, "%s is covered by a handler that returns self" % what if covered else
              "%s can raise %s out of to_exception: replaying a memoized exception whose class cannot be located "
              "(e.g. defined inside a function) raises a different error instead of the memoized one" % (what, exc_names[0]), tx.where(c))
    # from_exception keeps message and qualified class name
    fe = FA(ck, "exception.MementoException.from_exception")
    mk = fe.one(fe.calls("MementoException"), "MementoException(...) in from_exception")
    a_name, a_msg = A.arg_or_kw(mk, 0, "exception_name"), A.arg_or_kw(mk, 1, "message")
    exc_param = (fe.fi.params or ["e"])[0]
    d0 = fe.deps(a_name) if a_name is not None else set()
    okn = "getattr:__module__" in d0 | {"getattr:__module__" if any("__module__" in x for x in d0) else ""} and any("__qualname__" in x for x in d0)
    # the message is str(<the exception>) in any spelling (str(), f-string, format)
    msg_parts = A.str_parts(fe.expand(a_msg)) if a_msg is not None else None
    okn = okn and msg_parts is not None and len(msg_parts) == 1 and msg_parts[0][0] == "expr" and A.norm(msg_parts[0][1]) == exc_param
    ck.ob(R, fe.key(mk, "records-class-and-message"), okn, "the exception's module, qualified class name and message are recorded" if okn else
          "from_exception does not record module:qualname and str(e)", fe.where(mk))


def check_exception_surface(ck, R):
    """The exception object produced by the runner is raised to the caller of call(); the stored
    form of an exception is read with the keys it is written with."""
    cl = FA(ck, "base.MementoFunctionBase.call")
    # Decided on the path classes of call() over the symbolic store: the single slot of the one-element batch is
    # `memento_run_batch(...)[0]` however it is taken out (subscript, unpacking `(r,) = results`, temporaries, a helper);
    # every value call() returns is that slot on a path that has seen `isinstance(<slot>, Exception)` answer no, and
    # the slot is raised where the test answered yes.
    def is_slot(e):
        return isinstance(e, ast.Subscript) and A.norm(e.slice) in ("0", "-1") and _is_call_to(e.value, "memento_run_batch")

    def exc_test_on(e, slot_text):
        it = A.isinstance_types(e)
        return bool(it) and it[0] == slot_text and any(t.split(".")[-1] in ("Exception", "BaseException") for t in it[1])

    def watch_exc(tx, e):
        it = A.isinstance_types(e)
        return bool(it) and "memento_run_batch(" in it[0]

    S = Sym(cl, watch=watch_exc)
    rstates = S.return_states()
    okr = bool(rstates) and all(is_slot(_parse(v)) for (_r, _env, _lits, v) in rstates)
    falls = [s_ for (s_, l_) in cl.cfg.pred[cl.cfg.exit] if not isinstance(cl.cfg.node(s_).ast, ast.Return) and s_ in S.states]
    sorted_out = okr and not falls and all(any((not p) and not tx.startswith("@") and exc_test_on(_parse(tx), v) for (tx, p) in lits)
                                           for (_r, _env, lits, v) in rstates)
    raised = False
    for r in cl.stmts(ast.Raise):
        if r.exc is None:
            continue
        for (env, lits) in S.at(r):
            x = S.text(r.exc, env)
            if is_slot(_parse(x)) and any(p and not tx.startswith("@") and exc_test_on(_parse(tx), x) for (tx, p) in lits):
                raised = True
    ok = sorted_out and raised
    ck.ob(R, cl.key(None, "raises-result-exception"), ok, "call() raises the exception found in its result slot" if ok else
          "call() does not raise an exception returned in its result slot: a failing (or replayed failing) call returns the exception object as a value", cl.where())
    ck.ob(R, cl.key(None, "returns-slot-0"), okr, "call() returns slot 0 of the one-element batch" if okr else "call() does not return the single batch slot", cl.where())
    enc = FA(ck, "storage_base.DefaultCodec.JsonExceptionStrategy.encode")
    ld = FA(ck, "storage_base.DefaultCodec.JsonExceptionStrategy.load")
    # what is written: the entries of the mapping given to json.dumps, however it is put together (display, dict(k=v),
    # comprehension over a literal tuple of field names, filled key by key)
    written = None
    for c in enc.calls("dumps") + enc.calls("dump"):
        if c.args and enc.nodes(c):
            written = mapping_built(enc, c.args[0], enc.nodes(c)[0])
            break
    ck.need(written is not None, "JsonExceptionStrategy.encode: the document given to json.dumps is not understood")
    wmap = {}
    for (k, v, at) in written:
        if A.const_str(k):
            wmap[A.const_str(k)] = (v, at)
    wk = set(wmap)
    # what is read, and into which constructor parameter: every argument of MementoException(...) in load, followed through
    # temporaries, unpacking, *sequence and **mapping arguments built over a literal tuple of field names
    ctor = ld.one(ld.calls("MementoException"), "MementoException(...) in load")
    at_c = ld.one(ld.nodes(ctor)[:1], "reachable MementoException(...) in load")
    want_order = ["exception_name", "message", "stack_trace"]
    fed = ctor_arguments(ld, ctor, at_c, want_order)
    ck.need(fed is not None, "JsonExceptionStrategy.load: arguments of MementoException(...) not understood")
    order, rk = [], set()
    for nm in want_order:
        key = None
        if nm in fed:
            (a, at) = follow_value(ld, fed[nm][0], fed[nm][1])
            if isinstance(a, ast.Subscript):
                (sl, _at) = follow_value(ld, a.slice, at)
                key = A.const_str(sl)
        order.append(key)
        if key:
            rk.add(key)
    # other keyed reads of the loaded document
    rk |= {A.const_str(n.slice) for n in A.walk_body(ld.node) if isinstance(n, ast.Subscript) and A.const_str(n.slice)}
    rk |= {A.const_str(c.args[0]) for c in ld.calls("get") if c.args and A.const_str(c.args[0])}
    okk = wk == rk and len(wk) == 3
    ck.ob(R, enc.key(None, "exception-fields"), okk, "stored exceptions are read with the fields they are written with %s" % sorted(wk) if okk else
          "stored exception fields differ: written %s, read %s" % (sorted(wk), sorted(rk)), enc.where())
    oko = order == want_order
    ck.ob(R, ld.key(ctor, "field-order"), oko, "name, message and stack trace are restored in their positions" if oko else
          "MementoException is rebuilt with fields in the wrong positions: %s" % order, ld.where(ctor))
    enc_obj = (enc.fi.params + ["obj", "obj"])[1]
    msg = False
    if "message" in wmap:
        (mv, mat) = follow_value(enc, wmap["message"][0], wmap["message"][1])
        msg = A.norm(subst(mv, {})) == enc_obj + ".message"
    ck.ob(R, enc.key(None, "message-preserved"), bool(msg), "the original message is stored" if msg else "the stored exception does not keep obj.message", enc.where())
    # values: written by pickling exactly the object, read by unpickling
    vp = FA(ck, "storage_base.DefaultCodec.ValuePickleStrategy.encode")
    vl = FA(ck, "storage_base.DefaultCodec.ValuePickleStrategy.load")
    vp_obj = (vp.fi.params + ["obj", "obj"])[1]
    def through_alias(fa_, c):
        """Dotted name of the callee, looking through a class- or module-level alias (`_dumps = staticmethod(partial(pickle.dumps,
        protocol=5))` called as self._dumps(x))."""
        d_ = A.call_dotted(c) or ""
        f_ = c.func
        for _ in range(3):
            v_ = _bound_value(fa_, f_, None) if (isinstance(f_, ast.Attribute) or (isinstance(f_, ast.Name) and not fa_.df.is_local(f_.id))) else None
            if v_ is None:
                break
            while isinstance(v_, ast.Call) and A.call_attr(v_) in ("staticmethod", "classmethod", "partial") and v_.args:
                v_ = v_.args[0]
            if A.dotted(v_) is None:
                break
            d_, f_ = A.dotted(v_), v_
        return d_

    pickled, sinks = [], set()
    for c in vp.calls():
        d = through_alias(vp, c)
        recv = A.call_recv(c)
        if d in ("pickle.dumps", "dumps") and c.args:
            pickled.append((c, c.args[0], None))
        elif d in ("pickle.dump", "dump") and len(c.args) >= 2:
            pickled.append((c, c.args[0], c.args[1]))
        elif A.call_attr(c) == "dump" and isinstance(recv, (ast.Call, ast.Name)) and c.args and vp.nodes(c):
            pk = vp.expand(recv) if isinstance(recv, ast.Name) else recv
            if isinstance(pk, ast.Call) and A.call_attr(pk) in ("Pickler", "_Pickler") and pk.args:
                pickled.append((c, c.args[0], pk.args[0]))
    okp = bool(pickled) and all(vp.nodes(c) and vp.xnorm(a) == vp_obj for (c, a, _s) in pickled)
    rets_p = [r for r in vp.returns() if r.value is not None and vp.nodes(r)]
    for r in rets_p:
        deps = vp.deps(r.value)
        via_value = "call:dumps" in deps or any(sk is None and ("call:%s" % A.call_attr(c)) in deps for (c, _a, sk) in pickled)
        via_sink = any(sk is not None and vp.nodes(c) and (set(vp.deps(sk, vp.nodes(c)[0])) & deps) - {"param:self"} for (c, _a, sk) in pickled)
        okp = okp and (via_value or via_sink)
    okp = okp and bool(rets_p)

    def unpickles(fa_):
        for c in fa_.calls():
            d = through_alias(fa_, c)
            if d in ("pickle.loads", "pickle.load", "loads") or (A.call_attr(c) == "load" and isinstance(A.call_recv(c), ast.Call) and A.call_attr(A.call_recv(c)) in ("Unpickler", "_Unpickler")):
                return True
        return False

    okl = unpickles(vl)
    if not okl:
        # one level of delegation to a method of the strategy (load -> decode)
        for c in vl.calls():
            m, _off = _own_method(ck.repo, vl.fi.cls, c, (vl.fi.params or ["self"])[0]) if vl.fi.cls is not None else (None, 0)
            if m is not None and unpickles(FA(ck, m)):
                okl = True
    okp = okp and okl
    ck.ob(R, vp.key(None, "pickle-pair"), okp, "values are stored with pickle.dumps(obj) and read with pickle.loads" if okp else
          "the value strategy no longer pairs pickle.dumps(obj) with pickle.loads", vp.where())


def follow_value(fa, e, at, depth=0):
    """(expression, node) a local name stands for: its single plain assignment, or its element of a tuple-unpacked
    sequence that is understood (display / comprehension over a literal sequence); other expressions are returned as is."""
    while isinstance(e, ast.Name) and fa.df.is_local(e.id) and depth < 8 and at is not None:
        ds = fa.df.reaching(at, e.id)
        if len(ds) != 1:
            break
        d = ds[0]
        if d.kind == "assign" and d.value is not None:
            e, at = d.value, d.node
        elif d.kind == "unpack" and isinstance(d.stmt, ast.Assign):
            nxt = None
            for t in d.stmt.targets:
                if isinstance(t, (ast.Tuple, ast.List)):
                    idx = [i for i, x in enumerate(t.elts) if isinstance(x, ast.Name) and x.id == e.id]
                    elems = sequence_elements(fa, d.stmt.value, d.node)
                    if idx and elems is not None and len(elems) == len(t.elts):
                        nxt = elems[idx[0]]
            if nxt is None:
                break
            e, at = nxt, d.node
        else:
            break
        depth += 1
    return e, at


def ctor_arguments(fa, call, at, params):
    """{parameter: (expression, node)} of a call to a constructor with the given positional parameters: positional and keyword
    arguments, `*seq` and `**mapping` arguments whose elements are evident.  None when an argument is not understood."""
    out, pos = {}, 0
    for a in call.args:
        if isinstance(a, ast.Starred):
            elems = sequence_elements(fa, a.value, at)
            if elems is None:
                return None
            for el in elems:
                if pos < len(params):
                    out[params[pos]] = (el, at)
                pos += 1
        else:
            if pos < len(params):
                out[params[pos]] = (a, at)
            pos += 1
    for k in call.keywords:
        if k.arg is None:
            ent = table_entries(fa, k.value, at)
            if ent is None:
                return None
            for (kk, v) in ent:
                if A.const_str(kk) is None:
                    return None
                out[A.const_str(kk)] = (v, at)
        else:
            out[k.arg] = (k.value, at)
    return out


def mapping_built(fa, expr, at):
    """[(key, value, node)] of the mapping `expr` holds at `at`: the entries of the expression that creates it, followed (for
    a local name) by the `name[k] = v` and `name.update(m)` statements of the function, in source order.  None if not understood."""
    if isinstance(expr, ast.Name) and fa.df.is_local(expr.id):
        ds = fa.df.reaching(at, expr.id)
        if len(ds) != 1 or ds[0].kind != "assign" or ds[0].value is None:
            return None
        v0 = ds[0].value
        empty = (isinstance(v0, ast.Dict) and not v0.keys) or (isinstance(v0, ast.Call) and A.call_dotted(v0) in ("dict", "OrderedDict", "collections.OrderedDict")
                                                              and not v0.args and not v0.keywords)
        base = [] if empty else table_entries(fa, v0, ds[0].node)
        if base is None:
            return None
        out = [(k, v, ds[0].node) for (k, v) in base]
        later = []
        for st in A.all_stmts(fa.node):
            ids = fa.nodes(st)
            if not ids:
                continue
            if isinstance(st, ast.Assign) and len(st.targets) == 1 and isinstance(st.targets[0], ast.Subscript) \
                    and isinstance(st.targets[0].value, ast.Name) and st.targets[0].value.id == expr.id:
                later.append((st.lineno, [(st.targets[0].slice, st.value, ids[0])]))
            elif isinstance(st, ast.Expr) and isinstance(st.value, ast.Call) and A.call_attr(st.value) == "update" \
                    and isinstance(A.call_recv(st.value), ast.Name) and A.call_recv(st.value).id == expr.id:
                c = st.value
                ent = []
                if c.args:
                    e0 = table_entries(fa, c.args[0], ids[0])
                    if e0 is None:
                        return None
                    ent += e0
                ent += [(ast.Constant(value=k.arg), k.value) for k in c.keywords if k.arg is not None]
                later.append((st.lineno, [(k, v, ids[0]) for (k, v) in ent]))
        for (_ln, ent) in sorted(later, key=lambda x: x[0]):
            out += ent
        return out
    if isinstance(expr, ast.Call) and A.call_attr(expr) == "_asdict" and not expr.args and not expr.keywords and A.call_recv(expr) is not None:
        # <named tuple>._asdict(): its fields, in declaration order, with what the constructor was given for them
        rec, at_r = follow_value(fa, A.call_recv(expr), at)
        if isinstance(rec, ast.Call) and isinstance(rec.func, ast.Name) and not fa.df.is_local(rec.func.id):
            fs = record_fields(fa, rec.func.id)
            if fs is not None and not any(isinstance(a, ast.Starred) for a in rec.args) and all(k.arg for k in rec.keywords):
                out = []
                for i, f in enumerate(fs):
                    a = A.arg_or_kw(rec, i, f)
                    if a is None:
                        return None
                    out.append((ast.copy_location(ast.Constant(value=f), expr), a, at_r))
                return out
        return None
    ent = table_entries(fa, expr, at)
    return None if ent is None else [(k, v, at) for (k, v) in ent]


def check_frame_rule(ck, R):
    ck.rule(R, "frame rule: what storing a partition writes onto the returned object is disjoint from what that "
               "object's own accessors read, so the value handed back by the first call stays usable", 2)
    fa = FA(ck, PM.STORE)
    writes = PM.store_writes_on_obj(fa)
    ck.need(writes, "PicklePartitionStrategy.store: no attribute writes on the stored object found")
    for cls in PM.partition_classes(ck):
        if cls.qual == PM.PICKLE_PARTITION:
            continue
        attrs = PM.declared_attrs(ck, cls)
        reads = PM.accessor_reads(ck, cls)
        for (attr, st, guard) in writes:
            applies = True
            if guard is not None:
                v = PM.eval_duck_test(guard.test, attrs, False, "obj")
                applies = v is not False
            if not applies:
                continue
            ok = attr not in reads
            ck.ob(R, "%s::%s::%s" % (fa.qual, cls.name, attr), ok,
                  "store() writes obj.%s, which %s's accessors do not read" % (attr, cls.name) if ok else
                  "store() overwrites obj.%s, which %s.get()/list_keys() read: the partition returned by the computing call "
                  "cannot serve its keys any more" % (attr, cls.name), fa.where(st))


# ---------------------------------------------------------------------------------------------
# R10: forgetting reaches every place that can still answer "memoized"
#
# "Forgetting a call makes exactly that call run again" needs, at every layer that can answer a
# look-up on its own, that a forget which returns normally has left nothing behind for the key:
#   * the memory cache answers `is_memoized` / `read_result` / `get_mementos` from its keyed slots (the
#     resident map, the weak references, any index a later change adds).  The slots are found by what
#     the query methods do (membership test, keyed read), not by name.  On EVERY normal path through
#     `forget_call`, and for EVERY such slot, the key of the forgotten call is removed (pop / del /
#     discard / clear, possibly inside a helper, decided through the helper's own paths) or the path
#     has itself established that the slot does not hold the key (`k not in self.<slot>`).  A stale
#     slot is not a performance matter: the runner stores a new result only when `is_memoized` says
#     no, so a survivor makes the forgotten call run its body on every later call (or serves the
#     forgotten value);
#   * the storage backend answers `is_memoized` from the sources it consults there (memory cache, then
#     the metadata source): each of them receives the forget on every normal path, the only excuse
#     being the branch on which that source is not configured.
# ---------------------------------------------------------------------------------------------
CACHE_QUERIES = ("is_memoized", "read_result", "get_mementos")
_KEYED_VIEWS = ("keys", "values", "items")
_REMOVERS = ("pop", "discard", "remove", "__delitem__")
_FRESH_CONTAINERS = ("dict", "OrderedDict", "WeakValueDictionary", "WeakKeyDictionary", "defaultdict", "set", "list", "deque")


def _slot_expr(e, me):
    """`self.S` (also seen through `.keys()` / `.values()` / `.items()`) -> 'S'."""
    if isinstance(e, ast.Call) and not e.args and not e.keywords and isinstance(e.func, ast.Attribute) and e.func.attr in _KEYED_VIEWS:
        e = e.func.value
    if isinstance(e, ast.Attribute) and isinstance(e.value, ast.Name) and e.value.id == me:
        return e.attr
    return None


def _own_method(repo, cls, call, me):
    """The method of `cls` that `self.m(...)` / `Cls.m(...)` / `cls.m(...)` designates, with the offset of its first explicit
    parameter, else (None, 0)."""
    f = call.func
    if not (isinstance(f, ast.Attribute) and isinstance(f.value, ast.Name)):
        return None, 0
    if f.value.id not in (me, "cls", cls.name):
        return None, 0
    m = repo.find_method(cls, f.attr)
    if m is None:
        return None, 0
    return m, (0 if m.is_static else 1)


def answering_slots(ck, cls):
    """{slot: (query method, node)}: the fields of `cls` from which its query methods answer by key -- a membership test
    on the field, a keyed read of it, `.get(k)` on it -- in the query methods themselves and the methods they call on self."""
    out = {}
    seen = set()

    def scan(m, origin, depth):
        if m is None or m.qual in seen or depth > 3 or not m.params:
            return
        seen.add(m.qual)
        me = m.params[0] if not m.is_static else "self"
        for n in A.walk_body(m.node):
            s = None
            if isinstance(n, ast.Compare) and len(n.ops) == 1 and isinstance(n.ops[0], (ast.In, ast.NotIn)):
                s = _slot_expr(n.comparators[0], me)
            elif isinstance(n, ast.Subscript) and isinstance(n.ctx, ast.Load):
                s = _slot_expr(n.value, me)
            elif isinstance(n, ast.Call) and A.call_attr(n) in ("get", "__getitem__", "__contains__") and n.args and A.call_recv(n) is not None:
                s = _slot_expr(A.call_recv(n), me)
            if s is not None:
                out.setdefault(s, (origin, n))
            if isinstance(n, ast.Call):
                callee, _off = _own_method(ck.repo, cls, n, me)
                if callee is not None and callee.name not in CACHE_QUERIES:
                    scan(callee, origin, depth + 1)

    for q in CACHE_QUERIES:
        scan(cls.methods.get(q), q, 0)
    return out


class _Absent:
    """Decides "every normal path through <method> leaves <slot> without the key", the key being whatever is derived from a
    designated parameter.  Events that establish it: a removal of the key from the slot, a call of a method of the class that
    (by the same analysis of its own paths) establishes it for the argument, a branch edge that implies `key not in slot`."""

    def __init__(self, ck, cls):
        self.ck = ck
        self.cls = cls
        self.memo = {}

    def decide(self, m, slot, pname, keyless=False, depth=0):
        """-> (ok, fa, witness path or None).  keyless: the whole slot must be emptied (forget everything)."""
        k = (m.qual, slot, pname, keyless)
        if k in self.memo:
            return self.memo[k]
        self.memo[k] = (False, None, None)  # a recursive helper establishes nothing by itself
        fa = FA(self.ck, m)
        me = m.params[0] if (m.params and not m.is_static) else "self"
        cfg = fa.cfg

        def key_ok(e):
            if keyless or pname is None:
                return False
            try:
                return ("param:" + pname) in fa.deps(e)
            except AnalysisError:
                return False

        events = []
        absent = set()
        for n in A.walk_body(m.node):
            if isinstance(n, ast.Call):
                recv = A.call_recv(n)
                nm = A.call_attr(n)
                if recv is not None and _slot_expr(recv, me) == slot and isinstance(recv, ast.Attribute):
                    if nm == "clear" and fa.unconditional(n):
                        events += fa.nodes(n)
                    elif nm in _REMOVERS and n.args and key_ok(n.args[0]) and fa.unconditional(n):
                        events += fa.nodes(n)
                    elif nm in _REMOVERS and n.args and key_ok(n.args[0]) and fa.nodes(n):
                        # `self.S.pop(k) if k in self.S else <default>`: removed where held, and not held otherwise
                        x_, up_ = n, fa.pm.get(n)
                        while up_ is not None and not isinstance(up_, (ast.IfExp, ast.stmt)):
                            x_, up_ = up_, fa.pm.get(up_)
                        if isinstance(up_, ast.IfExp) and x_ is up_.body and isinstance(up_.test, ast.Compare) and len(up_.test.ops) == 1 \
                                and isinstance(up_.test.ops[0], ast.In) and _slot_expr(up_.test.comparators[0], me) == slot \
                                and key_ok(up_.test.left) and fa.unconditional(up_):
                            events += fa.nodes(n)
                    elif nm == "get" and n.args and key_ok(n.args[0]) and fa.nodes(n):
                        # `self.S.get(k) is None` taken true: nothing is held for k
                        nid = fa.nodes(n)[0]
                        absent.add((fa._literal(ast.Compare(left=n, ops=[ast.Is()], comparators=[ast.Constant(value=None)]), nid, True)[0], True))
                elif depth < 3 and fa.unconditional(n):
                    callee, off = _own_method(self.ck.repo, self.cls, n, me)
                    if callee is not None and callee.qual != m.qual:
                        if keyless:
                            if self.decide(callee, slot, None, True, depth + 1)[0]:
                                events += fa.nodes(n)
                        else:
                            for i, a in enumerate(n.args):
                                if isinstance(a, ast.Starred) or not key_ok(a) or i + off >= len(callee.params):
                                    continue
                                if self.decide(callee, slot, callee.params[i + off], False, depth + 1)[0]:
                                    events += fa.nodes(n)
                                    break
            elif isinstance(n, (ast.For, ast.AsyncFor)) and isinstance(n.iter, (ast.Tuple, ast.List)) and isinstance(n.target, ast.Name) \
                    and any(_slot_expr(x, me) == slot and isinstance(x, ast.Attribute) for x in n.iter.elts):
                # `for held in (self.a, self.b): held.clear()`: the loop runs its body for the slot; the removal is a statement of
                # the body that nothing before it can skip
                for st in n.body:
                    if isinstance(st, (ast.If, ast.Try, ast.While, ast.For, ast.Return, ast.Raise, ast.Break, ast.Continue, ast.With)):
                        break
                    c = st.value if isinstance(st, ast.Expr) else None
                    if isinstance(c, ast.Call) and isinstance(A.call_recv(c), ast.Name) and A.call_recv(c).id == n.target.id:
                        nm_ = A.call_attr(c)
                        if nm_ == "clear" or (nm_ in _REMOVERS and c.args and key_ok(c.args[0])):
                            events += fa.nodes(n)
                            break
                    if isinstance(st, ast.Delete) and any(isinstance(t, ast.Subscript) and isinstance(t.value, ast.Name) and t.value.id == n.target.id
                                                          and key_ok(t.slice) for t in st.targets):
                        break  # del held[k] raises where the key is absent: not an unconditional removal for every slot
            elif isinstance(n, ast.Delete):
                for t in n.targets:
                    if isinstance(t, ast.Subscript) and _slot_expr(t.value, me) == slot and key_ok(t.slice):
                        events += fa.nodes(n)
            elif isinstance(n, (ast.Assign, ast.AnnAssign)) and getattr(n, "value", None) is not None:
                tg = n.targets if isinstance(n, ast.Assign) else [n.target]
                v = n.value
                fresh = (isinstance(v, (ast.Dict, ast.List, ast.Set)) and not (getattr(v, "keys", None) or getattr(v, "elts", None))) or \
                    (isinstance(v, ast.Call) and not v.args and not v.keywords and (A.call_attr(v) in _FRESH_CONTAINERS))
                if fresh and any(_slot_expr(t, me) == slot and isinstance(t, ast.Attribute) for t in tg):
                    events += fa.nodes(n)
            elif isinstance(n, ast.Compare) and len(n.ops) == 1 and isinstance(n.ops[0], (ast.In, ast.NotIn)) \
                    and _slot_expr(n.comparators[0], me) == slot and key_ok(n.left) and fa.nodes(n):
                nid = fa.nodes(n)[0]
                view = ast.Compare(left=n.left, ops=[ast.In()], comparators=[ast.Attribute(value=ast.Name(id=me, ctx=ast.Load()), attr=slot, ctx=ast.Load())])
                absent.add((fa._literal(n, nid, True)[0], False))
                absent.add((fa._literal(view, nid, True)[0], False))
        # a loop over a non-empty literal (`for key in [cache_key]: self.S.pop(key, None)`) runs its body: what the leading
        # straight-line statements of the body establish, the loop establishes
        for lp in fa.stmts((ast.For, ast.AsyncFor)):
            it_ = lp.iter
            if isinstance(it_, ast.Name) and fa.nodes(lp):
                it_ = follow_value(fa, it_, fa.nodes(lp)[0])[0]
            if not (isinstance(it_, (ast.Tuple, ast.List)) and it_.elts and fa.nodes(lp)) or lp.orelse:
                continue
            for st in lp.body:
                if isinstance(st, (ast.If, ast.Try, ast.While, ast.For, ast.Return, ast.Raise, ast.Break, ast.Continue, ast.With)):
                    break
                if set(fa.nodes(st)) & set(events):
                    events += fa.nodes(lp)
                    break
        from .cache_model import branch_filter
        edge_ok = branch_filter(fa, lambda txt, pol: (txt, pol) in absent)
        ok = cfg.must_pass(events, cfg.exit, edge_ok=edge_ok)
        wit = None if ok else cfg.path(cfg.entry, cfg.exit, removed=events, edge_ok=edge_ok)
        self.memo[k] = (ok, fa, wit)
        return self.memo[k]


def _pure_row_item(e):
    if isinstance(e, (ast.Constant, ast.Name)):
        return True
    if isinstance(e, ast.Attribute):
        return _pure_row_item(e.value)
    if isinstance(e, (ast.Tuple, ast.List)):
        return all(_pure_row_item(x) for x in e.elts)
    return False


def written_out(ck, cls, m, me):
    """A view of method `m` in which (a) a loop over a literal display of rows made of names / attribute chains / constants is
    written out row by row (no break / continue / else, the loop variables are not assigned in the body) and (b) a call of a
    method of the class whose body is a single `return <expression>` stands as that expression with the arguments put in.
    Both say the same thing as the original; rules that follow where keys come from then see the fields themselves."""
    from ..loader import FuncInfo
    node = copy.deepcopy(m.node)
    changed = [False]

    def stored_names(stmts):
        return {n.id for st in stmts for n in ast.walk(st) if isinstance(n, ast.Name) and isinstance(n.ctx, (ast.Store, ast.Del))}

    def unroll(stmts):
        out = []
        for st in stmts:
            for fld in ("body", "orelse", "finalbody"):
                if isinstance(getattr(st, fld, None), list) and getattr(st, fld) and isinstance(getattr(st, fld)[0], ast.stmt):
                    setattr(st, fld, unroll(getattr(st, fld)))
            for h in getattr(st, "handlers", []) or []:
                h.body = unroll(h.body)
            if isinstance(st, ast.For) and not st.orelse and isinstance(st.iter, (ast.Tuple, ast.List)) and 0 < len(st.iter.elts) <= 8 \
                    and all(_pure_row_item(r) for r in st.iter.elts) \
                    and not any(isinstance(n, (ast.Break, ast.Continue, ast.Yield, ast.YieldFrom)) for b in st.body for n in ast.walk(b)):
                from .ladders import bind_target
                envs = [bind_target(st.target, r) for r in st.iter.elts]
                tnames = {n.id for n in ast.walk(st.target) if isinstance(n, ast.Name)}
                if all(e is not None for e in envs) and not (tnames & stored_names(st.body)):
                    for env in envs:
                        for b in st.body:
                            out.append(ast.copy_location(subst(b, env), b))
                    changed[0] = True
                    continue
            out.append(st)
        return out

    node.body = unroll(node.body)

    class Inl(ast.NodeTransformer):
        def visit_Call(self, n):
            self.generic_visit(n)
            callee, off = _own_method(ck.repo, cls, n, me)
            if callee is None or callee.qual == m.qual or n.keywords or any(isinstance(a, ast.Starred) for a in n.args):
                return n
            a = callee.node.args
            body = [st for st in callee.node.body if not (isinstance(st, ast.Expr) and isinstance(st.value, ast.Constant))]
            if len(body) == 1 and isinstance(body[0], ast.For) and not body[0].orelse and len(body[0].body) == 1:
                # a generator that filters one iterable: `for x in IT: [if C:] yield E`  ==  (E for x in IT [if C])
                inner, conds = body[0].body[0], []
                while isinstance(inner, ast.If) and not inner.orelse and len(inner.body) == 1:
                    conds.append(inner.test)
                    inner = inner.body[0]
                if isinstance(inner, ast.Expr) and isinstance(inner.value, ast.Yield) and inner.value.value is not None \
                        and not any(isinstance(x, (ast.Yield, ast.YieldFrom)) for c_ in conds for x in ast.walk(c_)):
                    gen = ast.GeneratorExp(elt=inner.value.value, generators=[ast.comprehension(target=body[0].target, iter=body[0].iter, ifs=conds, is_async=0)])
                    body = [ast.Return(value=gen)]
            if len(body) != 1 or not isinstance(body[0], ast.Return) or body[0].value is None or a.vararg or a.kwarg or a.kwonlyargs:
                return n
            if callee.node.decorator_list and not callee.is_static and not callee.is_classmethod:
                return n
            params = callee.params[off:]
            if len(params) != len(n.args):
                return n
            expr = body[0].value
            bound = {x.id for x in ast.walk(expr) if isinstance(x, ast.Name) and isinstance(x.ctx, ast.Store)}
            free_in_args = {x.id for a_ in n.args for x in ast.walk(a_) if isinstance(x, ast.Name)}
            if bound & (free_in_args | set(params)):
                return n
            env = dict(zip(params, n.args))
            if off and callee.params and callee.params[0] != me:
                env[callee.params[0]] = ast.Name(id=me, ctx=ast.Load())
            changed[0] = True
            return ast.copy_location(subst(expr, env), n)

    node = Inl().visit(node)
    if not changed[0]:
        return m
    ast.fix_missing_locations(node)
    return FuncInfo(m.module, node, m.qual, cls=m.cls, parent=m.parent)


def _forget_function_covers_slots(ck, R, cls, slots, dec):
    """forget_function: for every slot the queries answer from, the keys taken out of the slot are the slot's OWN keys of the function.
    A removal event of slot S is `self.S.pop(k) / del self.S[k]` or a method of the class that (by `_Absent`) leaves S without its
    argument; it *covers* S when the key is enumerated from S itself (through any comprehension / copy / union / local list) or from
    a per-function index, and no test on another answering slot stands between the enumeration and the removal.  Keys enumerated
    from a different slot cover only what the two slots share: an entry held by S alone survives the forget."""
    from .cache_model import CacheModel, self_attr
    from .c06 import ForgetScope
    m = cls.methods.get("forget_function")
    ck.need(m is not None, "MemoryCache.forget_function not found")
    cm = CacheModel(ck)
    me = m.params[0] if (m.params and not m.is_static) else "self"
    ck.need(me == "self", "MemoryCache.forget_function: receiver is not called self")
    m = written_out(ck, cls, m, me)
    fa = FA(ck, m)
    state = {x for x in (cm.map, cm.queue, cm.refs, cm.counter, cm.budget) if x}
    for slot in sorted(slots):
        if slot == cm.queue:
            # the recency queue orders resident keys (a membership test on it in a helper of the queries is bookkeeping, not an
            # answer); that it lists resident keys only, and is swept with them, is C06's subject
            continue
        events = []     # (key expression, site)
        for n in A.walk_body(m.node):
            if isinstance(n, ast.Call):
                recv, nm = A.call_recv(n), A.call_attr(n)
                if recv is not None and isinstance(recv, ast.Attribute) and _slot_expr(recv, me) == slot and nm in _REMOVERS and n.args:
                    events.append((n.args[0], n))
                    continue
                callee, off = _own_method(ck.repo, cls, n, me)
                if callee is not None and callee.qual != m.qual:
                    for i, a in enumerate(n.args):
                        if isinstance(a, ast.Starred) or i + off >= len(callee.params):
                            continue
                        if dec.decide(callee, slot, callee.params[i + off], False, 1)[0]:
                            events.append((a, n))
                            break
            elif isinstance(n, ast.Delete):
                for t in n.targets:
                    if isinstance(t, ast.Subscript) and _slot_expr(t.value, me) == slot and isinstance(t.value, ast.Attribute):
                        events.append((t.slice, n))
        rebuilt = [st for st in fa.stmts((ast.Assign, ast.AnnAssign, ast.AugAssign))
                   if any(_slot_expr(t, me) == slot and isinstance(t, ast.Attribute) for t in (st.targets if isinstance(st, ast.Assign) else [st.target]))]
        ck.need(events or not rebuilt, "MemoryCache.forget_function rebuilds self.%s wholesale (`%s`): not followed" % (slot, A.short(rebuilt[0], 50) if rebuilt else ""))
        covering, why_not = [], None
        for (k, site) in events:
            ids = fa.nodes(site)
            if not ids:
                continue
            sc = ForgetScope(fa, cm)
            from .c06 import _comprehension_env
            for i in ids:
                env = _comprehension_env(fa, k)
                q = site
                while q is not None and not isinstance(q, ast.stmt):
                    if isinstance(q, (ast.ListComp, ast.SetComp, ast.GeneratorExp, ast.DictComp)):
                        for g in q.generators:
                            for cnd in g.ifs:
                                sc.filters.append((cnd, i, set(env)))
                    q = fa.pm.get(q)
                sc.trace(k, i, env)
            # the branch conditions under which the removal is reached (a DNF): the removal is narrowed by another slot only when
            # EVERY way of reaching it passes a test on that slot (`if not ref_list and not evict_list: return` leaves the way
            # "there is something selected from this slot" open)
            path_narrow = None
            for i in ids:
                per_conj = []
                for conj in (fa.conditions(i) or [frozenset()]):
                    hit = None
                    for (t_, p_) in conj:
                        try:
                            e_ = _parse(t_)
                        except SyntaxError:
                            continue
                        o_ = sorted({self_attr(x) for x in ast.walk(e_) if self_attr(x) in slots and self_attr(x) != slot})
                        if o_:
                            hit = (t_, o_[0])
                            break
                    per_conj.append(hit)
                if per_conj and all(h is not None for h in per_conj):
                    path_narrow = per_conj[0]
            index = sorted(f for f in sc.fields if f not in state and f not in slots)
            if slot not in sc.fields and not index:
                unfollowed = [x for x in sc.other if isinstance(x, ast.Call) and _own_method(ck.repo, cls, x, me)[0] is not None]
                ck.need(not unfollowed, "MemoryCache.forget_function: the keys removed from self.%s come out of `%s`, which is not followed"
                        % (slot, A.short(unfollowed[0], 50) if unfollowed else ""))
                src = ", ".join("self." + f for f in sorted(sc.fields)) or ("`%s`" % A.short(sc.other[0], 40) if sc.other and sc.other[0] is not None else "something else")
                why_not = why_not or (site, "the keys it removes from self.%s (`%s`) are enumerated from %s, not from self.%s: an entry that only self.%s holds "
                                            "(a result too large for the cache, or one whose cache entry was pushed out, lives on in the weak references alone) "
                                            "is never selected" % (slot, A.short(site, 40), src, slot, slot))
                continue
            narrowed = None
            for flt in sc.filters:
                c0 = flt[0]
                try:
                    e0 = _parse(c0) if isinstance(c0, str) else (c0 if isinstance(c0, ast.Lambda) else fa.expand(c0, flt[1]))
                except (SyntaxError, AnalysisError, Exception):
                    e0 = c0 if not isinstance(c0, str) else None
                if e0 is None:
                    continue
                others = {self_attr(x) for x in ast.walk(e0) if self_attr(x) in slots and self_attr(x) != slot}
                if others:
                    narrowed = (c0 if isinstance(c0, str) else A.short(c0, 50), sorted(others)[0])
                    break
            narrowed = narrowed or path_narrow
            if narrowed:
                why_not = why_not or (site, "whether a key is removed from self.%s depends on self.%s (`%s`): an entry that only self.%s holds survives"
                                            % (slot, narrowed[1], narrowed[0], slot))
                continue
            if sc.partial:
                why_not = why_not or (site, "only `%s` -- some of the selected keys, picked by position -- is removed from self.%s" % (A.short(sc.partial[0], 40), slot))
                continue
            # the statement that performs the sweep: the outermost loop around the removal (the loop body may run zero times)
            top = site
            q = fa.pm.get(site)
            while q is not None and q is not m.node:
                if isinstance(q, (ast.For, ast.While, ast.AsyncFor)):
                    top = q
                q = fa.pm.get(q)
            covering += fa.nodes(top if top is not site else (fa.stmt_of(site) or site))
        def selected_from_slot(txt, pol, slot=slot, at=(covering or [fa.cfg.entry])[0]):
            """the branch literal says: the collection of this slot's keys selected for the function is empty (nothing to sweep)"""
            try:
                e = _parse(txt)
            except SyntaxError:
                return False
            if isinstance(e, ast.Compare) and len(e.ops) == 1 and isinstance(e.comparators[0], ast.Constant) and e.comparators[0].value == 0 \
                    and e.comparators[0].value is not False:
                if (isinstance(e.ops[0], ast.Eq) and pol) or (isinstance(e.ops[0], ast.Gt) and not pol):
                    e, pol = e.left, False
                else:
                    return False
            if pol:
                return False
            if isinstance(e, ast.Call) and isinstance(e.func, ast.Name) and e.func.id == "len" and len(e.args) == 1:
                e = e.args[0]
            sc = ForgetScope(fa, cm)
            sc.trace(copy.deepcopy(e), at)
            if slot not in sc.fields and not [f for f in sc.fields if f not in state and f not in slots]:
                return False
            for flt in sc.filters:
                c0 = flt[0]
                if isinstance(c0, ast.AST) and any(self_attr(x) in slots and self_attr(x) != slot for x in ast.walk(c0)):
                    return False
            return not sc.partial

        from .cache_model import branch_filter
        edge_ok = branch_filter(fa, selected_from_slot)
        ok = bool(covering) and fa.cfg.must_pass(covering, fa.cfg.exit, edge_ok=edge_ok)
        origin = slots[slot][0]
        if ok:
            msg = "forget_function sweeps self.%s (from which %s answers) over its own keys of the function on every path" % (slot, origin)
            at = fa.where()
        else:
            if why_not is not None:
                detail, at = why_not[1], fa.where(why_not[0])
            elif not events:
                detail, at = "it removes nothing from self.%s" % slot, fa.where()
            else:
                wit = fa.cfg.path(fa.cfg.entry, fa.cfg.exit, removed=covering, edge_ok=edge_ok)
                detail, at = "it can return (path %s) without sweeping self.%s" % (fa.cfg.describe_path(wit) if wit else "?", slot), fa.where()
            msg = ("forget_function leaves entries of the forgotten function in self.%s, from which %s answers: %s. After forget_all() the cache still "
                   "reports such a call as memoized (the re-computed result is then never stored and the body runs on every later call) or serves the "
                   "forgotten value" % (slot, origin, detail))
        ck.ob(R, fa.key(None, "function-sweep-covers:" + slot), ok, msg, at)


def check_forget_reaches_answers(ck, R):
    ck.rule(R, "forgetting reaches every place that can still answer 'memoized': on every normal path the cache's forget_call / "
               "forget_everything leave none of the slots its queries answer from holding the key, and the backend's forget "
               "operations are delivered to every source its is_memoized consults", 6)
    from .cache_model import CACHE_CLASS, unalias_fixed_attrs, branch_filter
    cls = ck.repo.cls(CACHE_CLASS)
    unalias_fixed_attrs(ck.repo, cls)
    slots = answering_slots(ck, cls)
    ck.need(slots, "MemoryCache: no field found from which is_memoized / read_result / get_mementos answer")
    dec = _Absent(ck, cls)
    for (name, keyless) in (("forget_call", False), ("forget_everything", True)):
        m = cls.methods.get(name)
        ck.need(m is not None, "MemoryCache.%s not found" % name)
        explicit = [p_ for p_ in m.params[(0 if m.is_static else 1):]]
        ck.need(keyless or explicit, "MemoryCache.%s takes no call argument" % name)
        for slot in sorted(slots):
            (ok, fa, wit) = dec.decide(m, slot, None if keyless else explicit[0], keyless)
            origin = slots[slot][0]
            ck.ob(R, fa.key(None, "leaves-nothing-in:" + slot), ok,
                  "%s leaves no entry for the %s in self.%s (from which %s answers) on every path" % (name, "store" if keyless else "call", slot, origin) if ok else
                  "%s can return (path %s) while self.%s still holds %s, and %s answers from self.%s: after forgetting, the cache still reports the "
                  "call as memoized (the re-computed result is then never stored and the body runs on every later call) or serves the forgotten value"
                  % (name, fa.cfg.describe_path(wit) if wit else "?", slot, "entries" if keyless else "the key of the forgotten call", origin, slot), fa.where())
    ck.run(_forget_function_covers_slots, ck, R, cls, slots, dec)
    # the backend: every source is_memoized consults is told to forget
    bq = "storage_base.StorageBackendBase"
    bcls = ck.repo.cls(bq)
    im = FA(ck, bq + ".is_memoized")
    me = (im.fi.params or ["self"])[0]
    sources = []
    for c in im.calls():
        r = A.call_recv(c)
        if r is not None and not isinstance(r, ast.Attribute) and im.nodes(c):
            try:
                r = _parse(im.xnorm(r, im.nodes(c)[0]))    # a local standing for the field
            except (AnalysisError, SyntaxError):
                pass
        if isinstance(r, ast.Attribute) and isinstance(r.value, ast.Name) and r.value.id == me and r.attr not in sources:
            sources.append(r.attr)
    ck.need(sources, "StorageBackendBase.is_memoized consults no field of the backend")
    for name in ("forget_call", "forget_function", "forget_everything"):
        fm = bcls.methods.get(name)
        ck.need(fm is not None, "StorageBackendBase.%s not found" % name)
        fa = FA(ck, fm)
        sme = (fm.params or ["self"])[0]
        explicit = fm.params[1:]
        verdicts_ = []
        for src in sources:
            src_txt = "%s.%s" % (sme, src)
            events = []
            sends = [(c, A.call_recv(c), list(c.args)) for c in fa.calls(name)]
            # `forget = operator.methodcaller("forget_x", arg)` ... `forget(self.src)` sends the same message
            for c in fa.calls():
                if isinstance(c.func, ast.Name) and fa.df.is_local(c.func.id) and len(c.args) == 1 and not c.keywords and fa.nodes(c):
                    mc = fa.expand(c.func)
                    if isinstance(mc, ast.Call) and A.call_attr(mc) == "methodcaller" and mc.args and A.const_str(mc.args[0]) == name:
                        sends.append((c, c.args[0], list(mc.args[1:])))
            for (c, r, sent) in sends:
                if r is None or not fa.nodes(c) or fa.xnorm(r, fa.nodes(c)[0]) != src_txt or not fa.unconditional(c):
                    continue
                if explicit:
                    try:
                        if not (sent and ("param:" + explicit[0]) in fa.deps(sent[0], fa.nodes(c)[0])):
                            continue
                    except AnalysisError:
                        continue
                events += fa.nodes(c)
            # `for source in (self.a, self.b): [if source:] source.forget_x(arg)`: the loop delivers it to each of them
            for lp in fa.stmts((ast.For, ast.AsyncFor)):
                if not (isinstance(lp.iter, (ast.Tuple, ast.List)) and isinstance(lp.target, ast.Name) and fa.nodes(lp)
                        and any(A.norm(x) == src_txt for x in lp.iter.elts)):
                    continue
                var = lp.target.id
                body = lp.body
                if len(body) == 1 and isinstance(body[0], ast.If) and not body[0].orelse and \
                        A.norm(body[0].test) in (var, "%s is not None" % var):
                    body = body[0].body  # skipped only for a source that is not configured
                for st in body:
                    if not isinstance(st, ast.Expr):
                        break
                    c = st.value
                    if isinstance(c, ast.Call) and A.call_attr(c) == name and isinstance(A.call_recv(c), ast.Name) and A.call_recv(c).id == var:
                        try:
                            if not explicit or (c.args and ("param:" + explicit[0]) in fa.deps(c.args[0])):
                                events += fa.nodes(lp)
                        except AnalysisError:
                            pass
                        break
            unset = {(src_txt, False), ("%s is None" % src_txt, True)}
            edge_ok = branch_filter(fa, lambda txt, pol: (txt, pol) in unset)
            ok = bool(events) and fa.cfg.must_pass(events, fa.cfg.exit, edge_ok=edge_ok)
            if not ok:
                ok = _delivered_through_generic_helper(ck, bcls, fa, name, src, explicit, sme)
            wit = None if ok else fa.cfg.path(fa.cfg.entry, fa.cfg.exit, removed=events, edge_ok=edge_ok)
            verdicts_.append((src, src_txt, ok, wit, bool(events)))
        followed = False
        if not all(ok for (_s, _t, ok, _w, _e) in verdicts_):
            # the message is not sent by a call that names the source: what an abstract run of the method (helpers, loops over
            # the configured parts, operation chosen by name) sends on each of its normal paths
            ran = _delivered_by_run(ck, bcls, fa, name, sources, explicit, sme)
            if ran is not None:
                followed = True
                verdicts_ = [(s_, t_, ok or ran.get(s_, False), (None if (ok or ran.get(s_, False)) else w_), e_ or all(ran.values())) for (s_, t_, ok, w_, e_) in verdicts_]
        if not followed and not any(ok for (_s, _t, ok, _w, _e) in verdicts_) and not any(e for (_s, _t, _o, _w, e) in verdicts_):
            # nothing is sent to any source by name here: if the operation is handed to something this rule does not follow (a
            # helper iterating "the stores", a generator of layers), say so instead of reporting each source as skipped
            indirect = [c for c in fa.calls() if _own_method(ck.repo, bcls, c, sme)[0] is not None and A.call_attr(c) not in CACHE_QUERIES] or \
                [lp for lp in fa.stmts((ast.For, ast.AsyncFor)) if isinstance(lp.iter, (ast.Call, ast.Name))]
            ck.need(not indirect, "StorageBackendBase.%s: the operation reaches the sources only through `%s`, which is not followed"
                    % (name, A.short(indirect[0], 60) if indirect else ""))
        for (src, src_txt, ok, wit, _e) in verdicts_:
            ck.ob(R, fa.key(None, "delivered-to:" + src), ok,
                  "%s is delivered to %s (consulted by is_memoized) on every path on which it is configured" % (name, src_txt) if ok else
                  "%s can return (path %s) without telling %s to forget, yet is_memoized consults it: the forgotten call is still reported "
                  "as memoized / served from there" % (name, fa.cfg.describe_path(wit) if wit else "?", src_txt), fa.where())


_SENDS, _YIELDS = "@sends", "@yields"


class _MessageRun(_TableRun):
    """Abstract run of a method that hands an operation on to the parts of its object, in a *world* that says which of the
    optional parts are configured (`self.<part>` is truthy / is not None).  The store carries the messages sent so far
    (`<receiver>.<operation>(<args>)`), however they are spelled: a direct call, `getattr(part, operation)(*args)`, an
    `operator.methodcaller(operation, *args)` applied to the part, in a loop over a display / a list put together with append /
    what a generator method of the class yields, inside helper methods of the class (followed, with their own paths)."""

    def __init__(self, ck, cls, fa, me, operations, configured):
        self.ck, self.cls, self.me = ck, cls, me
        self.ops = set(operations)
        self.configured = dict(configured)     # {part: bool}
        self._depth = 0
        self.unsupported = None
        self.fa = fa
        _TableRun.__init__(self, fa, [], subject=me)

    # ---- the world ---------------------------------------------------------------------------------
    def _part(self, e):
        if isinstance(e, ast.Attribute) and isinstance(e.value, ast.Name) and e.value.id == self.me and e.attr in self.configured:
            return e.attr
        return None

    def _tv(self, e):
        p = self._part(e)
        if p is not None:
            return self.configured[p]
        if isinstance(e, ast.Call) and isinstance(e.func, ast.Name) and e.func.id == "bool" and len(e.args) == 1 and not e.keywords:
            return self._tv(e.args[0])
        return Dispatch._tv(e)

    def _compare(self, l, op, r, w):
        if isinstance(op, (ast.Is, ast.IsNot)):
            for (a, b) in ((l, r), (r, l)):
                if A.is_none(b) and self._part(a) is not None:
                    isnone = not self.configured[self._part(a)]
                    return isnone if isinstance(op, ast.Is) else (not isnone)
        return Dispatch._compare(self, l, op, r, w)

    def ev(self, e, env, w):
        if isinstance(e, ast.BinOp) and isinstance(e.op, ast.Add):
            l, r = self.ev(e.left, env, w), self.ev(e.right, env, w)
            if type(l) is type(r) and isinstance(l, (ast.Tuple, ast.List)) and not any(isinstance(x, ast.Starred) for x in list(l.elts) + list(r.elts)):
                return type(l)(elts=list(l.elts) + list(r.elts), ctx=ast.Load())     # (a,) + (b,)
            return ast.BinOp(left=l, op=e.op, right=r)
        if isinstance(e, (ast.Tuple, ast.List)) and any(isinstance(x, ast.Starred) for x in e.elts):
            elts = []
            for x in e.elts:
                if isinstance(x, ast.Starred):
                    v = self.ev(x.value, env, w)
                    if not isinstance(v, (ast.Tuple, ast.List)) or any(isinstance(y, ast.Starred) for y in v.elts):
                        raise _Unsupported("unpacking of something that is not a display")
                    elts += list(v.elts)
                else:
                    elts.append(self.ev(x, env, w))
            return type(e)(elts=elts, ctx=ast.Load())
        if isinstance(e, ast.Call) and isinstance(e.func, ast.Name) and e.func.id == "filter" and e.func.id not in env and len(e.args) == 2 and A.is_none(e.args[0]):
            v = self.ev(e.args[1], env, w)
            if isinstance(v, (ast.Tuple, ast.List)):
                tvs = [self._tv(x) for x in v.elts]
                if all(t is not None for t in tvs):
                    return ast.List(elts=[x for x, t in zip(v.elts, tvs) if t], ctx=ast.Load())
        return _TableRun.ev(self, e, env, w)

    # ---- messages -----------------------------------------------------------------------------------
    def _send(self, env, recv, op, args):
        cur = env.get(_SENDS) or ast.List(elts=[], ctx=ast.Load())
        msg = ast.Tuple(elts=[recv, ast.Constant(value=op)] + list(args), ctx=ast.Load())
        env[_SENDS] = ast.List(elts=list(cur.elts) + [msg], ctx=ast.Load())

    def _flat_args(self, e, env, w):
        out = []
        for a in e.args:
            if isinstance(a, ast.Starred):
                v = self.ev(a.value, env, w)
                if not isinstance(v, (ast.Tuple, ast.List)) or any(isinstance(x, ast.Starred) for x in v.elts):
                    return None
                out += list(v.elts)
            else:
                out.append(self.ev(a, env, w))
        return out

    def _call(self, e, env, w):
        f = e.func
        # list.append on a local list display
        if isinstance(f, ast.Attribute) and f.attr in ("append", "extend") and isinstance(f.value, ast.Name) and isinstance(env.get(f.value.id), ast.List) \
                and len(e.args) == 1 and not e.keywords:
            v = self.ev(e.args[0], env, w)
            cur = env[f.value.id]
            if f.attr == "append":
                env[f.value.id] = ast.List(elts=list(cur.elts) + [v], ctx=ast.Load())
            elif isinstance(v, (ast.List, ast.Tuple)):
                env[f.value.id] = ast.List(elts=list(cur.elts) + list(v.elts), ctx=ast.Load())
            else:
                raise _Unsupported("extend with something that is not a display")
            return ast.Constant(value=None)
        fv = None
        if isinstance(f, ast.Name):
            fv = env.get(f.id)
        elif isinstance(f, (ast.Attribute, ast.Call)):
            fv = self.ev(f, env, w)
        if isinstance(fv, ast.Attribute) and fv.attr in self.ops and not e.keywords:
            args = self._flat_args(e, env, w)
            if args is None:
                raise _Unsupported("arguments of a forwarded operation are not evident")
            self._send(env, fv.value, fv.attr, args)
            return ast.Constant(value=None)
        if isinstance(fv, ast.Call) and A.call_attr(fv) == "methodcaller" and fv.args and A.const_str(fv.args[0]) in self.ops \
                and len(e.args) == 1 and not e.keywords and not fv.keywords and not any(isinstance(a, ast.Starred) for a in list(e.args) + list(fv.args)):
            self._send(env, self.ev(e.args[0], env, w), A.const_str(fv.args[0]), list(fv.args[1:]))
            return ast.Constant(value=None)
        if isinstance(fv, ast.Call) and A.call_attr(fv) == "partial" and fv.args and isinstance(fv.args[0], ast.Attribute) and fv.args[0].attr in self.ops \
                and not e.keywords and not fv.keywords and not any(isinstance(a, ast.Starred) for a in list(e.args) + list(fv.args)):
            self._send(env, fv.args[0].value, fv.args[0].attr, list(fv.args[1:]) + [self.ev(a, env, w) for a in e.args])
            return ast.Constant(value=None)
        return _TableRun._call(self, e, env, w)

    # ---- helper methods of the class -------------------------------------------------------------------
    def _own(self, call, env):
        f = call.func
        if isinstance(f, ast.Attribute) and isinstance(f.value, ast.Name) and f.attr not in self.ops:
            base = env.get(f.value.id, f.value)
            if isinstance(base, ast.Name) and base.id == self.me:
                m = self.ck.repo.find_method(self.cls, f.attr)
                if m is not None and not m.is_static and m.params:
                    return m
        return None

    def _enter(self, call, env, w):
        """[(kind, store of the caller afterwards, value)] of a call to a method of the class, run on its own paths."""
        m = self._own(call, env)
        a = m.node.args
        if self._depth >= 4 or a.kwonlyargs or a.kwarg or call.keywords or m.node.decorator_list:
            raise _Unsupported("helper %s is not followed" % m.name)
        for x in ast.walk(m.node):
            if isinstance(x, ast.Attribute) and isinstance(x.ctx, (ast.Store, ast.Del)) and x.attr in self.configured:
                raise _Unsupported("a part is reassigned")
        args = self._flat_args(call, env, w)
        params = [x.arg for x in a.posonlyargs + a.args][1:]
        if args is None or len(args) < len(params) - len(a.defaults) or (len(args) > len(params) and not a.vararg):
            raise _Unsupported("arguments of helper %s" % m.name)
        inner = {m.params[0]: ast.Name(id=self.me, ctx=ast.Load()), _SENDS: env.get(_SENDS) or ast.List(elts=[], ctx=ast.Load())}
        for i, pn in enumerate(params):
            inner[pn] = args[i] if i < len(args) else a.defaults[i - (len(params) - len(a.defaults))]
        if a.vararg:
            inner[a.vararg.arg] = ast.Tuple(elts=list(args[len(params):]), ctx=ast.Load())
        is_gen = any(isinstance(x, (ast.Yield, ast.YieldFrom)) for x in A.walk_body(m.node))
        if is_gen:
            inner[_YIELDS] = ast.List(elts=[], ctx=ast.Load())
        self._depth += 1
        try:
            comps = self._block(m.node.body, inner, w)
        finally:
            self._depth -= 1
        out = []
        for (kind, e3, val) in comps:
            if kind in ("break", "continue"):
                raise _Unsupported("break / continue outside a loop")
            after = dict(env)
            after[_SENDS] = e3.get(_SENDS) or ast.List(elts=[], ctx=ast.Load())
            if kind == "raise":
                out.append(("raise", after, val))
            elif is_gen:
                if A.norm(after[_SENDS]) != A.norm(inner[_SENDS]):
                    raise _Unsupported("a generator that sends messages itself")
                out.append(("value", after, e3[_YIELDS]))
            else:
                out.append(("value", after, _parse(val) if kind == "return" else ast.Constant(value=None)))
        return out

    def _stmt(self, st, env, w):
        if isinstance(st, ast.Expr) and isinstance(st.value, ast.Yield) and _YIELDS in env:
            e2 = dict(env)
            v = self.ev(st.value.value, e2, w) if st.value.value is not None else ast.Constant(value=None)
            e2[_YIELDS] = ast.List(elts=list(e2[_YIELDS].elts) + [v], ctx=ast.Load())
            return [("fall", e2, None)]
        if isinstance(st, ast.Expr) and isinstance(st.value, ast.YieldFrom) and _YIELDS in env:
            e2 = dict(env)
            v = self.ev(st.value.value, e2, w)
            if not isinstance(v, (ast.List, ast.Tuple)):
                raise _Unsupported("yield from something that is not a display")
            e2[_YIELDS] = ast.List(elts=list(e2[_YIELDS].elts) + list(v.elts), ctx=ast.Load())
            return [("fall", e2, None)]
        if any(isinstance(x, (ast.Yield, ast.YieldFrom)) for x in ([st.value] if isinstance(st, (ast.Expr, ast.Assign, ast.Return)) and st.value is not None else [])):
            raise _Unsupported("yield in an unusual place")
        call = st.value if isinstance(st, (ast.Expr, ast.Assign, ast.Return)) and isinstance(getattr(st, "value", None), ast.Call) else None
        if call is not None and self._own(call, env) is not None:
            out = []
            for (kind, e2, val) in self._enter(call, dict(env), w):
                if kind == "raise":
                    out.append(("raise", e2, val))
                elif isinstance(st, ast.Expr):
                    out.append(("fall", e2, None))
                elif isinstance(st, ast.Return):
                    out.append(("return", e2, A.norm(val)))
                else:
                    for t in st.targets:
                        self._bind(t, val, e2)
                    out.append(("fall", e2, None))
            return out
        if isinstance(st, (ast.For, ast.AsyncFor)) and isinstance(st.iter, ast.Call) and self._own(st.iter, env) is not None:
            out = []
            for (kind, e2, val) in self._enter(st.iter, dict(env), w):
                if kind == "raise":
                    out.append(("raise", e2, val))
                    continue
                if not isinstance(val, (ast.List, ast.Tuple)):
                    raise _Unsupported("loop over what a helper returns")
                loop = ast.For(target=st.target, iter=val, body=st.body, orelse=st.orelse)
                out += Dispatch._stmt(self, ast.copy_location(loop, st), e2, w)
            return out
        if isinstance(st, ast.Return):
            e2 = dict(env)
            v = self.ev(st.value, e2, w) if st.value is not None else self._const(None)
            return [("return", e2, A.norm(v))]
        if isinstance(st, ast.AugAssign) and isinstance(st.op, ast.Add) and isinstance(st.target, ast.Name) and isinstance(env.get(st.target.id), ast.List):
            e2 = dict(env)
            v = self.ev(st.value, e2, w)
            if not isinstance(v, (ast.List, ast.Tuple)):
                raise _Unsupported("+= with something that is not a display")
            e2[st.target.id] = ast.List(elts=list(e2[st.target.id].elts) + list(v.elts), ctx=ast.Load())
            return [("fall", e2, None)]
        return _TableRun._stmt(self, st, env, w)


def _delivered_by_run(ck, bcls, fa, name, sources, explicit, me):
    """{source: True / False} -- is the operation `name` (with the forgotten thing, when there is one) sent to the source on
    every path on which the method returns normally, in every world in which that source is configured?  Decided by running the
    method abstractly (`_MessageRun`).  None when the method uses a construct the run does not model."""
    import itertools
    verdict = {src: True for src in sources}
    ops = ("forget_call", "forget_function", "forget_everything")
    try:
        for combo in itertools.product((True, False), repeat=len(sources)):
            world = dict(zip(sources, combo))
            run = _MessageRun(ck, bcls, fa, me, ops, world)
            comps = run._block(fa.node.body, {_SENDS: ast.List(elts=[], ctx=ast.Load())}, ("<no class>", "exact", "own"))
            for (kind, env, _v) in comps:
                if kind not in ("fall", "return"):
                    continue
                got = env.get(_SENDS)
                for src in sources:
                    if not world[src]:
                        continue
                    hit = False
                    for msg in (got.elts if got is not None else []):
                        recv, op, args = msg.elts[0], A.const_str(msg.elts[1]), msg.elts[2:]
                        if A.norm(recv) == "%s.%s" % (me, src) and op == name and (not explicit or (args and explicit[0] in A.names_in(args[0]))):
                            hit = True
                    if not hit:
                        verdict[src] = False
    except (_Unsupported, AnalysisError, RecursionError, SyntaxError):
        return None
    return verdict


def _delivered_through_generic_helper(ck, bcls, fa, name, src, explicit, me):
    """The three forget operations folded into one helper that is told the operation by name:
    `self._forget("forget_call", x)` with `getattr(self.<src>, operation)(*args)` inside.  Holds when the helper is called on every
    path with the operation's own name (and the forgotten thing), and the helper sends `getattr(self.<src>, <that parameter>)(...)`
    on every path on which the source is configured."""
    from .cache_model import branch_filter
    for c in fa.calls():
        callee, off = _own_method(ck.repo, bcls, c, me)
        if callee is None or callee.qual == fa.qual or not fa.unconditional(c) or not fa.nodes(c):
            continue
        named = [i for i, a in enumerate(c.args) if A.const_str(a) == name]
        if not named or named[0] + off >= len(callee.params):
            continue
        if explicit:
            try:
                if not any(("param:" + explicit[0]) in fa.deps(a) for a in c.args if not isinstance(a, ast.Starred)):
                    continue
            except AnalysisError:
                continue
        if not fa.cfg.must_pass(fa.nodes(c), fa.cfg.exit):
            continue
        op_param = callee.params[named[0] + off]
        cfa = FA(ck, callee)
        cme = (callee.params or ["self"])[0]
        src_txt = "%s.%s" % (cme, src)
        sends = []
        for c2 in cfa.calls():
            g = c2.func
            if isinstance(g, ast.Call) and isinstance(g.func, ast.Name) and g.func.id == "getattr" and len(g.args) == 2 \
                    and isinstance(g.args[1], ast.Name) and g.args[1].id == op_param and cfa.nodes(c2) \
                    and cfa.xnorm(g.args[0], cfa.nodes(c2)[0]) == src_txt and cfa.unconditional(c2):
                if explicit and not c2.args:
                    continue   # the forgotten thing is not handed on
                sends += cfa.nodes(c2)
        if any(isinstance(n, ast.Assign) and any(isinstance(t, ast.Name) and t.id == op_param for t in n.targets) for n in A.walk_body(callee.node)):
            continue
        unset = {(src_txt, False), ("%s is None" % src_txt, True)}
        edge_ok = branch_filter(cfa, lambda txt, pol: (txt, pol) in unset)
        if sends and cfa.cfg.must_pass(sends, cfa.cfg.exit, edge_ok=edge_ok):
            return True
    return False


# ---------------------------------------------------------------------------------------------
# C02.R11  "same class when it can be rebuilt": the name from_exception writes is read back whole
#
# from_exception writes `<language>::<module>:<qualified class name>` from a template; to_exception takes the
# fields out again with a pattern.  A field that the pattern's group cannot hold in full is cut (match() is a
# prefix match) or refused, and the replay then resolves another class (the outer one of a nested class) or
# none.  Decided on the pattern's parse tree, never by matching: for the k-th field of the template, every
# character the field's source can contain (a module path: identifier characters and dots; a qualified class
# name: identifier characters and dots, which the reader itself splits on) must be accepted by some item inside
# the k-th group the reader takes out.  A reader that is not a pattern (partition / split) rejects no character.
# ---------------------------------------------------------------------------------------------
_IDENT_SAMPLE = ("a", "Z", "0", "_", "é")


def _field_alphabet(fa, e, at):
    """Characters (a representative sample) that a written field can contain, from what it is computed from."""
    if isinstance(e, ast.Constant) and isinstance(e.value, str):
        return tuple(sorted(set(e.value))), "the constant %r" % e.value, "const"
    try:
        x = fa.expand(e, at)
    except AnalysisError:
        x = e
    if isinstance(x, ast.Constant) and isinstance(x.value, str):
        return tuple(sorted(set(x.value))), "the constant %r" % x.value, "const"
    attrs = {n.attr for n in ast.walk(x) if isinstance(n, ast.Attribute)}
    attrs |= {A.const_str(n.args[1]) for n in ast.walk(x) if isinstance(n, ast.Call) and isinstance(n.func, ast.Name) and n.func.id == "getattr" and len(n.args) >= 2}
    if "__qualname__" in attrs:
        return _IDENT_SAMPLE + (".",), "a qualified class name (`Outer.Inner` for a nested class)", "class"
    if "__module__" in attrs:
        return _IDENT_SAMPLE + (".",), "a dotted module path", "module"
    if "__name__" in attrs:
        return _IDENT_SAMPLE, "an identifier", "class"
    return None, None, None


def _sre_accepts(items, ch):
    """Can character `ch` be consumed by some item of this parsed (sub)pattern?  Over-approximates (any item anywhere)."""
    import re._constants as C
    o = ord(ch)

    def in_class(av):
        neg = bool(av) and av[0][0] is C.NEGATE
        hit = False
        for (op, a) in av:
            if op is C.LITERAL and a == o:
                hit = True
            elif op is C.RANGE and a[0] <= o <= a[1]:
                hit = True
            elif op is C.CATEGORY:
                word, digit, space = (ch.isalnum() or ch == "_"), ch.isdigit(), ch.isspace()
                hit = hit or {C.CATEGORY_WORD: word, C.CATEGORY_NOT_WORD: not word, C.CATEGORY_DIGIT: digit, C.CATEGORY_NOT_DIGIT: not digit,
                              C.CATEGORY_SPACE: space, C.CATEGORY_NOT_SPACE: not space}.get(a, True)
        return hit != neg

    for (op, av) in items:
        if op is C.ANY:
            if ch != "\n":
                return True
        elif op is C.LITERAL:
            if av == o:
                return True
        elif op is C.NOT_LITERAL:
            if av != o:
                return True
        elif op is C.IN:
            if in_class(av):
                return True
        elif op in (C.MAX_REPEAT, C.MIN_REPEAT) or getattr(C, "POSSESSIVE_REPEAT", None) is op:
            if _sre_accepts(av[2], ch):
                return True
        elif op is C.SUBPATTERN:
            if _sre_accepts(av[3], ch):
                return True
        elif op is C.BRANCH:
            if any(_sre_accepts(b, ch) for b in av[1]):
                return True
        elif getattr(C, "ATOMIC_GROUP", None) is op:
            if _sre_accepts(av, ch):
                return True
        elif op in (C.AT, C.ASSERT, C.ASSERT_NOT):
            continue
        elif op in (C.GROUPREF, C.GROUPREF_EXISTS):
            return True  # not modelled: assume it can
    return False


def _sre_group(tree, gid):
    import re._constants as C
    found = []

    def walk(seq):
        for (op, av) in seq:
            if op is C.SUBPATTERN:
                if av[0] == gid:
                    found.append(av[3])
                walk(av[3])
            elif op in (C.MAX_REPEAT, C.MIN_REPEAT) or getattr(C, "POSSESSIVE_REPEAT", None) is op:
                walk(av[2])
            elif op is C.BRANCH:
                for b in av[1]:
                    walk(b)
            elif getattr(C, "ATOMIC_GROUP", None) is op:
                walk(av)
    walk(tree)
    return found[0] if len(found) == 1 else None


def _pattern_of(fa, e, nid):
    """(pattern text, flags expression or None) of an expression that designates a pattern: a literal, a module constant,
    `re.compile(<that>)`, through locals."""
    seen = 0
    flags = None
    while seen < 8:
        seen += 1
        if isinstance(e, ast.Name):
            if fa.df.is_local(e.id):
                try:
                    x = fa.expand(e, nid)
                except AnalysisError:
                    return None, None
                if isinstance(x, ast.Name) and x.id == e.id:
                    return None, None
                e = x
                continue
            v = fa.fi.module.assigns.get(e.id)
            if v is None:
                return None, None
            e = v
            continue
        if isinstance(e, ast.Call) and A.call_attr(e) == "compile" and e.args:
            flags = e.args[1] if len(e.args) > 1 else next((k.value for k in e.keywords if k.arg == "flags"), None)
            e = e.args[0]
            continue
        s = A.const_str(e)
        if s is None:
            parts = A.str_parts(e)
            if parts is not None and all(k == "lit" for (k, _v) in parts):
                s = "".join(v for (_k, v) in parts)
        return s, flags
    return None, None


def _format_fields(fa, e):
    """[('lit', text) | ('expr', node)] of `<template>.format(...)` whose template is a constant (also a module-level one) and whose
    fields may reach into their argument (`{cls.__module__}`, `{0.__qualname__}`); None for anything else."""
    import string
    if not (isinstance(e, ast.Call) and isinstance(e.func, ast.Attribute) and e.func.attr == "format"):
        return None
    t = e.func.value
    if isinstance(t, ast.Name) and not fa.df.is_local(t.id):
        t = fa.fi.module.assigns.get(t.id)
    fmt = A.const_str(t) if t is not None else None
    if fmt is None or any(isinstance(a, ast.Starred) for a in e.args) or any(k.arg is None for k in e.keywords):
        return None
    out, auto = [], 0
    try:
        pieces = list(string.Formatter().parse(fmt))
    except ValueError:
        return None
    for (lit, field, spec, conv) in pieces:
        if lit:
            out.append(("lit", lit))
        if field is None:
            continue
        if spec or conv not in (None, "s"):
            return None
        head = field.split(".")[0].split("[")[0]
        rest = field[len(head):]
        if head == "":
            idx, auto = auto, auto + 1
            base = e.args[idx] if idx < len(e.args) else None
        elif head.isdigit():
            base = e.args[int(head)] if int(head) < len(e.args) else None
        else:
            base = next((k.value for k in e.keywords if k.arg == head), None)
        if base is None or "[" in rest:
            return None
        x = copy.deepcopy(base)
        for attr in [a for a in rest.split(".") if a]:
            if not attr.isidentifier():
                return None
            x = ast.Attribute(value=x, attr=attr, ctx=ast.Load())
        out.append(("expr", x))
    return out


def check_exception_name_roundtrip(ck, R):
    ck.rule(R, "the exception name from_exception writes (language::module:qualified class name) is read back whole by to_exception: every "
               "character a written field can contain is accepted by the group of the reader's pattern that takes that field out", 2)
    import re._parser as sre_parse
    fe = FA(ck, "exception.MementoException.from_exception")
    mk = fe.one(fe.calls("MementoException"), "MementoException(...) in from_exception")
    a_name = A.arg_or_kw(mk, 0, "exception_name")
    ck.need(a_name is not None, "from_exception: no exception name is passed")
    tmpl, tat = follow_value(fe, a_name, (fe.nodes(mk) or [None])[0])
    parts = A.str_parts(tmpl)
    if parts is None:
        parts = _format_fields(fe, tmpl)
    ck.need(parts is not None, "from_exception: the exception name is not built from a template")
    fields = [(v, tat) for (k, v) in parts if k == "expr"]
    ck.need(fields, "from_exception: the exception name has no computed field")
    tx = FA(ck, "exception.MementoException.to_exception")
    me = (tx.fi.params or ["self"])[0]
    uses = []
    for c in tx.calls():
        nm = A.call_attr(c)
        if nm not in ("match", "fullmatch", "search") or not tx.nodes(c):
            continue
        recv = A.call_recv(c)
        if isinstance(recv, ast.Name) and recv.id == "re" and not tx.df.is_local("re"):
            if len(c.args) < 2:
                continue
            pe, subject, fl = c.args[0], c.args[1], (c.args[2] if len(c.args) > 2 else next((k.value for k in c.keywords if k.arg == "flags"), None))
        elif recv is not None and c.args:
            pe, subject, fl = recv, c.args[0], None
        else:
            continue
        try:
            if ("attr:%s.exception_name" % me) not in tx.deps(subject, tx.nodes(c)[0]):
                continue
        except AnalysisError:
            continue
        uses.append((c, pe, fl))
    if not uses:
        regexy = [c for c in tx.calls() if isinstance(A.call_recv(c), ast.Name) and A.call_recv(c).id == "re"]
        ck.need(not regexy, "to_exception: a use of `re` on something other than the exception name is not followed")
        ck.ob(R, tx.key(None, "name-fields-read-whole"), True, "to_exception does not take the name apart with a pattern: no character of a field is refused", tx.where())
        return
    for (c, pe, fl) in uses:
        nid = tx.nodes(c)[0]
        pat, fl2 = _pattern_of(tx, pe, nid)
        ck.need(pat is not None, "to_exception: the pattern `%s` is not a constant" % A.short(pe, 50))
        fl = fl if fl is not None else fl2
        flags = 0
        if fl is not None:
            import re as _re
            for n in ast.walk(fl):
                nm = n.attr if isinstance(n, ast.Attribute) else (n.id if isinstance(n, ast.Name) else None)
                if nm and nm != "re":
                    ck.need(isinstance(getattr(_re, nm, None), _re.RegexFlag), "to_exception: pattern flags `%s` not understood" % A.short(fl, 40))
                    flags |= int(getattr(_re, nm))
        try:
            tree = sre_parse.parse(pat, flags)
        except Exception as e:
            raise AnalysisError("to_exception: the pattern %r does not parse (%s)" % (pat, e))
        ngroups = tree.state.groups - 1
        names = dict(tree.state.groupdict)
        # the groups the reader takes out: m.group(i) / m[i] / m.group('name') on the match, or all of them (m.groups())
        mvars = set()
        st = tx.stmt_of(c)
        if isinstance(st, ast.Assign):
            mvars = {t.id for t in st.targets if isinstance(t, ast.Name)}
        for n in A.walk_body(tx.node):
            if isinstance(n, ast.NamedExpr) and n.value is c and isinstance(n.target, ast.Name):
                mvars.add(n.target.id)
        read = set()
        everything = False
        for n in A.walk_body(tx.node):
            base = g = None
            if isinstance(n, ast.Call) and A.call_attr(n) == "group" and n.args:
                base, gs = A.call_recv(n), list(n.args)
            elif isinstance(n, ast.Subscript) and isinstance(n.ctx, ast.Load):
                base, gs = n.value, [n.slice]
            elif isinstance(n, ast.Call) and A.call_attr(n) in ("groups", "groupdict"):
                base, gs = A.call_recv(n), []
                if base is c or (isinstance(base, ast.Name) and base.id in mvars):
                    everything = True
                continue
            else:
                continue
            if not (base is c or (isinstance(base, ast.Name) and base.id in mvars)):
                continue
            for g in gs:
                if isinstance(g, ast.Constant) and isinstance(g.value, int) and not isinstance(g.value, bool):
                    if g.value:
                        read.add(g.value)
                elif A.const_str(g) in names:
                    read.add(names[A.const_str(g)])
                else:
                    everything = True
        if everything or not read:
            read = set(range(1, ngroups + 1))
        order = sorted(read)

        def groups_reaching(exprs):
            """the groups whose text flows into one of these expressions (a group is designated by its number / name)"""
            out = set()

            def group_list(v, at_, depth=0):
                """the groups a sequence-valued expression holds, in order: `m.groups()`, `m.group(2, 3)`, a display of single
                groups, a conditional that otherwise gives Nones, or a local that stands for one of those; else None"""
                if isinstance(v, ast.Call) and A.call_attr(v) == "groups" and not v.args:
                    return list(range(1, ngroups + 1))
                if isinstance(v, ast.Call) and A.call_attr(v) == "group" and len(v.args) >= 2:
                    out_ = []
                    for g_ in v.args:
                        if isinstance(g_, ast.Constant) and isinstance(g_.value, int) and not isinstance(g_.value, bool):
                            out_.append(g_.value)
                        elif A.const_str(g_) in names:
                            out_.append(names[A.const_str(g_)])
                        else:
                            return None
                    return out_
                if isinstance(v, (ast.Tuple, ast.List)):
                    if all(A.is_none(x_) for x_ in v.elts):
                        return []
                    out_ = []
                    for x_ in v.elts:
                        g_ = None
                        if isinstance(x_, ast.Call) and A.call_attr(x_) == "group" and len(x_.args) == 1:
                            g_ = x_.args[0]
                        elif isinstance(x_, ast.Subscript):
                            g_ = x_.slice
                        if isinstance(g_, ast.Constant) and isinstance(g_.value, int) and not isinstance(g_.value, bool):
                            out_.append(g_.value)
                        elif g_ is not None and A.const_str(g_) in names:
                            out_.append(names[A.const_str(g_)])
                        else:
                            return None
                    return out_
                if isinstance(v, ast.IfExp):
                    alts = [group_list(v.body, at_, depth + 1), group_list(v.orelse, at_, depth + 1)]
                    alts = [a_ for a_ in alts if a_ != []]
                    return alts[0] if alts and all(a_ is not None and a_ == alts[0] for a_ in alts) else None
                if isinstance(v, ast.Name) and depth < 4 and at_ is not None and at_ >= 0:
                    alts = [group_list(d.value, d.node, depth + 1) for d in tx.df.reaching(at_, v.id) if not (d.value is None or A.is_none(d.value))]
                    alts = [a_ for a_ in alts if a_ != []]
                    return alts[0] if alts and all(a_ is not None and a_ == alts[0] for a_ in alts) else None
                return None

            def unpacked(x, at_, depth=0):
                """`language, module, name = m.groups()`: the i-th name stands for the i-th group of the sequence"""
                if depth > 6:
                    return
                for y in ast.walk(x):     # a single group named on the spot: m.group(2), m["module"]
                    g_ = None
                    if isinstance(y, ast.Call) and A.call_attr(y) == "group" and len(y.args) == 1:
                        g_ = y.args[0]
                    elif isinstance(y, ast.Subscript) and isinstance(y.ctx, ast.Load) and isinstance(y.value, ast.Name) and y.value.id in mvars:
                        g_ = y.slice
                    if isinstance(g_, ast.Constant) and isinstance(g_.value, int) and not isinstance(g_.value, bool) and g_.value in read:
                        out.add(g_.value)
                    elif g_ is not None and names.get(A.const_str(g_)) in read:
                        out.add(names[A.const_str(g_)])
                for nm_ in [y for y in ast.walk(x) if isinstance(y, ast.Name) and isinstance(y.ctx, ast.Load) and tx.df.is_local(y.id)]:
                    for d in tx.df.reaching(at_, nm_.id):
                        st_ = getattr(d, "stmt", None)
                        gl = group_list(st_.value, d.node) if (d.kind == "unpack" and isinstance(st_, ast.Assign)) else None
                        if gl:
                            for t in st_.targets:
                                if isinstance(t, (ast.Tuple, ast.List)):
                                    for i_, el in enumerate(t.elts):
                                        if isinstance(el, ast.Name) and el.id == nm_.id and i_ < len(gl) and gl[i_] in read:
                                            out.add(gl[i_])
                        elif d.value is not None and d.node is not None and d.node >= 0 and d.kind in ("assign", "for", "aug"):
                            unpacked(d.value, d.node, depth + 1)

            for (x, at_) in exprs:
                before = len(out)
                unpacked(x, at_)
                if len(out) > before:
                    continue     # followed precisely; the coarse dependency atoms below are the fallback
                try:
                    ds = tx.deps(x, at_)
                except AnalysisError:
                    continue
                for d in ds:
                    if d.startswith("const:"):
                        try:
                            v = ast.literal_eval(d[6:])
                        except (ValueError, SyntaxError):
                            continue
                        if isinstance(v, int) and not isinstance(v, bool) and v in read:
                            out.add(v)
                        elif isinstance(v, str) and names.get(v) in read:
                            out.add(names[v])
            return out

        imported, looked_up = [], []
        for c2 in tx.calls():
            nm2 = A.call_attr(c2)
            if not tx.nodes(c2):
                continue
            if nm2 in ("import_module", "__import__") and c2.args:
                imported.append((c2.args[0], tx.nodes(c2)[0]))
            elif nm2 == "getattr" and isinstance(c2.func, ast.Name) and len(c2.args) >= 2:
                looked_up.append((c2.args[1], tx.nodes(c2)[0]))
            elif nm2 == "attrgetter" and c2.args:
                looked_up.append((c2.args[0], tx.nodes(c2)[0]))
            elif nm2 == "reduce" and len(c2.args) >= 2 and isinstance(c2.args[0], ast.Name) and c2.args[0].id == "getattr":
                looked_up.append((c2.args[1], tx.nodes(c2)[0]))
        by_role = {"module": groups_reaching(imported), "class": groups_reaching(looked_up) - groups_reaching(imported)}
        for k, (fexpr, fat) in enumerate(fields):
            alpha, what, role = _field_alphabet(fe, fexpr, fat)
            if alpha is None:
                continue
            cand = by_role.get(role) or set()
            if len(cand) == 1:
                gid = next(iter(cand))       # by what the reader does with the group: imports it / looks it up in the module
            else:
                ck.need(len(order) == len(fields), "to_exception: which group of the pattern takes out field %d (`%s`) of the written name is not evident"
                        % (k + 1, A.short(fexpr, 40)))
                gid = order[k]
            sub = _sre_group(tree, gid)
            ck.need(sub is not None, "to_exception: group %d of the pattern not found exactly once" % gid)
            refused = [ch for ch in alpha if not _sre_accepts(sub, ch)]
            ok = not refused
            ck.ob(R, tx.key(None, "name-field-%d-read-whole" % (k + 1)), ok,
                  "group %d of the name pattern accepts every character of field %d (%s)" % (gid, k + 1, what) if ok else
                  "group %d of the name pattern %r cannot hold %s: field %d of the written name is `%s`, %s. The reader cuts the field at that character "
                  "(or refuses the name), so the replay resolves another class -- the enclosing class of a nested exception class -- or none, and raises "
                  "it instead of the recorded class" % (gid, pat, ", ".join(repr(ch) for ch in refused), k + 1, A.short(fexpr, 40), what), tx.where(c))



# ---------------------------------------------------------------------------------------------
# C02.R9  run-once needs ONE mutex per invocation for as long as anybody may still be using it
#
# Callers of one invocation serialise on the mutex the table hands out for (qualified name, argument hash).  If the
# entry can leave the table while a caller that has looked it up is still waiting on it or running under it, the next
# caller is handed a fresh mutex, does not wait, and runs the body side by side with the other one.
# The table is located by role (the module-level mapping of runner_local whose values are, or hold, locks).  An entry
# never leaving is the simplest way to satisfy the clause.  A keyed removal is accepted only under the protocol that
# makes it safe: users are COUNTED WHILE THE TABLE LOCK IS HELD -- every critical section of the table lock in which
# an entry is looked up / created also increments the entry's counter before the lock is given back, and the removal
# sits in a critical section of the table lock that decrements that counter and is reached only when it is zero.
# (A counter kept under the per-call mutex itself sees only the owner, not the callers queued on the mutex.)
# ---------------------------------------------------------------------------------------------
_LOCK_MAKERS = ("RLock", "Lock", "Semaphore", "BoundedSemaphore", "Condition")
_MAPPING_MAKERS = ("defaultdict", "dict", "OrderedDict", "WeakValueDictionary", "WeakKeyDictionary")


def _makes_lock(repo, mod, e, depth=0):
    for c in ast.walk(e):
        if not isinstance(c, ast.Call):
            continue
        nm = A.call_attr(c)
        if nm in _LOCK_MAKERS:
            return True
        if depth < 2 and isinstance(c.func, ast.Name) and c.func.id in mod.classes:
            if any(_makes_lock(repo, mod, st, depth + 1) for st in mod.classes[c.func.id].node.body):
                return True
    return False


def invocation_mutex_table(ck, mod):
    """(table name, names of the module's lock objects)"""
    tables = []
    for name, v in mod.assigns.items():
        head = A.call_attr(v) if isinstance(v, ast.Call) else ("dict" if isinstance(v, ast.Dict) else None)
        if head not in _MAPPING_MAKERS:
            continue
        locky = _makes_lock(ck.repo, mod, v)
        if not locky and isinstance(v, ast.Call) and head == "defaultdict" and v.args:
            # the factory given by name: defaultdict(RLock), defaultdict(_InvocationMutex)
            f0 = v.args[0]
            locky = _makes_lock(ck.repo, mod, ast.Call(func=f0, args=[], keywords=[]))
        if not locky:
            for fi in mod.all_funcs():
                def stored_lock(val, fi=fi):
                    if _makes_lock(ck.repo, mod, val):
                        return True
                    if isinstance(val, ast.Name):   # `m = RLock()` ... `TABLE[k] = m`
                        return any(isinstance(a, ast.Assign) and any(isinstance(t, ast.Name) and t.id == val.id for t in a.targets)
                                   and _makes_lock(ck.repo, mod, a.value) for a in A.walk_body(fi.node))
                    return False
                for n in A.walk_body(fi.node):
                    if isinstance(n, ast.Assign) and any(isinstance(t, ast.Subscript) and isinstance(t.value, ast.Name) and t.value.id == name for t in n.targets) \
                            and stored_lock(n.value):
                        locky = True
                    elif isinstance(n, ast.Call) and A.call_attr(n) == "setdefault" and isinstance(A.call_recv(n), ast.Name) and A.call_recv(n).id == name \
                            and len(n.args) == 2 and stored_lock(n.args[1]):
                        locky = True
        if locky:
            tables.append(name)
    ck.need(len(tables) == 1, "runner_local: the table of per-invocation mutexes is not evident (module-level mappings holding locks: %s)" % (tables or "none"))
    locks = {name for name, v in mod.assigns.items() if isinstance(v, ast.Call) and A.call_attr(v) in ("RLock", "Lock")}
    return tables[0], locks


def _zero_test_counter(text, pol):
    """attribute name c when the literal (text, polarity) says `<entry>.c` is zero, else None"""
    try:
        e = _parse(text)
    except SyntaxError:
        return None
    if isinstance(e, ast.UnaryOp) and isinstance(e.op, ast.Not):
        e, pol = e.operand, not pol
    if isinstance(e, ast.Attribute):
        return e.attr if not pol else None
    if isinstance(e, ast.Compare) and len(e.ops) == 1:
        l, op, r = e.left, e.ops[0], e.comparators[0]
        if isinstance(l, ast.Constant) and isinstance(r, ast.Attribute):
            mirror = {ast.Lt: ast.Gt, ast.Gt: ast.Lt, ast.LtE: ast.GtE, ast.GtE: ast.LtE}
            l, r, op = r, l, mirror.get(type(op), type(op))()
        if not (isinstance(l, ast.Attribute) and isinstance(r, ast.Constant) and isinstance(r.value, int) and not isinstance(r.value, bool)):
            return None
        v = r.value
        zero_when_true = (isinstance(op, ast.Eq) and v == 0) or (isinstance(op, ast.LtE) and v == 0) or (isinstance(op, ast.Lt) and v == 1)
        zero_when_false = (isinstance(op, ast.NotEq) and v == 0) or (isinstance(op, ast.Gt) and v == 0) or (isinstance(op, ast.GtE) and v == 1)
        if (pol and zero_when_true) or (not pol and zero_when_false):
            return l.attr
    return None


def _table_lock_with(fa, node, locks):
    """the outermost `with <table lock>:` whose body contains `node`"""
    out = None
    q = fa.pm.get(node)
    while q is not None:
        if isinstance(q, (ast.With, ast.AsyncWith)) and any(isinstance(i.context_expr, ast.Name) and i.context_expr.id in locks for i in q.items):
            out = q
        q = fa.pm.get(q)
    return out


def _counted_removal(ck, mod, table, locks, fi, drop):
    """None when the keyed removal `drop` follows the counted-users protocol, else what is wrong with it."""
    fa = FA(ck, fi)
    ids = fa.nodes(drop)
    if not ids:
        return None   # unreachable
    region = _table_lock_with(fa, drop, locks)
    if region is None:
        return "the entry is removed without holding the table lock"
    conds = fa.conditions(ids[0])
    counters = None
    for conj in (conds or [frozenset()]):
        here = {c for c in (_zero_test_counter(t, p) for (t, p) in conj) if c}
        counters = here if counters is None else (counters & here)
    if not counters:
        return "the removal is not reserved for the moment at which nobody uses the mutex (no count of its users is tested)"
    for c in sorted(counters):
        decs = [n for n in ast.walk(region) if isinstance(n, ast.AugAssign) and isinstance(n.op, ast.Sub) and isinstance(n.target, ast.Attribute) and n.target.attr == c]
        dec_ids = fa.nodes_all(decs)
        if not (dec_ids and fa.cfg.must_pass(dec_ids, ids[0])):
            why = ("the count of users (`.%s`) is not given back in the critical section of the table lock that removes the entry: it is kept under the "
                   "per-call mutex, so it only sees the caller that owns the mutex, not the callers that have looked it up and are queued on it" % c)
            continue
        # every hand-out of an entry registers the user before the table lock is given back
        why = None
        for fj in mod.all_funcs():
            fb = FA(ck, fj) if fj is not fi else fa
            for n in A.walk_body(fj.node):
                site = None
                if isinstance(n, ast.Subscript) and isinstance(n.value, ast.Name) and n.value.id == table and not isinstance(n.ctx, ast.Del):
                    site = n
                elif isinstance(n, ast.Call) and A.call_attr(n) in ("get", "setdefault", "__getitem__") and isinstance(A.call_recv(n), ast.Name) and A.call_recv(n).id == table:
                    site = n
                if site is None or not fb.nodes(site):
                    continue
                w = _table_lock_with(fb, site, locks)
                if w is not None and w is region:
                    continue   # the releasing section looking at its own entry
                incs = [x for x in (ast.walk(w) if w is not None else []) if isinstance(x, ast.AugAssign) and isinstance(x.op, ast.Add)
                        and isinstance(x.target, ast.Attribute) and x.target.attr == c]
                inc_ids = fb.nodes_all(incs)
                if not (inc_ids and all(fb.cfg.must_pass(inc_ids, fb.cfg.exit, start=i) for i in fb.nodes(site))):
                    why = ("a caller that looks the mutex up (`%s`, %s) is not counted as a user (`.%s`) before the table lock is given back: while it is "
                           "queued on the mutex the count does not include it" % (A.short(fb.stmt_of(site) or site, 50), fb.where(site), c))
                    break
            if why:
                break
        if why is None:
            return None
    return why


def check_mutex_lifetime(ck, R):
    ck.rule(R, "one mutex per invocation for as long as a caller may be using it: an entry of the per-invocation mutex table never leaves it, "
               "or leaves it only when a count of its users, kept under the table lock, says that nobody has looked it up and not finished", 1)
    mod = ck.repo.module("runner_local")
    table, locks = invocation_mutex_table(ck, mod)
    v = mod.assigns.get(table)
    weak = isinstance(v, ast.Call) and "Weak" in (A.call_attr(v) or "")
    problems = []
    if weak:
        problems.append((None, None, "it is a weak table: the mutex goes as soon as no caller holds a reference, and with it the serialisation of callers that arrive later"))
    keyed_ok = 0
    for fi in mod.all_funcs():
        rebinds = any(isinstance(n, ast.Global) and table in n.names for n in A.walk_body(fi.node))
        for n in A.walk_body(fi.node):
            recv_is_table = isinstance(n, ast.Call) and isinstance(n.func, ast.Attribute) and isinstance(n.func.value, ast.Name) and n.func.value.id == table
            if recv_is_table and n.func.attr in ("clear", "popitem"):
                problems.append((fi, n, "`%s` empties it regardless of who is using the mutexes" % A.short(n, 40)))
            elif rebinds and isinstance(n, (ast.Assign, ast.AugAssign, ast.AnnAssign)) and \
                    any(isinstance(t, ast.Name) and t.id == table for t in (n.targets if isinstance(n, ast.Assign) else [n.target])):
                problems.append((fi, n, "`%s` replaces the table regardless of who is using the mutexes" % A.short(n, 40)))
            elif (recv_is_table and n.func.attr in ("pop", "__delitem__")) or \
                    (isinstance(n, ast.Delete) and any(isinstance(t, ast.Subscript) and isinstance(t.value, ast.Name) and t.value.id == table for t in n.targets)):
                why = _counted_removal(ck, mod, table, locks, fi, n)
                if why is None:
                    keyed_ok += 1
                else:
                    problems.append((fi, n, why))
    ok = not problems
    if ok:
        msg = "the per-invocation mutex table (%s) only grows" % table if not keyed_ok else \
            "an entry of the per-invocation mutex table (%s) is removed only when its count of users, kept under the table lock, is zero" % table
        at = mod.relpath
    else:
        (fi, n, why) = problems[0]
        at = A.loc(fi, n) if fi is not None else mod.relpath
        msg = ("a per-invocation mutex can leave the table (%s) while a caller is still using it%s: %s. The next caller of the same invocation is handed a "
               "fresh mutex, does not wait, and runs the body a second time side by side with the caller that was queued on the old one"
               % (table, " (%s, `%s`)" % (fi.qual, A.short(n, 40)) if fi is not None else "", why))
    ck.ob(R, "runner_local.py::mutex-table-entries-outlive-their-users", ok, msg, at)


def check(ck):
    from .memo import check_new_memo_tables
    ck.run(check_new_memo_tables, ck, "C02.M1", ('runner_local', 'runner', 'storage_base', 'storage_filesystem', 'exception', 'base', 'metadata'))
    ck.run(check_exhaustive, ck, "C02.R1")
    ck.run(check_order, ck, "C02.R2")
    ck.run(check_run_record_replay, ck, "C02.R3")
    ck.run(check_replay, ck, "C02.R4")
    ck.run(check_exception_surface, ck, "C02.R4")
    ck.run(check_exception_name_roundtrip, ck, "C02.R11")
    ck.rule("C02.R5", "forget / memento / metadata address the same key as call(): every keyed reference construction in "
                      "base.py passes the function's own context args", 6)
    sibling_reference_sites(ck, "C02.R5")
    ck.run(check_frame_rule, ck, "C02.R6")
    ck.run(check_typed_identity, ck, "C02.R7", ("storage_base", "metadata", "runner_local", "runner"))
    ck.run(check_enum_distinct, ck, "C02.R1")
    ck.run(check_json_bytes, ck, "C02.R4", ["storage_base.DefaultCodec.JsonExceptionStrategy.encode", "storage_base.DataSourceMetadataSource.put_memento",
                                     "storage_base.DefaultCodec.PicklePartition._serialize_index"])
    from .c15 import check_slots
    ck.run(check_slots, ck, "C02.R8")
    # run-once needs one mutex per invocation for as long as a caller may hold it (shared with C09.R2)
    ck.run(check_mutex_lifetime, ck, "C02.R9")
    ck.run(check_forget_reaches_answers, ck, "C02.R10")
