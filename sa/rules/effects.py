"""Transitive effect queries over the call graph (shared by C05.R3, C07.R4, C19)."""
from typing import List, Optional, Tuple

from .. import astutil as A


def reach_effects(ck, root, stop=None, follow=None):
    """-> (fs, muts): fs = [(fi, node, chain)], muts = [(owner, field, fi, node, chain)]
    for everything reachable from `root` through the resolved call graph."""
    cg = ck.cg
    prev = {root.qual: None}
    stack = [root]
    while stack:
        f = stack.pop()
        if stop is not None and f is not root and stop(f):
            continue
        for (call, cands, how) in cg.edges.get(f.qual, []):
            for c in cands:
                if follow is not None and not follow(f, call, c, how):
                    continue
                if c.qual not in prev:
                    prev[c.qual] = f.qual
                    stack.append(c)
    fs, muts = [], []
    for q in prev:
        fi = cg.funcs[q]
        if stop is not None and fi is not root and stop(fi):
            continue
        for n in cg.fs_write_sites.get(q, []):
            fs.append((fi, n, cg.chain(prev, q)))
        for (owner, fld, n) in cg.field_mut_sites.get(q, []):
            muts.append((owner, fld, fi, n, cg.chain(prev, q)))
    return fs, muts, prev


def storage_backend_classes(ck):
    base = ck.repo.cls("storage.StorageBackend")
    return [c for c in ck.repo.subclasses(base, strict=True)]


QUERY_METHODS = (
    "get_mementos", "get_memento", "read_result", "read_metadata", "is_memoized", "is_all_memoized",
    "list_functions", "list_mementos", "make_url_for_result",
)
MUTATOR_METHODS = ("memoize", "write_metadata", "forget_call", "forget_function", "forget_everything")
