"""Transitive effect queries over the call graph (shared by C05.R3, C07.R4, C19)."""
import ast
from typing import List, Optional, Tuple

from .. import astutil as A


def reach_effects(ck, root, stop=None, follow=None):
    """-> (fs, muts): fs = [(fi, node, chain)], muts = [(owner, field, fi, node, chain)]
    for everything reachable from `root` through the resolved call graph."""
    cg = ck.cg
    prev = {root.qual: None}
    stack = [root]
    while stack:
        f = stack.pop()
        if stop is not None and f is not root and stop(f):
            continue
        for (call, cands, how) in cg.edges.get(f.qual, []):
            for c in cands:
                if follow is not None and not follow(f, call, c, how):
                    continue
                if c.qual not in prev:
                    prev[c.qual] = f.qual
                    stack.append(c)
    fs, muts = [], []
    for q in prev:
        fi = cg.funcs[q]
        if stop is not None and fi is not root and stop(fi):
            continue
        for n in cg.fs_write_sites.get(q, []):
            fs.append((fi, n, cg.chain(prev, q)))
        for (owner, fld, n) in cg.field_mut_sites.get(q, []):
            muts.append((owner, fld, fi, n, cg.chain(prev, q)))
    return fs, muts, prev


def storage_backend_classes(ck):
    base = ck.repo.cls("storage.StorageBackend")
    return [c for c in ck.repo.subclasses(base, strict=True)]


QUERY_METHODS = (
    "get_mementos", "get_memento", "read_result", "read_metadata", "is_memoized", "is_all_memoized",
    "list_functions", "list_mementos", "make_url_for_result",
)
MUTATOR_METHODS = ("memoize", "write_metadata", "forget_call", "forget_function", "forget_everything")


# ---------------------------------------------------------------------------------------------
# Path-sensitive helpers shared by C07 / C08 / C19 rules.  They let a rule state a clause as
# "under the assumption P (the override is set / the pointer exists / the backend is read-only)
# statement S is (un)reachable / variable v holds one of these values", whatever the spelling of
# the branch tests (guard clause, nested if, negation, De Morgan, flag local, conditional
# expression).
# ---------------------------------------------------------------------------------------------
_NEG_OPS = {ast.IsNot: ast.Is, ast.NotEq: ast.Eq, ast.NotIn: ast.In}


def strip_casts(e):
    """`cast(T, x)` -> x, `bool(x)` -> x (truth value), `str(x)` kept."""
    while isinstance(e, ast.Call) and isinstance(e.func, ast.Name) and (
            (e.func.id == "cast" and len(e.args) == 2) or (e.func.id == "bool" and len(e.args) == 1)) and not e.keywords:
        e = e.args[-1]
    return e


class Assume:
    """Reachability and reaching definitions of one function under assumptions about atomic conditions.

    `atom(expr)` is given an *expanded* (FA.expand: locals replaced by their unique definitions) atomic
    condition and answers True / False / None (unknown).  Branch tests and conditional expressions are
    evaluated three-valued over their atoms; an edge whose test is decided the other way is infeasible."""

    def __init__(self, fa, atom, nonnull=None):
        """`nonnull` (opt-in): names of calls whose result is an object, never None / falsy.  With it, a local used as a
        result variable (`found = None` ... `found = lookup(k)` ... `if found is None: found = write(k)`) is followed: a
        test `v is None` / `v is not None` / `v` / `not v` is decided when, under the assumptions, every definition of `v`
        that can reach it is None (resp. is a `nonnull` call or a non-None constant)."""
        self.fa = fa
        self.atom = atom
        self._t = {}
        self._in = None
        self.nonnull = tuple(nonnull) if nonnull is not None else None
        self._in1 = None
        self._busy = False

    # -- three-valued truth --------------------------------------------------------------------
    def _none_state(self, name, node_id):
        """'none' / 'value' when every definition of the local `name` that reaches `node_id` under the assumptions is
        None / an object; None when that is not known"""
        if self.nonnull is None or node_id is None or self._busy:
            return None
        if self._in1 is None:
            self.IN()
        ds = [d for d in (self._in1 or {}).get(node_id, ()) if d.name == name]
        if not ds:
            return None
        states = set()
        for d in ds:
            v = d.value
            if d.kind != "assign" or v is None:
                return None
            v = strip_casts(v)
            if isinstance(v, ast.Constant):
                states.add("none" if v.value is None else ("value" if v.value else "?"))
            elif isinstance(v, ast.Call) and A.call_attr(v) in self.nonnull:
                states.add("value")
            else:
                return None
        return states.pop() if len(states) == 1 and "?" not in states else None

    def ev(self, e, node_id=None):
        e = strip_casts(e)
        v = self.atom(e)
        if v is not None:
            return v
        if isinstance(e, ast.Constant):
            return bool(e.value)
        if self.nonnull is not None:
            if isinstance(e, ast.Call) and A.call_attr(e) in self.nonnull:
                return True
            if isinstance(e, ast.Name):
                st = self._none_state(e.id, node_id)
                if st is not None:
                    return st == "value"
            if isinstance(e, ast.Compare) and len(e.ops) == 1 and isinstance(e.ops[0], ast.Is) and A.is_none(e.comparators[0]):
                l_ = strip_casts(e.left)
                if isinstance(l_, ast.Name):
                    st = self._none_state(l_.id, node_id)
                    if st is not None:
                        return st == "none"
                if isinstance(l_, ast.Call) and A.call_attr(l_) in self.nonnull:
                    return False
        if isinstance(e, ast.UnaryOp) and isinstance(e.op, ast.Not):
            r = self.ev(e.operand, node_id)
            return None if r is None else (not r)
        if isinstance(e, ast.BoolOp):
            rs = [self.ev(v_, node_id) for v_ in e.values]
            if isinstance(e.op, ast.And):
                if any(r is False for r in rs):
                    return False
                return True if all(r is True for r in rs) else None
            if any(r is True for r in rs):
                return True
            return False if all(r is False for r in rs) else None
        if isinstance(e, ast.Compare) and len(e.ops) == 1 and type(e.ops[0]) in _NEG_OPS:
            pos = ast.Compare(left=e.left, ops=[_NEG_OPS[type(e.ops[0])]()], comparators=e.comparators)
            r = self.ev(pos, node_id)
            return None if r is None else (not r)
        if isinstance(e, ast.IfExp):
            t = self.ev(e.test, node_id)
            if t is True:
                return self.ev(e.body, node_id)
            if t is False:
                return self.ev(e.orelse, node_id)
            a, b = self.ev(e.body, node_id), self.ev(e.orelse, node_id)
            return a if a == b else None
        return None

    def truth(self, test, node_id):
        k = (id(test), node_id)
        if k not in self._t:
            try:
                e = self.fa.expand(test, node_id)
            except Exception:  # noqa - an expression the expander cannot place: unknown
                e = test
            r = self.ev(e, node_id)
            if self._busy:
                return r           # first pass of IN(): result variables not followed yet, do not remember
            self._t[k] = r
        return self._t[k]

    # -- control flow --------------------------------------------------------------------------
    def edge_ok(self, s, d, l):
        if l in ("T", "F"):
            nd = self.fa.cfg.node(s)
            if nd.kind == "test":
                t = self.truth(nd.ast, s)
                if (t is True and l == "F") or (t is False and l == "T"):
                    return False
        return True

    def reach(self, starts=None, removed=(), include_start=True):
        cfg = self.fa.cfg
        return cfg.reach([cfg.entry] if starts is None else starts, removed=removed, edge_ok=self.edge_ok, include_start=include_start)

    def live(self, astnode):
        """CFG nodes of `astnode` that are reachable from the entry under the assumptions."""
        r = self.reach()
        return [i for i in self.fa.nodes(astnode) if i in r]

    # -- inside one statement: conditional expressions and short-circuits ----------------------------
    def evaluated(self, sub, node_id):
        """Is the sub-expression `sub` evaluated when the statement at CFG node `node_id` (which contains it) runs?
        True: on every run, False: on none, None: the assumptions do not decide.  Arms of conditional expressions and
        operands behind an `and` / `or` are evaluated only when the tests before them come out accordingly, so
        `return reuse(k) if present else write(k)` is treated as the if/else statement it abbreviates."""
        pm = self.fa.pm
        top = self.fa.cfg.node(node_id).ast
        verdict = True
        n = sub
        while n is not None and n is not top and not isinstance(n, ast.stmt):
            p = pm.get(n)
            if p is None:
                break
            if isinstance(p, ast.IfExp) and n is not p.test:
                t = self.truth(p.test, node_id)
                if t is None:
                    verdict = None
                elif t != (n is p.body):
                    return False
            elif isinstance(p, ast.BoolOp) and p.values and n is not p.values[0]:
                for v in p.values:
                    if v is n:
                        break
                    t = self.truth(v, node_id)
                    if t is None:
                        verdict = None
                    elif t != isinstance(p.op, ast.And):
                        return False       # an earlier operand already decided the and / or
            elif isinstance(p, (ast.ListComp, ast.SetComp, ast.GeneratorExp, ast.DictComp)):
                first_iter = p.generators[0].iter if p.generators else None
                if n is not first_iter and not (isinstance(n, ast.comprehension) and n is p.generators[0]):
                    verdict = None         # per element
            elif isinstance(p, ast.comprehension):
                if not (n is p.iter):
                    verdict = None
            elif isinstance(p, ast.Lambda):
                verdict = None
            n = p
        return verdict

    def may_run(self, astnode):
        """CFG nodes at which `astnode` (an expression or a statement) may be evaluated under the assumptions"""
        r = self.reach()
        return [i for i in self.fa.nodes(astnode) if i in r and (isinstance(astnode, ast.stmt) or self.evaluated(astnode, i) is not False)]

    def must_run(self, astnode):
        """CFG nodes whose execution under the assumptions always evaluates `astnode`"""
        return [i for i in self.fa.nodes(astnode) if isinstance(astnode, ast.stmt) or self.evaluated(astnode, i) is True]

    # -- reaching definitions restricted to the feasible edges -----------------------------------
    def flow(self, seeds=None, removed=()):
        """IN sets of a reaching-definitions analysis over the feasible sub-graph.  `seeds` = {node: defs}
        starts the analysis at those nodes (with those definitions flowing in) instead of the entry.  A
        statement that raises has not assigned: along 'exc' edges the state *before* the statement flows.
        `removed` nodes are not entered (e.g. a loop head, to stay inside one iteration)."""
        fa = self.fa
        cfg, df = fa.cfg, fa.df
        if seeds is None:
            seeds = {cfg.entry: set()}
        region = self.reach(list(seeds), removed=removed)
        IN = {n: set() for n in region}
        OUT = {n: set() for n in region}
        for n, ds in seeds.items():
            IN[n] |= set(ds)

        def transfer(n):
            if n == cfg.entry:
                return set(df.OUT[cfg.entry])
            gen = df.gen.get(n, [])
            killed = {d.name for d in gen if d.kind != "aug"}
            out = {d for d in IN[n] if d.name not in killed and not any(d.name.startswith(k + ".") for k in killed)}
            return out | set(gen)

        work = list(region)
        while work:
            n = work.pop()
            newout = transfer(n)
            OUT[n] = newout
            for (d, l) in cfg.succ[n]:
                if d not in region or not self.edge_ok(n, d, l):
                    continue
                add = IN[n] if l == "exc" else newout
                if not add <= IN[d]:
                    IN[d] |= add
                    work.append(d)
        return IN

    def IN(self):
        if self._in is None:
            if self.nonnull is None:
                self._in = self.flow()
            else:
                # two passes: reaching definitions with result-variable tests undecided (an over-approximation), from
                # which those tests are then decided for the final pass
                self._busy = True
                try:
                    self._in1 = self.flow()
                finally:
                    self._busy = False
                self._t = {}
                self._in = self.flow()
        return self._in

    def handler_seed(self, hn):
        """Definitions that flow into an `except` head (state before the raising statement on 'exc' edges)."""
        df, cfg = self.fa.df, self.fa.cfg
        s = set()
        for (p, l) in cfg.pred[hn]:
            s |= df.IN[p] if l == "exc" else df.OUT[p]
        return s

    def cases(self, expr, node_id, IN=None, depth=10):
        """The leaf expressions `expr` (evaluated at `node_id`) may take its value from: conditional
        expressions are split (a branch the assumptions exclude is dropped), a local name is followed to all
        of its reaching plain assignments.  -> [(leaf expr, cfg node at which it is evaluated)]"""
        IN = self.IN() if IN is None else IN
        out = []
        seen = set()

        def rec(e, n, dep):
            if dep <= 0 or (id(e), n) in seen:
                out.append((e, n))
                return
            seen.add((id(e), n))
            if isinstance(e, ast.IfExp):
                t = self.truth(e.test, n)
                if t is not False:
                    rec(e.body, n, dep - 1)
                if t is not True:
                    rec(e.orelse, n, dep - 1)
                return
            if isinstance(e, ast.BoolOp) and self.nonnull is not None:
                # `a or b` is a when a is truthy, else b; `a and b` is b when a is truthy, else a
                for j, v_ in enumerate(e.values):
                    last = j == len(e.values) - 1
                    t = None if last else self.truth(v_, n)
                    stops = (t is True) if isinstance(e.op, ast.Or) else (t is False)
                    goes_on = (t is False) if isinstance(e.op, ast.Or) else (t is True)
                    if last or not goes_on:
                        rec(v_, n, dep - 1)
                    if last or stops:
                        return
                return
            if isinstance(e, ast.Name) and isinstance(e.ctx, ast.Load):
                ds = [d for d in IN.get(n, ()) if d.name == e.id]
                if ds and all(d.kind == "assign" and d.value is not None for d in ds):
                    for d in sorted(ds, key=lambda d_: d_.node):
                        rec(d.value, d.node, dep - 1)
                    return
            out.append((e, n))

        rec(expr, node_id, depth)
        return out

    def texts(self, expr, node_id, IN=None):
        """Name-independent texts of the values `expr` may take (see cases)."""
        return {self.fa.xnorm(e, n) for (e, n) in self.cases(expr, node_id, IN)}


def param_truth_atom(name, value, more=None):
    """atom function: the parameter `name` is truthy (value=True) / falsy (value=False); `more(expr)`
    decides further atoms."""
    def atom(e):
        if isinstance(e, ast.Name) and e.id == name:
            return value
        if isinstance(e, ast.Compare) and len(e.ops) == 1 and isinstance(e.ops[0], ast.Is) and isinstance(e.left, ast.Name) \
                and e.left.id == name and A.is_none(e.comparators[0]):
            return False if value else None      # truthy => not None; falsy says nothing ('' is falsy)
        return more(e) if more is not None else None
    return atom


def call_atom(names, value, more=None):
    """atom function: a call of one of the methods `names` answers `value`."""
    def atom(e):
        if isinstance(e, ast.Call) and A.call_attr(e) in names:
            return value
        return more(e) if more is not None else None
    return atom


# ---------------------------------------------------------------------------------------------
# A method as its callers see it.  Two ways of moving a method's statements elsewhere leave the
# front end's inliner behind: a decorator whose wrapper runs something before (around) the call
# of the wrapped method, and a body that only hands the operation on to a helper taking *args.
# `effective_function` undoes both, so that a rule can ask its path questions (must-pass, "what
# can run when read_only holds") of the statements that really run.
# ---------------------------------------------------------------------------------------------
def _new_quals(ck):
    q = getattr(ck, "_effects_new_quals", None)
    if q is None:
        from ..inline import new_functions
        try:
            q = {f.qual for f in new_functions(ck.repo)}
        except Exception:  # noqa
            q = set()
        ck._effects_new_quals = q
    return q


def _synthetic(fi, body, keep_decorators):
    from ..loader import FuncInfo
    src = fi.node
    node = ast.FunctionDef(name=src.name, args=src.args, body=body, decorator_list=keep_decorators, returns=src.returns, type_comment=None)
    if hasattr(src, "type_params"):
        node.type_params = []
    ast.copy_location(node, src)
    ast.fix_missing_locations(node)
    out = FuncInfo(fi.module, node, fi.qual, cls=fi.cls, parent=fi.parent)
    out.nested = dict(fi.nested)
    out.effective_of = fi
    out.parts = list(getattr(fi, "parts", [fi.qual]))     # functions whose very statements the body is made of
    return out


def _wrapper_of(dec_fi):
    """(wrapper FunctionDef, name of the wrapped-method parameter) of a decorator `def d(method): def w(self, *a, **k): ...; return w`"""
    node = dec_fi.node
    params = dec_fi.params
    if len(params) != 1:
        return None
    body = [st for st in node.body if not (isinstance(st, ast.Expr) and isinstance(st.value, ast.Constant))]
    if len(body) != 2 or not isinstance(body[0], ast.FunctionDef) or not isinstance(body[1], ast.Return) \
            or not (isinstance(body[1].value, ast.Name) and body[1].value.id == body[0].name):
        return None
    w = body[0]
    a = w.args
    if a.vararg is None or a.kwarg is None or len(a.posonlyargs + a.args) != 1 or a.kwonlyargs:
        return None
    return w, params[0]


def _apply_decorator(fi, dec_fi):
    """`fi` with the wrapper of decorator `dec_fi` put around its statements: the wrapper's body, in which the tail call
    `return method(self, *args, **kwargs)` is replaced by the statements of the method (the very nodes, so that call sites
    and effect sites recorded for the method are found in the result).  None when the decorator is not of that shape."""
    import copy
    got = _wrapper_of(dec_fi)
    if got is None:
        return None
    w, mparam = got
    recv, va, kw = w.args.args[0].arg if w.args.args else w.args.posonlyargs[0].arg, w.args.vararg.arg, w.args.kwarg.arg
    own = fi.params[0] if fi.params else None
    if own is None or fi.is_static or fi.is_classmethod:
        return None
    wb = copy.deepcopy(w.body)

    def is_tail(st):
        v = st.value if isinstance(st, (ast.Return, ast.Expr)) else None
        return isinstance(v, ast.Call) and isinstance(v.func, ast.Name) and v.func.id == mparam and len(v.args) == 2 \
            and isinstance(v.args[0], ast.Name) and v.args[0].id == recv and isinstance(v.args[1], ast.Starred) \
            and isinstance(v.args[1].value, ast.Name) and v.args[1].value.id == va and len(v.keywords) == 1 and v.keywords[0].arg is None \
            and isinstance(v.keywords[0].value, ast.Name) and v.keywords[0].value.id == kw

    holder = ast.Module(body=wb, type_ignores=[])
    tails = [st for st in ast.walk(holder) if isinstance(st, ast.Return) and is_tail(st)]
    uses = [n for n in ast.walk(holder) if isinstance(n, ast.Name) and n.id in (mparam, va, kw)]
    if len(tails) != 1 or len(uses) != 3:
        return None         # the wrapper looks at the arguments or calls the method more than once: not a plain wrapper
    # nothing may follow the tail call on its way out (it is a return), so the method's own returns mean the same in its place
    done = [False]
    mbody = [st for st in fi.node.body]

    class T(ast.NodeTransformer):
        def generic_visit(self, n):
            for f, v in ast.iter_fields(n):
                if isinstance(v, list) and any(x is tails[0] for x in v):
                    i = [k for k, x in enumerate(v) if x is tails[0]][0]
                    setattr(n, f, v[:i] + mbody + v[i + 1:])
                    done[0] = True
                    return n
            return super().generic_visit(n)

    T().visit(holder)
    if not done[0]:
        return None
    if recv != own:
        class Rn(ast.NodeTransformer):
            def visit_Name(self, n):
                return ast.copy_location(ast.Name(id=own, ctx=n.ctx), n) if n.id == recv and not any(n is y for st in mbody for y in ast.walk(st)) else n
        Rn().visit(holder)
    return holder.body


def _delegation(ck, fi):
    """`fi` does nothing but hand the operation on to one helper of its own class that is new w.r.t. the inventory (and that
    the inliner left as a call, e.g. because it takes *args): the helper's statements with its parameters bound first.
    None when `fi` is not of that shape."""
    body = [st for st in fi.node.body if not (isinstance(st, ast.Expr) and isinstance(st.value, ast.Constant))]
    if len(body) != 1 or not isinstance(body[0], (ast.Expr, ast.Return)) or fi.cls is None:
        return None
    c = body[0].value
    if not (isinstance(c, ast.Call) and isinstance(c.func, ast.Attribute) and isinstance(c.func.value, ast.Name) and fi.params and c.func.value.id == fi.params[0]):
        return None
    callee = ck.repo.find_method(fi.cls, c.func.attr)
    if callee is None or callee is fi or callee.node is None or callee.qual not in _new_quals(ck) or callee.is_static or callee.is_classmethod:
        return None
    if any(isinstance(x, (ast.Yield, ast.YieldFrom)) for x in A.walk_body(callee.node)) or callee.node.decorator_list:
        return None
    a = callee.node.args
    pos = [x.arg for x in a.posonlyargs + a.args]
    if not pos or a.kwarg is not None or pos[0] != fi.params[0]:
        return None
    pos = pos[1:]
    bind, extra = {}, []
    for i, arg in enumerate(c.args):
        if isinstance(arg, ast.Starred):
            return None
        if i < len(pos):
            bind[pos[i]] = arg
        else:
            extra.append(arg)
    if extra and a.vararg is None:
        return None
    for k in c.keywords:
        if k.arg is None or (k.arg not in pos and k.arg not in [x.arg for x in a.kwonlyargs]) or k.arg in bind:
            return None
        bind[k.arg] = k.value
    defaults = dict(zip(reversed([x.arg for x in a.posonlyargs + a.args]), reversed(a.defaults)))
    for x, d in zip(a.kwonlyargs, a.kw_defaults):
        if d is not None:
            defaults[x.arg] = d
    for p in pos + [x.arg for x in a.kwonlyargs]:
        if p not in bind:
            if p not in defaults:
                return None
            bind[p] = defaults[p]
    if a.vararg is not None:
        bind[a.vararg.arg] = ast.Tuple(elts=list(extra), ctx=ast.Load())
    own = set(fi.params)
    pre = []
    for p, v in bind.items():
        if isinstance(v, ast.Name) and v.id == p:
            continue
        if p in own:
            return None      # the helper's parameter would hide one of the method's own
        st = ast.Assign(targets=[ast.Name(id=p, ctx=ast.Store())], value=v, type_comment=None)
        ast.copy_location(st, body[0])
        pre.append(st)
    return pre + list(callee.node.body)


def effective_function(ck, fi, _depth=0):
    """-> a FuncInfo with the same qualified name whose body is what runs when `fi` is called: wrappers of decorators that are
    new w.r.t. the reference inventory applied, a body that only delegates to a new helper replaced by the helper's.  `fi`
    itself when neither applies."""
    if fi is None or fi.node is None or _depth > 3:
        return fi
    new = _new_quals(ck)
    out = fi
    body = _delegation(ck, fi)
    if body is not None:
        out = _synthetic(fi, body, list(fi.node.decorator_list))
        out.parts.append(ck.repo.find_method(fi.cls, [st for st in fi.node.body if not (isinstance(st, ast.Expr) and isinstance(st.value, ast.Constant))][0].value.func.attr).qual)
    decs = list(out.node.decorator_list)
    for d in reversed(decs):
        if not isinstance(d, ast.Name):
            continue
        # (a plain function in the class body used as a decorator there counts as well)
        dec_fi = fi.module.functions.get(d.id) or (fi.cls.methods.get(d.id) if fi.cls is not None else None)
        if dec_fi is None or dec_fi.qual not in new:
            continue
        b2 = _apply_decorator(out, dec_fi)
        if b2 is None:
            continue
        out = _synthetic(out, b2, [x for x in out.node.decorator_list if x is not d])
        out.effective_of = fi
    if out is not fi and _depth < 3 and _delegation(ck, out) is not None:
        return effective_function(ck, out, _depth + 1)
    return out
