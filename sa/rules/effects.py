"""Transitive effect queries over the call graph (shared by C05.R3, C07.R4, C19)."""
import ast
from typing import List, Optional, Tuple

from .. import astutil as A


def reach_effects(ck, root, stop=None, follow=None):
    """-> (fs, muts): fs = [(fi, node, chain)], muts = [(owner, field, fi, node, chain)]
    for everything reachable from `root` through the resolved call graph."""
    cg = ck.cg
    prev = {root.qual: None}
    stack = [root]
    while stack:
        f = stack.pop()
        if stop is not None and f is not root and stop(f):
            continue
        for (call, cands, how) in cg.edges.get(f.qual, []):
            for c in cands:
                if follow is not None and not follow(f, call, c, how):
                    continue
                if c.qual not in prev:
                    prev[c.qual] = f.qual
                    stack.append(c)
    fs, muts = [], []
    for q in prev:
        fi = cg.funcs[q]
        if stop is not None and fi is not root and stop(fi):
            continue
        for n in cg.fs_write_sites.get(q, []):
            fs.append((fi, n, cg.chain(prev, q)))
        for (owner, fld, n) in cg.field_mut_sites.get(q, []):
            muts.append((owner, fld, fi, n, cg.chain(prev, q)))
    return fs, muts, prev


def storage_backend_classes(ck):
    base = ck.repo.cls("storage.StorageBackend")
    return [c for c in ck.repo.subclasses(base, strict=True)]


QUERY_METHODS = (
    "get_mementos", "get_memento", "read_result", "read_metadata", "is_memoized", "is_all_memoized",
    "list_functions", "list_mementos", "make_url_for_result",
)
MUTATOR_METHODS = ("memoize", "write_metadata", "forget_call", "forget_function", "forget_everything")


# ---------------------------------------------------------------------------------------------
# Path-sensitive helpers shared by C07 / C08 / C19 rules.  They let a rule state a clause as
# "under the assumption P (the override is set / the pointer exists / the backend is read-only)
# statement S is (un)reachable / variable v holds one of these values", whatever the spelling of
# the branch tests (guard clause, nested if, negation, De Morgan, flag local, conditional
# expression).
# ---------------------------------------------------------------------------------------------
_NEG_OPS = {ast.IsNot: ast.Is, ast.NotEq: ast.Eq, ast.NotIn: ast.In}


def strip_casts(e):
    """`cast(T, x)` -> x, `bool(x)` -> x (truth value), `str(x)` kept."""
    while isinstance(e, ast.Call) and isinstance(e.func, ast.Name) and (
            (e.func.id == "cast" and len(e.args) == 2) or (e.func.id == "bool" and len(e.args) == 1)) and not e.keywords:
        e = e.args[-1]
    return e


class Assume:
    """Reachability and reaching definitions of one function under assumptions about atomic conditions.

    `atom(expr)` is given an *expanded* (FA.expand: locals replaced by their unique definitions) atomic
    condition and answers True / False / None (unknown).  Branch tests and conditional expressions are
    evaluated three-valued over their atoms; an edge whose test is decided the other way is infeasible."""

    def __init__(self, fa, atom, nonnull=None):
        """`nonnull` (opt-in): names of calls whose result is an object, never None / falsy.  With it, a local used as a
        result variable (`found = None` ... `found = lookup(k)` ... `if found is None: found = write(k)`) is followed: a
        test `v is None` / `v is not None` / `v` / `not v` is decided when, under the assumptions, every definition of `v`
        that can reach it is None (resp. is a `nonnull` call or a non-None constant)."""
        self.fa = fa
        self.atom = atom
        self._t = {}
        self._in = None
        self.nonnull = tuple(nonnull) if nonnull is not None else None
        self._in1 = None
        self._busy = False

    # -- three-valued truth --------------------------------------------------------------------
    def _none_state(self, name, node_id):
        """'none' / 'value' when every definition of the local `name` that reaches `node_id` under the assumptions is
        None / an object; None when that is not known"""
        if self.nonnull is None or node_id is None or self._busy:
            return None
        if self._in1 is None:
            self.IN()
        ds = [d for d in (self._in1 or {}).get(node_id, ()) if d.name == name]
        if not ds:
            return None
        states = set()
        for d in ds:
            v = d.value
            if d.kind != "assign" or v is None:
                return None
            v = strip_casts(v)
            if isinstance(v, ast.Constant):
                states.add("none" if v.value is None else ("value" if v.value else "?"))
            elif isinstance(v, ast.Call) and A.call_attr(v) in self.nonnull:
                states.add("value")
            else:
                return None
        return states.pop() if len(states) == 1 and "?" not in states else None

    def ev(self, e, node_id=None):
        e = strip_casts(e)
        v = self.atom(e)
        if v is not None:
            return v
        if isinstance(e, ast.Constant):
            return bool(e.value)
        if self.nonnull is not None:
            if isinstance(e, ast.Call) and A.call_attr(e) in self.nonnull:
                return True
            if isinstance(e, ast.Name):
                st = self._none_state(e.id, node_id)
                if st is not None:
                    return st == "value"
            if isinstance(e, ast.Compare) and len(e.ops) == 1 and isinstance(e.ops[0], ast.Is) and A.is_none(e.comparators[0]):
                l_ = strip_casts(e.left)
                if isinstance(l_, ast.Name):
                    st = self._none_state(l_.id, node_id)
                    if st is not None:
                        return st == "none"
                if isinstance(l_, ast.Call) and A.call_attr(l_) in self.nonnull:
                    return False
        if isinstance(e, ast.UnaryOp) and isinstance(e.op, ast.Not):
            r = self.ev(e.operand, node_id)
            return None if r is None else (not r)
        if isinstance(e, ast.BoolOp):
            rs = [self.ev(v_, node_id) for v_ in e.values]
            if isinstance(e.op, ast.And):
                if any(r is False for r in rs):
                    return False
                return True if all(r is True for r in rs) else None
            if any(r is True for r in rs):
                return True
            return False if all(r is False for r in rs) else None
        if isinstance(e, ast.Compare) and len(e.ops) == 1 and type(e.ops[0]) in _NEG_OPS:
            pos = ast.Compare(left=e.left, ops=[_NEG_OPS[type(e.ops[0])]()], comparators=e.comparators)
            r = self.ev(pos, node_id)
            return None if r is None else (not r)
        if isinstance(e, ast.IfExp):
            t = self.ev(e.test, node_id)
            if t is True:
                return self.ev(e.body, node_id)
            if t is False:
                return self.ev(e.orelse, node_id)
            a, b = self.ev(e.body, node_id), self.ev(e.orelse, node_id)
            return a if a == b else None
        return None

    def truth(self, test, node_id):
        k = (id(test), node_id)
        if k not in self._t:
            try:
                e = self.fa.expand(test, node_id)
            except Exception:  # noqa - an expression the expander cannot place: unknown
                e = test
            r = self.ev(e, node_id)
            if self._busy:
                return r           # first pass of IN(): result variables not followed yet, do not remember
            self._t[k] = r
        return self._t[k]

    # -- control flow --------------------------------------------------------------------------
    def edge_ok(self, s, d, l):
        if l in ("T", "F"):
            nd = self.fa.cfg.node(s)
            if nd.kind == "test":
                t = self.truth(nd.ast, s)
                if (t is True and l == "F") or (t is False and l == "T"):
                    return False
        return True

    def reach(self, starts=None, removed=(), include_start=True):
        cfg = self.fa.cfg
        return cfg.reach([cfg.entry] if starts is None else starts, removed=removed, edge_ok=self.edge_ok, include_start=include_start)

    def live(self, astnode):
        """CFG nodes of `astnode` that are reachable from the entry under the assumptions."""
        r = self.reach()
        return [i for i in self.fa.nodes(astnode) if i in r]

    # -- inside one statement: conditional expressions and short-circuits ----------------------------
    def evaluated(self, sub, node_id):
        """Is the sub-expression `sub` evaluated when the statement at CFG node `node_id` (which contains it) runs?
        True: on every run, False: on none, None: the assumptions do not decide.  Arms of conditional expressions and
        operands behind an `and` / `or` are evaluated only when the tests before them come out accordingly, so
        `return reuse(k) if present else write(k)` is treated as the if/else statement it abbreviates."""
        pm = self.fa.pm
        top = self.fa.cfg.node(node_id).ast
        verdict = True
        n = sub
        while n is not None and n is not top and not isinstance(n, ast.stmt):
            p = pm.get(n)
            if p is None:
                break
            if isinstance(p, ast.IfExp) and n is not p.test:
                t = self.truth(p.test, node_id)
                if t is None:
                    verdict = None
                elif t != (n is p.body):
                    return False
            elif isinstance(p, ast.BoolOp) and p.values and n is not p.values[0]:
                for v in p.values:
                    if v is n:
                        break
                    t = self.truth(v, node_id)
                    if t is None:
                        verdict = None
                    elif t != isinstance(p.op, ast.And):
                        return False       # an earlier operand already decided the and / or
            elif isinstance(p, (ast.ListComp, ast.SetComp, ast.GeneratorExp, ast.DictComp)):
                first_iter = p.generators[0].iter if p.generators else None
                if n is not first_iter and not (isinstance(n, ast.comprehension) and n is p.generators[0]):
                    verdict = None         # per element
            elif isinstance(p, ast.comprehension):
                if not (n is p.iter):
                    verdict = None
            elif isinstance(p, ast.Lambda):
                verdict = None
            n = p
        return verdict

    def may_run(self, astnode):
        """CFG nodes at which `astnode` (an expression or a statement) may be evaluated under the assumptions"""
        r = self.reach()
        return [i for i in self.fa.nodes(astnode) if i in r and (isinstance(astnode, ast.stmt) or self.evaluated(astnode, i) is not False)]

    def must_run(self, astnode):
        """CFG nodes whose execution under the assumptions always evaluates `astnode`"""
        return [i for i in self.fa.nodes(astnode) if isinstance(astnode, ast.stmt) or self.evaluated(astnode, i) is True]

    # -- reaching definitions restricted to the feasible edges -----------------------------------
    def flow(self, seeds=None, removed=()):
        """IN sets of a reaching-definitions analysis over the feasible sub-graph.  `seeds` = {node: defs}
        starts the analysis at those nodes (with those definitions flowing in) instead of the entry.  A
        statement that raises has not assigned: along 'exc' edges the state *before* the statement flows.
        `removed` nodes are not entered (e.g. a loop head, to stay inside one iteration)."""
        fa = self.fa
        cfg, df = fa.cfg, fa.df
        if seeds is None:
            seeds = {cfg.entry: set()}
        region = self.reach(list(seeds), removed=removed)
        IN = {n: set() for n in region}
        OUT = {n: set() for n in region}
        for n, ds in seeds.items():
            IN[n] |= set(ds)

        def transfer(n):
            if n == cfg.entry:
                return set(df.OUT[cfg.entry])
            gen = df.gen.get(n, [])
            killed = {d.name for d in gen if d.kind != "aug"}
            out = {d for d in IN[n] if d.name not in killed and not any(d.name.startswith(k + ".") for k in killed)}
            return out | set(gen)

        work = list(region)
        while work:
            n = work.pop()
            newout = transfer(n)
            OUT[n] = newout
            for (d, l) in cfg.succ[n]:
                if d not in region or not self.edge_ok(n, d, l):
                    continue
                add = IN[n] if l == "exc" else newout
                if not add <= IN[d]:
                    IN[d] |= add
                    work.append(d)
        return IN

    def IN(self):
        if self._in is None:
            if self.nonnull is None:
                self._in = self.flow()
            else:
                # two passes: reaching definitions with result-variable tests undecided (an over-approximation), from
                # which those tests are then decided for the final pass
                self._busy = True
                try:
                    self._in1 = self.flow()
                finally:
                    self._busy = False
                self._t = {}
                self._in = self.flow()
        return self._in

    def handler_seed(self, hn):
        """Definitions that flow into an `except` head (state before the raising statement on 'exc' edges)."""
        df, cfg = self.fa.df, self.fa.cfg
        s = set()
        for (p, l) in cfg.pred[hn]:
            s |= df.IN[p] if l == "exc" else df.OUT[p]
        return s

    def cases(self, expr, node_id, IN=None, depth=10):
        """The leaf expressions `expr` (evaluated at `node_id`) may take its value from: conditional
        expressions are split (a branch the assumptions exclude is dropped), a local name is followed to all
        of its reaching plain assignments.  -> [(leaf expr, cfg node at which it is evaluated)]"""
        IN = self.IN() if IN is None else IN
        out = []
        seen = set()

        def rec(e, n, dep):
            if dep <= 0 or (id(e), n) in seen:
                out.append((e, n))
                return
            seen.add((id(e), n))
            if isinstance(e, ast.IfExp):
                t = self.truth(e.test, n)
                if t is not False:
                    rec(e.body, n, dep - 1)
                if t is not True:
                    rec(e.orelse, n, dep - 1)
                return
            if isinstance(e, ast.BoolOp) and self.nonnull is not None:
                # `a or b` is a when a is truthy, else b; `a and b` is b when a is truthy, else a
                for j, v_ in enumerate(e.values):
                    last = j == len(e.values) - 1
                    t = None if last else self.truth(v_, n)
                    stops = (t is True) if isinstance(e.op, ast.Or) else (t is False)
                    goes_on = (t is False) if isinstance(e.op, ast.Or) else (t is True)
                    if last or not goes_on:
                        rec(v_, n, dep - 1)
                    if last or stops:
                        return
                return
            if isinstance(e, ast.Name) and isinstance(e.ctx, ast.Load):
                ds = [d for d in IN.get(n, ()) if d.name == e.id]
                if ds and all(d.kind == "assign" and d.value is not None for d in ds):
                    for d in sorted(ds, key=lambda d_: d_.node):
                        rec(d.value, d.node, dep - 1)
                    return
            out.append((e, n))

        rec(expr, node_id, depth)
        return out

    def texts(self, expr, node_id, IN=None):
        """Name-independent texts of the values `expr` may take (see cases)."""
        return {self.fa.xnorm(e, n) for (e, n) in self.cases(expr, node_id, IN)}


def param_truth_atom(name, value, more=None):
    """atom function: the parameter `name` is truthy (value=True) / falsy (value=False); `more(expr)`
    decides further atoms."""
    def atom(e):
        if isinstance(e, ast.Name) and e.id == name:
            return value
        if isinstance(e, ast.Compare) and len(e.ops) == 1 and isinstance(e.ops[0], ast.Is) and isinstance(e.left, ast.Name) \
                and e.left.id == name and A.is_none(e.comparators[0]):
            return False if value else None      # truthy => not None; falsy says nothing ('' is falsy)
        return more(e) if more is not None else None
    return atom


def call_atom(names, value, more=None):
    """atom function: a call of one of the methods `names` answers `value`."""
    def atom(e):
        if isinstance(e, ast.Call) and A.call_attr(e) in names:
            return value
        return more(e) if more is not None else None
    return atom
