"""C04 — the memo key is canonical in the bound argument values (structural part).

Decides: encoder / decoder / validator dispatch agreement (R1); canonical sorted-key JSON, SHA-256,
UTF-8, full hex digest (R2); normalise, then hash, then call (R3).  Injectivity and invariance over
all value pairs are not decided.
"""
import ast

from .. import astutil as A
from ..fa import FA
from .valeq import check_typed_identity
from .ladders import extract_ladder, check_ladder_order, repo_subclass_pairs

AH = "reference.ArgumentHasher"
FRA = "reference.FunctionReferenceWithArguments"
PRIMS = {"bool", "str", "int", "float"}


def _prim_test_types(test):
    """`x is None or isinstance(x, bool) or ...` -> set of type names (plus 'None')."""
    out = set()
    for a in A.test_atoms(test):
        it = A.isinstance_types(a)
        if it:
            out |= set(it[1])
        elif isinstance(a, ast.Compare) and isinstance(a.ops[0], ast.Is) and A.is_none(a.comparators[0]):
            out.add("None")
        elif isinstance(a, ast.BoolOp) and isinstance(a.op, ast.And):
            it2 = A.isinstance_types(a.values[0])
            if it2:
                out |= set(it2[1])
    return out


def _accepted_types(fa: FA):
    types = set()
    for st in fa.node.body:
        if isinstance(st, ast.If):
            types |= _prim_test_types(st.test)
    return types


def check(ck):
    from .memo import check_new_memo_tables
    ck.run(check_new_memo_tables, ck, "C04.M1", ('reference', 'base', 'serialization'))
    R1, R2, R3 = "C04.R1", "C04.R2", "C04.R3"
    ck.rule(R1, "dispatch agreement: what validate_args admits is accepted by the encoder; every type tag and every "
                "JSON-level type the encoder emits is handled by the decoder and by the canonical JSON writer", 6)
    ck.rule(R2, "canonical form: mapping entries are written in key-sorted order with the separators [ , ] { : } and no "
                "whitespace; the hash is the full hex SHA-256 of the UTF-8 bytes of that text", 6)
    ck.rule(R3, "normalise, then hash, then call: args, kwargs, context args and partial args are normalised before "
                "they are stored; the hash derives from the effective kwargs built from those normalised values", 8)
    enc = FA(ck, AH + "._encode")
    dec = FA(ck, AH + "._decode")
    nj = FA(ck, AH + "._normalized_json")
    enc_types = _accepted_types(enc)
    dec_types = _accepted_types(dec)
    nj_types = _accepted_types(nj)
    va = ck.repo.func("reference.validate_args").nested.get("validate_arg")
    ck.need(va is not None, "validate_args.validate_arg not found")
    vfa = FA(ck, va)
    r = vfa.one(vfa.returns(), "return")
    val_types = _prim_test_types(r.value)
    miss = val_types - enc_types
    ck.ob(R1, vfa.key(None, "admitted-subset-accepted"), not miss and len(val_types) >= 8,
          "validate_args admits %s, all accepted by the encoder" % sorted(val_types) if not miss else
          "validate_args admits %s which the hash encoder rejects" % sorted(miss), vfa.where())
    want = {"None", "bool", "str", "int", "float", "datetime.datetime", "datetime.date", "list", "dict", "MementoFunctionType"}
    ck.ob(R1, enc.key(None, "domain"), want <= enc_types, "the encoder accepts the documented argument domain" if want <= enc_types else
          "the hash encoder no longer accepts %s" % sorted(want - enc_types), enc.where())
    json_level = {"None", "bool", "str", "int", "float", "list", "dict"}
    for (fa, types, what) in ((dec, dec_types, "decoder"), (nj, nj_types, "canonical JSON writer")):
        ok = json_level <= types
        ck.ob(R1, fa.key(None, "json-level-types"), ok, "the %s handles every JSON-level type the encoder emits" % what if ok else
              "the %s does not handle %s, which the encoder emits" % (what, sorted(json_level - types)), fa.where())
    tags_out = set()
    keys_out = {}
    for d in [n for n in A.walk_body(enc.node) if isinstance(n, ast.Dict)]:
        ks = [A.const_str(k) for k in d.keys]
        if "_mementoType" in ks:
            tag = A.const_str(d.values[ks.index("_mementoType")])
            tags_out.add(tag)
            keys_out[tag] = set(ks)
    tags_in = set()
    for n in A.walk_body(dec.node):
        if isinstance(n, ast.Compare) and isinstance(n.ops[0], ast.Eq) and A.const_str(n.comparators[0]) is not None \
                and dec.nodes(n) and dec.xnorm(n.left, dec.nodes(n)[0]).endswith("['_mementoType']"):
            tags_in.add(A.const_str(n.comparators[0]))
    ck.ob(R1, dec.key(None, "tags"), tags_out == tags_in and {"datetime", "date", "FunctionReference"} <= tags_out, "type tags agree: %s" % sorted(tags_out) if tags_out == tags_in else
          "type tags differ: encoder emits %s, decoder handles %s" % (sorted(tags_out), sorted(tags_in)), dec.where())
    keys_in = {A.const_str(n.slice) for n in A.walk_body(dec.node) if isinstance(n, ast.Subscript) and A.norm(n.value) == "arg" and A.const_str(n.slice)}
    all_out = set().union(*keys_out.values()) if keys_out else set()
    ck.ob(R1, dec.key(None, "tagged-object-keys"), keys_in == all_out, "tagged objects are read with the keys they are written with" if keys_in == all_out else
          "tagged-object keys differ: written %s, read %s" % (sorted(all_out), sorted(keys_in)), dec.where())
    # the spec keys
    spec = {"datetime": {"_mementoType", "iso8601"}, "date": {"_mementoType", "iso8601"},
            "FunctionReference": {"_mementoType", "qualifiedName", "partialArgs", "partialKwargs", "parameterNames"}}
    # the tag key is reserved: a plain dict that carries it must not leave the encoder looking like a tagged
    # object (it would share the argument hash of the date / reference it imitates and be decoded into it)
    dict_ifs = [i for i in enc.stmts(ast.If) if A.isinstance_types(i.test) and "dict" in A.isinstance_types(i.test)[1]]
    edi = enc.one(dict_ifs, "dict branch of the hash encoder")
    tag_tests = [n.id for n in enc.cfg.nodes if n.kind == "test" and isinstance(n.ast, ast.Compare) and len(n.ast.ops) == 1
                 and isinstance(n.ast.ops[0], (ast.In, ast.NotIn)) and A.const_str(n.ast.left) == "_mementoType" and enc.inside(n.ast, edi)]
    plain = [r_ for r_ in enc.returns() if enc.inside(r_, edi) and r_.value is not None and not (
        isinstance(r_.value, ast.Dict) and "_mementoType" in [A.const_str(k_) for k_ in r_.value.keys])]
    okt = bool(tag_tests) and bool(plain)
    for t_ in tag_tests:
        neg = isinstance(enc.cfg.node(t_).ast.ops[0], ast.NotIn)
        via_has_key = enc.cfg.reach([t_], edge_ok=lambda s_, d_, l_, t_=t_, neg=neg: not (s_ == t_ and l_ == ("T" if neg else "F")), include_start=False)
        if any(i in via_has_key for r_ in plain for i in enc.nodes(r_)):
            okt = False
    ck.ob(R1, enc.key(edi, "tag-key-reserved"), okt,
          "a plain dict that contains the tag key is wrapped / rejected, never passed through as it is" if okt else
          "the dict branch of the hash encoder passes a mapping that contains '_mementoType' through unchanged: {'_mementoType': 'date', 'iso8601': ...} "
          "gets the argument hash of the date it imitates and reaches the function as a date", enc.where(edi))
    oks = all(keys_out.get(t) == k for t, k in spec.items())
    ck.ob(R1, enc.key(None, "spec-keys"), oks, "tagged objects use the documented cross-language field names" if oks else
          "tagged-object fields deviate from the documented encoding: %s" % {t: sorted(v) for t, v in keys_out.items()}, enc.where())
    pairs = repo_subclass_pairs(ck)
    lad = extract_ladder(enc.node)
    n = check_ladder_order(ck, R1, enc, lad, pairs, "hash-encode")
    ck.need(n >= 1, "hash encoder ladder: datetime/date order not comparable")
    iso = [c for c in enc.calls("isoformat")]
    ck.ob(R1, enc.key(None, "iso8601"), len(iso) == 2, "dates and datetimes are written as isoformat()" if len(iso) == 2 else
          "date/datetime encoding no longer uses isoformat()", enc.where())

    # ---- R2
    dict_if = [i for i in nj.stmts(ast.If) if A.isinstance_types(i.test) and "dict" in A.isinstance_types(i.test)[1]]
    di = nj.one(dict_if, "dict branch of _normalized_json")
    comps = [c for c in A.walk_local(di) if isinstance(c, (ast.ListComp, ast.GeneratorExp))]
    ok = len(comps) == 1
    if ok:
        it = comps[0].generators[0].iter
        srt = [c for c in ast.walk(it) if isinstance(c, ast.Call) and A.call_attr(c) == "sorted"]
        ok = len(srt) == 1 and "obj.items()" in A.norm(srt[0].args[0])
        if ok:
            k = A.kwarg(srt[0], "key")
            ok = k is None or A.norm(k) in ("lambda t: t[0]", "lambda kv: kv[0]", "operator.itemgetter(0)", "itemgetter(0)")
            ok = ok and A.kwarg(srt[0], "reverse") is None
    ck.ob(R2, nj.key(di, "sorted-by-key"), ok, "mapping entries are written in ascending key order" if ok else
          "mapping entries are not written in key-sorted order: insertion order changes the hash", nj.where(di))
    lits = set(A.strings_in(ast.Module(body=[s for s in nj.node.body if isinstance(s, ast.If)], type_ignores=[])))
    seps = {s for s in lits if len(s) <= 2 and not s.isalnum()}
    ck.ob(R2, nj.key(None, "separators"), seps == {"[", ",", "]", "{", ":", "}"}, "separators are exactly [ , ] { : } with no whitespace" if seps == {"[", ",", "]", "{", ":", "}"} else
          "canonical JSON separators are %s" % sorted(seps), nj.where())
    kd = [c for c in A.calls_in(di) if A.call_dotted(c) == "json.dumps"]
    okk = len(kd) == 1 and [A.norm(a) for a in kd[0].args] == [A.norm(comps[0].generators[0].target.elts[0])] if ok and isinstance(comps[0].generators[0].target, ast.Tuple) else False
    ck.ob(R2, nj.key(di, "keys-json-quoted"), bool(okk), "keys are JSON string literals" if okk else "mapping keys are not written with json.dumps(key)", nj.where(di))
    prim = [i for i in nj.stmts(ast.If) if "None" in _prim_test_types(i.test)]
    okp = len(prim) == 1 and any(isinstance(s, ast.Return) and A.norm(s.value) == "json.dumps(obj)" for s in prim[0].body)
    ck.ob(R2, nj.key(None, "primitives"), okp, "primitives are written by json.dumps" if okp else "primitives are not written with json.dumps(obj)", nj.where())
    rec = [c for c in nj.calls("_normalized_json")]
    ck.ob(R2, nj.key(None, "recursive"), len(rec) >= 2, "lists and mappings recurse" if len(rec) >= 2 else "nested values are not normalised recursively", nj.where())
    ch = FA(ck, AH + ".compute_hash")
    sha = ch.calls("sha256")
    oka = len(sha) == 1 and A.call_dotted(sha[0]) == "hashlib.sha256"
    ck.ob(R2, ch.key(None, "sha256"), oka, "SHA-256" if oka else "the argument hash is not hashlib.sha256", ch.where())
    up = ch.one(ch.calls("update"), "digest update")
    d = ch.deps(up.args[0])
    oku = "call:_normalized_json" in d and "call:_encode" in d and "param:effective_kwargs" in d and "const:'utf-8'" in d
    ck.ob(R2, ch.key(up, "input"), oku, "the digest input is utf-8(normalized_json(encode(effective kwargs)))" if oku else
          "the digest input is not the UTF-8 canonical JSON of the encoded effective kwargs", ch.where(up))
    rets = ch.returns()
    okr = len(rets) == 1 and "call:hexdigest" in ch.deps(rets[0].value) and not any(isinstance(n, ast.Subscript) for s in ch.stmts(ast.Assign) for n in ast.walk(s.value) if "hexdigest" in A.norm(s.value))
    ck.ob(R2, ch.key(None, "full-hex"), okr, "the full lowercase hex digest is the hash" if okr else "the argument hash is truncated or not the hex digest", ch.where())

    # ---- R3
    nm = FA(ck, AH + ".normalize")
    rr = nm.returns()
    okn = bool(rr) and "call:_decode" in nm.deps(rr[0].value) and "call:_encode" in nm.deps(rr[0].value)
    ck.ob(R3, nm.key(None), okn, "normalize = decode(encode(x))" if okn else "normalize is no longer decode(encode(x))", nm.where())
    ini = FA(ck, FRA + ".__init__")
    for field, src in (("args", "args"), ("kwargs", "kwargs"), ("context_args", "context_args")):
        st = [s for s in ini.stmts(ast.Assign) if any(A.dotted(t) == "self." + field for t in s.targets)]
        ok = len(st) == 1
        if ok:
            d = ini.deps(st[0].value)
            ok = "call:normalize" in d and ("param:" + src) in d
        ck.ob(R3, ini.key(None, "normalised-" + field), ok, "self.%s holds the normalised values" % field if ok else
              "self.%s is stored without ArgumentHasher.normalize: the body sees other values than the key was computed from" % field, ini.where())
    ek = [s for s in ini.stmts(ast.Assign) if any(A.dotted(t) == "self.effective_kwargs" for t in s.targets)]
    okE = len(ek) == 1 and A.norm(ek[0].value) == "self._compute_effective_kwargs()"
    # computed after the normalised fields are set
    if okE:
        for field in ("args", "kwargs"):
            st = [s for s in ini.stmts(ast.Assign) if any(A.dotted(t) == "self." + field for t in s.targets)]
            okE = okE and all(ini.cfg.must_pass(ini.nodes_all(st), i) for i in ini.nodes(ek[0]))
    ck.ob(R3, ini.key(None, "effective-after-normalise"), okE, "effective kwargs are computed from the normalised fields" if okE else
          "effective_kwargs is computed before / without the normalised args and kwargs", ini.where())
    ekc = [s for s in ini.stmts(ast.Assign) if any(A.dotted(t) == "self.effective_kwargs_with_context_args" for t in s.targets)]
    okC = len(ekc) == 1 and ek and all(ini.cfg.must_pass(ini.nodes(ek[0]), i) for i in ini.nodes(ekc[0]))
    ah = [s for s in ini.stmts(ast.Assign) if any(A.dotted(t) == "self.arg_hash" for t in s.targets)]
    okC = okC and len(ah) == 1 and all(ini.cfg.must_pass(ini.nodes(ekc[0]), i) for i in ini.nodes(ah[0]))
    ck.ob(R3, ini.key(None, "hash-after-effective"), bool(okC), "the hash is computed from the effective kwargs (+ context args)" if okC else
          "arg_hash is not computed after effective_kwargs / effective_kwargs_with_context_args", ini.where())
    ce = FA(ck, FRA + "._compute_effective_kwargs")
    cfg = ce.cfg
    # roles, not names: RES is the local that is returned; everything else is compared on expansions
    rt = ce.returns()
    RES = rt[0].value.id if len(rt) == 1 and isinstance(rt[0].value, ast.Name) else None
    ck.ob(R3, ce.key(None, "returns-result"), RES is not None, "the bound mapping is returned" if RES else "the bound mapping is not what is returned", ce.where())
    start = [s for s in ce.stmts(ast.Assign) if any(isinstance(t, ast.Name) and t.id == RES for t in s.targets)]
    ok1 = len(start) == 1 and ce.xnorm(start[0].value) == "dict(self.fn_reference.partial_kwargs)"
    ck.ob(R3, ce.key(None, "starts-from-partial-kwargs"), ok1, "effective kwargs start from a copy of the partial kwargs" if ok1 else
          "effective kwargs do not start from a copy of the reference's partial kwargs", ce.where())
    sets = [s for s in ce.stmts(ast.Assign) if any(isinstance(t, ast.Subscript) and A.norm(t.value) == RES for t in s.targets)]
    pairs = set()
    rem_name = None
    for s_ in sets:
        t_ = s_.targets[0]
        if isinstance(t_.slice, ast.Subscript) and isinstance(s_.value, ast.Subscript) and A.norm(t_.slice.slice) == A.norm(s_.value.slice):
            at = ce.nodes(s_)[0]
            nm, vl = ce.xnorm(t_.slice.value, at), ce.xnorm(s_.value.value, at)
            if vl == "self.args" and isinstance(t_.slice.value, ast.Name):
                rem_name = t_.slice.value.id
                rd = ce.df.reaching(at, rem_name)
                nm = "<remaining>" if len(rd) == 1 and isinstance(rd[0].value, ast.ListComp) else nm
            pairs.add((nm, vl))
        else:
            pairs.add((A.norm(t_), A.norm(s_.value)))
    ok2 = pairs == {("self.fn_reference.parameter_names", "self.fn_reference.partial_args"), ("<remaining>", "self.args")}
    ck.ob(R3, ce.key(None, "positional-by-name"), ok2, "partial and positional args are bound to parameter names in order" if ok2 else
          "positional arguments are not bound as result[names[i]] = values[i]: %s" % sorted(pairs), ce.where())
    rem = [s for s in ce.stmts(ast.Assign) if rem_name is not None and any(isinstance(t, ast.Name) and t.id == rem_name for t in s.targets)]
    ok3 = False
    if len(rem) == 1 and isinstance(rem[0].value, ast.ListComp) and len(rem[0].value.generators) == 1:
        g_ = rem[0].value.generators[0]
        tv = g_.target.id if isinstance(g_.target, ast.Name) else None
        ok3 = tv is not None and ce.xnorm(g_.iter, ce.nodes(rem[0])[0]) == "self.fn_reference.parameter_names" \
            and [A.norm(c) for c in g_.ifs] == ["%s not in %s" % (tv, RES)] and A.norm(rem[0].value.elt) == tv
    ck.ob(R3, ce.key(None, "remaining-names"), ok3, "positional args fill the parameters not yet bound, in order" if ok3 else
          "remaining parameter names are not [name for name in parameter_names if name not in result]", ce.where())
    upd = [c for c in ce.calls("update") if A.norm(A.call_recv(c)) == RES]
    ok4 = len(upd) == 1 and [A.norm(a) for a in upd[0].args] == ["self.kwargs"]
    if ok4:
        # kwargs are applied last: no positional binding after the update
        late = [s for s in sets if set(ce.nodes(s)) & cfg.reach(ce.nodes(upd[0]), include_start=False)]
        ok4 = not late
    ck.ob(R3, ce.key(None, "kwargs-last"), ok4, "keyword arguments are applied last" if ok4 else
          "keyword arguments are not merged last with result.update(self.kwargs)", ce.where())
    fr = FA(ck, "reference.FunctionReference.__init__")
    for field in ("_partial_args", "_partial_kwargs"):
        st = [s for s in fr.stmts(ast.Assign) if any(A.dotted(t) == "self." + field for t in s.targets)]
        ok = len(st) == 1 and "call:normalize" in fr.deps(st[0].value)
        ck.ob(R3, fr.key(None, "normalised" + field), ok, "partial arguments are normalised on the reference" if ok else
              "self.%s is stored without normalisation" % field, fr.where())
    pn = [s for s in fr.stmts(ast.Assign) if any(A.dotted(t) == "self.parameter_names" for t in s.targets)]
    okpn = any("inspect.signature(memento_fn.fn).parameters.keys()" in A.norm(s.value) for s in pn)
    ck.ob(R3, fr.key(None, "parameter-names"), okpn, "parameter names come from the function's signature, in order" if okpn else
          "parameter_names are not list(inspect.signature(memento_fn.fn).parameters.keys())", fr.where())
    # the canonical writer and the encoder never re-bind (coerce) the value they are given
    for f_ in (nj, enc):
        prm = f_.fi.params[0]
        rebinds = [s_ for s_ in f_.stmts((ast.Assign, ast.AugAssign)) if any(isinstance(t, ast.Name) and t.id == prm for t in (s_.targets if isinstance(s_, ast.Assign) else [s_.target]))]
        ck.ob(R2, f_.key(None, "no-coercion"), not rebinds, "the value is written as given" if not rebinds else
              "`%s` coerces the value before it is written: values of different type (2 and 2.0) get the same canonical text and share a memo key"
              % A.short(rebinds[0], 60), f_.where(rebinds[0] if rebinds else None))
    pa = FA(ck, "base.MementoFunctionBase.partial")
    # containers that partial() mutates are fresh copies, never aliases of the parent reference's state
    for c in pa.calls():
        if A.call_attr(c) in ("update", "append", "extend", "setdefault", "insert") and isinstance(A.call_recv(c), ast.Name):
            nm = A.call_recv(c).id
            for i in pa.nodes(c):
                for d in pa.df.reaching(i, nm):
                    v = d.value
                    fresh = isinstance(v, (ast.Dict, ast.List, ast.DictComp, ast.ListComp)) or \
                        (isinstance(v, ast.Call) and A.call_attr(v) in ("dict", "list", "copy", "deepcopy")) or \
                        (isinstance(v, ast.IfExp) and all(isinstance(x, (ast.Dict, ast.List)) or (isinstance(x, ast.Call) and A.call_attr(x) in ("dict", "list", "copy")) for x in (v.body, v.orelse)))
                    ck.ob(R3, pa.key(c, "mutates-fresh-copy:" + nm), fresh, "%s is a fresh copy before it is updated" % nm if fresh else
                          "`%s` updates `%s`, which can be the parent reference's own dict (`%s`): deriving a second partial silently changes the key "
                          "and the bound arguments of the first" % (A.short(c, 40), nm, A.short(v, 50)), pa.where(c))
    cw = [c for c in pa.calls("clone_with")]
    okpa = len(cw) == 1 and isinstance(A.kwarg(cw[0], "partial_args"), ast.Name) and isinstance(A.kwarg(cw[0], "partial_kwargs"), ast.Name)
    if okpa:
        PA, PK = A.kwarg(cw[0], "partial_args").id, A.kwarg(cw[0], "partial_kwargs").id
        at = pa.nodes(cw[0])[0]
        da = pa.df.reaching(at, PA)
        # existing positionals first, the new ones appended
        aug = [d for d in da if d.kind == "aug" and isinstance(d.stmt.op, ast.Add) and A.norm(d.value) == "partial_args"]
        base = [d for d in da if d.kind == "assign"]
        okpa = len(aug) == 1 and len(base) == 1 and pa.xnorm(base[0].value, base[0].node) == "self.fn_reference().partial_args or ()"
        dk = [d for d in pa.df.reaching(at, PK) if d.kind == "assign"]
        upd = [c for c in pa.calls("update") if A.norm(A.call_recv(c)) == PK and [A.norm(a) for a in c.args] == ["partial_kwargs"]]
        okpa = okpa and len(dk) == 1 and "self.fn_reference().partial_kwargs" in pa.xnorm(dk[0].value, dk[0].node) and len(upd) == 1 \
            and all(pa.cfg.must_pass(pa.nodes(upd[0]), i) for i in pa.nodes(cw[0]))
    ck.ob(R3, pa.key(None, "accumulates"), okpa, "partial() appends positional and updates keyword partials on a clone" if okpa else
          "partial() no longer accumulates (existing partials + new ones) into the clone", pa.where())
    ck.run(check_typed_identity, ck, "C04.R4", ("reference", "base"))
    from .c16 import sibling_reference_sites
    ck.rule("C04.R5", "every keyed reference construction in base.py (call, call_batch, forget, memento, metadata) passes the function's context args, so all entry points compute the same key", 6)
    sibling_reference_sites(ck, "C04.R5")
