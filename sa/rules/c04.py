"""C04 — the memo key is canonical in the bound argument values (structural part).

Decides: encoder / decoder / validator dispatch agreement (R1); canonical sorted-key JSON, SHA-256,
UTF-8, full hex digest (R2); normalise, then hash, then call (R3).  Injectivity and invariance over
all value pairs are not decided.

The clauses are decided on roles and flows: type sets are collected from every test on the value
(whatever the shape of the ladder), results are read per path class (`result_cases`), the constructor
is looked at with its private helpers flattened in (`c16.flat_method`), objects are followed to the
definition that created them (`c16.origin`), strings through `astutil.str_parts`.
"""
import ast

from .. import astutil as A
from ..fa import FA
from ..loader import AnalysisError
from .valeq import check_typed_identity
from .ladders import extract_ladder, check_ladder_order, repo_subclass_pairs
from .c16 import (subst_names, FlatInit, is_empty_value, never_rebound_display, outliving_state_reads, canon_conj, conds, fexpand, ftext, is_copy_of, lit_expr, map_shape, origin, same_def, single_def, strip_cast, _ref_name)

AH = "reference.ArgumentHasher"
FRA = "reference.FunctionReferenceWithArguments"
PRIMS = {"bool", "str", "int", "float"}
TAG = "_mementoType"


def _subject_is(fa, e, param):
    """does expression `e` (inside fa) denote the parameter `param`?"""
    if isinstance(e, ast.Name) and e.id == param:
        return True
    ids = fa.nodes(e)
    try:
        return bool(ids) and fa.xnorm(e, ids[0]) == param
    except AnalysisError:
        return False


def _type_names(fa, t):
    """the type names an isinstance() classinfo stands for: a type, a tuple of types (nested tuples flattened),
    or the name of a local / module-level constant bound to such a tuple"""
    if isinstance(t, ast.Tuple):
        out = set()
        for e in t.elts:
            out |= _type_names(fa, e)
        return out
    if isinstance(t, ast.Name):
        v = None
        ids = fa.nodes(t)
        if ids:
            ds = fa.df.reaching(ids[0], t.id)
            if len(ds) == 1 and ds[0].kind == "assign" and isinstance(ds[0].value, ast.Tuple):
                v = ds[0].value
            elif len(ds) == 1 and ds[0].kind == "for" and isinstance(getattr(ds[0].stmt, "target", None), ast.Name) and ds[0].value is not None:
                # the variable of a loop over a collection of types: tested against each of them in turn
                return _each_of(fa, ds[0].value)
            elif not ds:
                mv = getattr(fa.fi.module, "assigns", {}).get(t.id)
                if isinstance(mv, ast.Tuple):
                    v = mv
        if v is not None:
            return _type_names(fa, v)
        # the variable of a comprehension over a collection of types (`any(isinstance(x, t) for t in TYPES)`)
        p = fa.pm.get(t)
        while p is not None and not isinstance(p, ast.stmt):
            if isinstance(p, (ast.GeneratorExp, ast.ListComp, ast.SetComp)):
                for g in p.generators:
                    if isinstance(g.target, ast.Name) and g.target.id == t.id:
                        return _each_of(fa, g.iter)
            p = fa.pm.get(p)
    if isinstance(t, ast.Attribute) and isinstance(t.value, ast.Name) and fa.fi.cls is not None \
            and t.value.id in ("self", "cls", fa.fi.cls.name):
        # a constant of the function's own class
        vals = [st.value for st in fa.fi.cls.node.body
                if (isinstance(st, ast.Assign) and any(isinstance(x, ast.Name) and x.id == t.attr for x in st.targets))
                or (isinstance(st, ast.AnnAssign) and isinstance(st.target, ast.Name) and st.target.id == t.attr and st.value is not None)]
        if len(vals) == 1 and isinstance(vals[0], ast.Tuple):
            return _type_names(fa, vals[0])
    return {A.norm(t)}


def _each_of(fa, it):
    """the type names a collection of types that is iterated over stands for (a tuple / list / set display, or a
    name bound to one); the collection's own text if it cannot be opened up"""
    if isinstance(it, (ast.Tuple, ast.List, ast.Set)):
        out = set()
        for e in it.elts:
            out |= _type_names(fa, e)
        return out
    if isinstance(it, ast.Name):
        ids = fa.nodes(it)
        ds = fa.df.reaching(ids[0], it.id) if ids else []
        if len(ds) == 1 and ds[0].kind == "assign" and isinstance(ds[0].value, (ast.Tuple, ast.List, ast.Set)):
            return _each_of(fa, ds[0].value)
        mv = getattr(fa.fi.module, "assigns", {}).get(it.id) if not ds else None
        if isinstance(mv, (ast.Tuple, ast.List, ast.Set)):
            return _each_of(fa, mv)
    return {"each of " + A.norm(it)}


def _value_types(fa, param):
    """Every type the function tests its value parameter against, wherever the test is written (an `or`
    chain, a tuple, an if / elif ladder, guard clauses, a returned boolean expression): set of type names,
    plus 'None' for an identity test against None."""
    out = set()
    for n in A.walk_body(fa.node):
        if isinstance(n, ast.Call) and isinstance(n.func, ast.Name) and n.func.id == "isinstance" and len(n.args) == 2 and _subject_is(fa, n.args[0], param):
            out |= _type_names(fa, n.args[1])
        elif isinstance(n, ast.Compare) and len(n.ops) == 1 and isinstance(n.ops[0], (ast.Is, ast.IsNot, ast.Eq, ast.NotEq)) \
                and A.is_none(n.comparators[0]) and _subject_is(fa, n.left, param):
            out.add("None")
    return out


def _validator_predicate(ck):
    """The predicate validate_args applies to every value, found by what it does: the function (nested in
    validate_args or at module level beside it) whose negative answer on a value is what the AssertionError
    paths of validate_args are conditioned on."""
    host = ck.repo.func("reference.validate_args")
    fa = FA(ck, host)
    seen = {}
    for r in fa.stmts(ast.Raise):
        if not fa.nodes(r):
            continue
        for conj in conds(fa, r):
            for (t, p) in conj:
                e, pol = lit_expr(t, p)
                if isinstance(e, ast.Call) and isinstance(e.func, ast.Name) and not pol and len(e.args) == 1 and not e.keywords:
                    seen.setdefault(e.func.id, set()).add(id(r))
    cands = []
    for name in seen:
        fi = host.nested.get(name) or host.module.functions.get(name)
        if fi is not None and len(fi.params) == 1:
            cands.append(fi)
    if len(cands) != 1:
        # not conditioned on a call (the predicate was written out in place): the nested function, if there is one
        vas = host.nested
        cands = [vas["validate_arg"]] if "validate_arg" in vas else (list(vas.values()) if len(vas) == 1 else [])
    ck.need(len(cands) == 1, "validate_args: the predicate that decides which values are admitted was not found")
    return cands[0]


def result_cases(fa):
    """What the function returns under which path condition: [(conjunct, value expression, node)].  A single
    exit that returns a local assigned on several branches is split into those assignments, a conditional
    expression into its two cases."""
    out = []

    def split(conj, v, at):
        try:
            e = strip_cast(fa.expand(v, at))
        except AnalysisError:
            e = v
        if isinstance(e, ast.IfExp):
            for pol, branch in ((True, e.body), (False, e.orelse)):
                extra = canon_conj(fa._atoms(e.test, at, pol))
                if any((t, not p) in conj for (t, p) in extra):
                    continue
                split(frozenset(conj | extra), branch, at)
            return
        out.append((conj, e if e is not v else v, at))

    for r in fa.returns():
        ids = fa.nodes(r)
        if not ids or r.value is None:
            continue
        v = r.value
        if isinstance(v, ast.Name):
            ds = fa.df.reaching(ids[0], v.id)
            if len(ds) > 1 and all(d.kind == "assign" and d.value is not None for d in ds):
                for d in ds:
                    for conj in conds(fa, d.node):
                        split(conj, d.value, d.node)
                continue
        for conj in conds(fa, ids[0]):
            split(conj, v, ids[0])
    return out


def _tagged(e):
    """{'_mementoType': T, ...} / dict(_mementoType=T, ...) -> (T, {key: value expr}); else None"""
    if isinstance(e, ast.Dict):
        ks = [A.const_str(k) if k is not None else None for k in e.keys]
        if TAG in ks:
            return A.const_str(e.values[ks.index(TAG)]), {k: v for k, v in zip(ks, e.values) if k is not None}
    if isinstance(e, ast.Call) and isinstance(e.func, ast.Name) and e.func.id == "dict" and not e.args and any(k.arg == TAG for k in e.keywords):
        kv = {k.arg: k.value for k in e.keywords if k.arg is not None}
        return A.const_str(kv[TAG]), kv
    return None


def _isinstance_lit(text, param, typ):
    e, _ = lit_expr(text, True)
    if isinstance(e, ast.Call) and isinstance(e.func, ast.Name) and e.func.id == "isinstance" and len(e.args) == 2 and A.norm(e.args[0]) == param:
        t = e.args[1]
        return typ in ({A.norm(x) for x in t.elts} if isinstance(t, ast.Tuple) else {A.norm(t)})
    return False


def _leaves(e):
    """the alternatives an expression chooses between, through `a or b`, conditional expressions and copying wrappers"""
    e = strip_cast(e)
    if isinstance(e, ast.BoolOp) and isinstance(e.op, ast.Or):
        return [x for v in e.values for x in _leaves(v)]
    if isinstance(e, ast.IfExp):
        return _leaves(e.body) + _leaves(e.orelse)
    src = is_copy_of(e)
    if src is not None:
        return _leaves(src)
    if isinstance(e, ast.Call) and isinstance(e.func, ast.Name) and e.func.id in ("tuple", "list") and len(e.args) == 1 and not e.keywords:
        return _leaves(e.args[0])
    return [e]


def _existing_or_empty(es, existing):
    """the expressions `es` (alternatives on different paths) are the existing value, or an empty container
    where there is none"""
    es = es if isinstance(es, list) else [es]
    lv = [A.norm(x) for e in es for x in _leaves(e)]
    return existing in lv and all(x == existing or x in ("()", "{}", "[]", "tuple()", "dict()", "list()") for x in lv)


# ------------------------------------------------------------------------------------------------
# how a tuple / a mapping is put together along the paths of a function (abstract evaluation, nothing is run)
# ------------------------------------------------------------------------------------------------
_NONE, _EMPTY, _FULL = "none", "empty", "nonempty"
_ALL3 = frozenset((_NONE, _EMPTY, _FULL))


class _PState:
    __slots__ = ("env", "heap", "facts", "flaws")

    def __init__(self, env, heap, facts, flaws):
        self.env, self.heap, self.facts, self.flaws = env, heap, facts, flaws

    def set(self, **kw):
        st = _PState(self.env, self.heap, self.facts, self.flaws)
        for k, v in kw.items():
            setattr(st, k, v)
        return st

    def bind(self, name, val):
        env = dict(self.env)
        env[name] = val
        return self.set(env=env)

    def restrict(self, atom, allowed):
        cur = self.facts.get(atom, _ALL3) & frozenset(allowed)
        if not cur:
            return None
        facts = dict(self.facts)
        facts[atom] = cur
        return self.set(facts=facts)

    def new_map(self, layers):
        oid = len(self.heap)
        heap = dict(self.heap)
        heap[oid] = tuple(layers)
        return ("map", oid), self.set(heap=heap)

    def extend_map(self, oid, layers):
        heap = dict(self.heap)
        heap[oid] = heap[oid] + tuple(layers)
        return self.set(heap=heap)

    def flaw(self, what):
        return self.set(flaws=self.flaws + (what,))


class PathComposition:
    """What the tuples and mappings of a function are made of, per path class.  The function is followed along its
    acyclic paths from the entry to a target node with an environment of abstract values — ('atom', text): a value
    the function did not build (text with the local names substituted away); ('seq', parts): a concatenation of such
    values; ('map', id): a mapping created here, with the layers that were poured into it in order — and, per
    atom, what the branch tests taken so far say about it (None / empty / non-empty): a test on such a value splits
    the path, a test on anything else is taken both ways.  In-place changes of a mapping the function did not
    create are recorded as flaws."""
    MUTATORS = ("update", "setdefault", "pop", "popitem", "clear", "__setitem__", "__delitem__")

    def __init__(self, fa, seed_env, cap=3000):
        self.fa = fa
        self.seed = seed_env
        self.cap = cap
        self._stmt = None

    # ---- values
    def atom_text(self, e, st):
        env = st.env

        class T(ast.NodeTransformer):
            def visit_Name(self, n):
                v = env.get(n.id)
                if isinstance(n.ctx, ast.Load) and v is not None:
                    txt = v[1] if v[0] == "atom" else (v[1][0] if v[0] == "seq" and len(v[1]) == 1 else None)
                    if txt is not None and not txt.startswith(("?", "<")):
                        try:
                            return ast.parse(txt, mode="eval").body
                        except SyntaxError:
                            pass
                    return ast.Name(id="<%s:%s>" % (v[0], n.id), ctx=ast.Load())
                return n

        import copy
        return A.norm(T().visit(copy.deepcopy(strip_cast(e))))

    @staticmethod
    def parts(v):
        return v[1] if v[0] == "seq" else ((v[1],) if v[0] == "atom" else ("?",))

    @staticmethod
    def layers(v, st):
        return st.heap[v[1]] if v[0] == "map" else ((v[1],) if v[0] == "atom" else ("?",))

    def ev(self, e, st):
        """[(value, state)]"""
        e = strip_cast(e)
        if isinstance(e, ast.Name):
            v = st.env.get(e.id)
            return [(v if v is not None else ("atom", e.id), st)]
        if isinstance(e, ast.NamedExpr) and isinstance(e.target, ast.Name):
            return [(v, s2.bind(e.target.id, v)) for (v, s2) in self.ev(e.value, st)]
        if isinstance(e, (ast.Tuple, ast.List)) and not e.elts:
            return [(("seq", ()), st)]
        if isinstance(e, ast.Call) and isinstance(e.func, ast.Name) and e.func.id in ("tuple", "list") and not e.keywords and len(e.args) <= 1:
            if not e.args:
                return [(("seq", ()), st)]
            return [((("seq", self.parts(v)) if v[0] != "map" else ("atom", "?")), s2) for (v, s2) in self.ev(e.args[0], st)]
        if isinstance(e, ast.BinOp) and isinstance(e.op, ast.Add):
            out = []
            for (l, s1) in self.ev(e.left, st):
                for (r, s2) in self.ev(e.right, s1):
                    out.append((("seq", self.parts(l) + self.parts(r)), s2))
            return out
        if isinstance(e, ast.BoolOp) and isinstance(e.op, ast.Or) and len(e.values) >= 2:
            rest = e.values[1] if len(e.values) == 2 else ast.BoolOp(op=ast.Or(), values=e.values[1:])
            out = []
            for (v, s1) in self.ev(e.values[0], st):
                for (truth, s2) in self.truth(v, s1):
                    if truth:
                        out.append((v, s2))
                    else:
                        out += self.ev(rest, s2)
            return out
        if isinstance(e, ast.IfExp):
            out = []
            for (truth, s1) in self.decide(e.test, st):
                out += self.ev(e.body if truth else e.orelse, s1)
            return out
        # mappings: {} / dict() / {**a, **b} / dict(a) / dict(a, **b) / a.copy() / copy.copy(a) / a | b
        pieces = None
        if isinstance(e, ast.Dict):
            pieces = [(None, v) if k is None else ("item", k) for k, v in zip(e.keys, e.values)]
        elif isinstance(e, ast.Call) and isinstance(e.func, ast.Name) and e.func.id == "dict" and len(e.args) <= 1:
            pieces = [(None, a) for a in e.args] + [(None, k.value) if k.arg is None else ("item", k) for k in e.keywords]
        elif isinstance(e, ast.Call) and A.call_attr(e) in ("copy", "deepcopy") and is_copy_of(e) is not None:
            pieces = [(None, is_copy_of(e))]
        elif isinstance(e, ast.BinOp) and isinstance(e.op, ast.BitOr):
            pieces = [(None, e.left), (None, e.right)]
        if pieces is not None:
            outs = [((), st)]
            for (kind, x) in pieces:
                nxt = []
                for (ls, s1) in outs:
                    if kind == "item":
                        nxt.append((ls + ("?item",), s1))
                    else:
                        for (v, s2) in self.ev(x, s1):
                            nxt.append((ls + self.layers(v, s2), s2))
                outs = nxt
            res = []
            for (ls, s1) in outs:
                m, s2 = s1.new_map(ls)
                res.append((m, s2))
            return res
        return [(("atom", self.atom_text(e, st)), st)]

    # ---- tests
    def truth(self, v, st):
        """[(bool, state)]: the truthiness of a value"""
        key = None
        if v[0] == "atom":
            key = v[1]
        elif v[0] == "seq":
            if not v[1]:
                return [(False, st)]
            key = v[1][0] if len(v[1]) == 1 else None
        elif v[0] == "map":
            ls = st.heap[v[1]]
            if not ls:
                return [(False, st)]
            key = ls[0] if len(ls) == 1 else None
        if key is None or key.startswith("?"):
            return [(True, st), (False, st)]
        out = []
        for (truth, allowed) in ((True, (_FULL,)), (False, (_NONE, _EMPTY))):
            s2 = st.restrict(key, allowed)
            if s2 is not None:
                out.append((truth, s2))
        return out

    def _split(self, v, st, when_true, when_false=None):
        """[(bool, state)] for a test that holds exactly when the value's state is in `when_true` (and, where the
        test cannot be evaluated on every state — len(None) —, fails exactly on `when_false`)"""
        key = v[1] if v[0] == "atom" else (v[1][0] if v[0] == "seq" and len(v[1]) == 1 else None)
        if v[0] == "seq" and not v[1]:
            return [(_EMPTY in when_true, st)]
        if v[0] == "map":
            ls = st.heap[v[1]]
            if not ls:
                return [(_EMPTY in when_true, st)]
            if len(ls) == 1 and not ls[0].startswith("?") and _NONE not in when_true:
                key = ls[0]     # a copy is empty exactly when what it copies is
        if key is None or key.startswith("?"):
            return [(True, st), (False, st)]
        out = []
        for (truth, allowed) in ((True, when_true), (False, when_false if when_false is not None else _ALL3 - frozenset(when_true))):
            s2 = st.restrict(key, allowed)
            if s2 is not None:
                out.append((truth, s2))
        return out

    def decide(self, t, st):
        """[(bool, state)]: the outcomes of a branch test"""
        t = strip_cast(t)
        if isinstance(t, ast.UnaryOp) and isinstance(t.op, ast.Not):
            return [(not b, s) for (b, s) in self.decide(t.operand, st)]
        if isinstance(t, ast.BoolOp):
            is_and = isinstance(t.op, ast.And)
            cur = [(is_and, st)]
            for v in t.values:
                nxt = []
                for (b, s) in cur:
                    if b != is_and:
                        nxt.append((b, s))      # short-circuited
                    else:
                        nxt += self.decide(v, s)
                cur = nxt
            return cur
        if isinstance(t, ast.Call) and isinstance(t.func, ast.Name) and t.func.id == "bool" and len(t.args) == 1 and not t.keywords:
            return self.decide(t.args[0], st)
        if isinstance(t, ast.Compare) and len(t.ops) == 1:
            op, l, r = t.ops[0], t.left, t.comparators[0]
            if isinstance(op, (ast.Is, ast.IsNot, ast.Eq, ast.NotEq)) and (A.is_none(r) or A.is_none(l)):
                x = l if A.is_none(r) else r
                pos = isinstance(op, (ast.Is, ast.Eq))
                out = []
                for (v, s1) in self.ev(x, st):
                    out += [(b if pos else not b, s2) for (b, s2) in self._split(v, s1, (_NONE,))]
                return out
            # len(x) <op> 0 / 1
            def len_of(a):
                return a.args[0] if isinstance(a, ast.Call) and isinstance(a.func, ast.Name) and a.func.id == "len" and len(a.args) == 1 else None
            x, c, o = len_of(l), r, op
            if x is None and len_of(r) is not None:
                x, c = len_of(r), l
                o = {ast.Lt: ast.Gt, ast.Gt: ast.Lt, ast.LtE: ast.GtE, ast.GtE: ast.LtE}.get(type(op), type(op))()
            if x is not None and isinstance(c, ast.Constant) and c.value in (0, 1):
                empty_when = {(ast.Eq, 0): True, (ast.NotEq, 0): False, (ast.Gt, 0): False, (ast.LtE, 0): True, (ast.GtE, 1): False, (ast.Lt, 1): True}.get((type(o), c.value))
                if empty_when is not None:
                    out = []
                    for (v, s1) in self.ev(x, st):
                        # (len() of None raises: no path continues from there)
                        out += [(b if empty_when else not b, s2) for (b, s2) in self._split(v, s1, (_EMPTY,), (_FULL,))]
                    return out
            # x == () / x != {} ...
            if isinstance(op, (ast.Eq, ast.NotEq)):
                for (x, c) in ((l, r), (r, l)):
                    if A.norm(c) in ("()", "[]", "{}", "tuple()", "list()", "dict()"):
                        out = []
                        for (v, s1) in self.ev(x, st):
                            out += [(b if isinstance(op, ast.Eq) else not b, s2) for (b, s2) in self._split(v, s1, (_EMPTY,))]
                        return out
            return [(True, st), (False, st)]
        if isinstance(t, (ast.Name, ast.Attribute, ast.Call, ast.NamedExpr, ast.IfExp, ast.Subscript)):
            out = []
            for (v, s1) in self.ev(t, st):
                out += self.truth(v, s1)
            return out
        if isinstance(t, ast.Constant):
            return [(bool(t.value), st)]
        return [(True, st), (False, st)]

    # ---- statements
    def _mutate(self, recv, layers_of_args, st, what):
        out = []
        for (v, s1) in self.ev(recv, st):
            if v[0] == "map":
                out.append(s1.extend_map(v[1], layers_of_args(s1)))
            else:
                out.append(s1.flaw((what, v[1] if v[0] == "atom" else "?", self._stmt)))
        return out

    def step(self, a, st):
        """the states after statement `a`"""
        self._stmt = a
        if isinstance(a, (ast.Assign, ast.AnnAssign)):
            if getattr(a, "value", None) is None:
                return [st]
            targets = a.targets if isinstance(a, ast.Assign) else [a.target]
            if len(targets) == 1 and isinstance(targets[0], (ast.Tuple, ast.List)) and isinstance(a.value, (ast.Tuple, ast.List)) \
                    and len(targets[0].elts) == len(a.value.elts) and all(isinstance(x, ast.Name) for x in targets[0].elts):
                cur = [([], st)]
                for x in a.value.elts:
                    cur = [(vs + [v], s2) for (vs, s1) in cur for (v, s2) in self.ev(x, s1)]
                out = []
                for (vs, s1) in cur:
                    for (tn, v) in zip(targets[0].elts, vs):
                        s1 = s1.bind(tn.id, v)
                    out.append(s1)
                return out
            out = []
            for (v, s1) in self.ev(a.value, st):
                for t in targets:
                    if isinstance(t, ast.Name):
                        s1 = s1.bind(t.id, v)
                    elif isinstance(t, ast.Subscript):
                        s1 = self._mutate(t.value, lambda s_: ("?item",), s1, "item assignment")[0]
                    elif isinstance(t, (ast.Tuple, ast.List)):
                        for x in ast.walk(t):
                            if isinstance(x, ast.Name):
                                s1 = s1.bind(x.id, ("atom", "?"))
                out.append(s1)
            return out
        if isinstance(a, ast.AugAssign):
            if isinstance(a.target, ast.Name):
                cur = st.env.get(a.target.id, ("atom", a.target.id))
                if isinstance(a.op, ast.Add):
                    return [s1.bind(a.target.id, ("seq", self.parts(cur) + self.parts(v))) for (v, s1) in self.ev(a.value, st)]
                if isinstance(a.op, ast.BitOr):
                    out = []
                    for (v, s1) in self.ev(a.value, st):
                        out += self._mutate(a.target, lambda s_, v=v: self.layers(v, s_), s1, "|=")
                    return out
                return [st.bind(a.target.id, ("atom", "?"))]
            if isinstance(a.target, ast.Subscript):
                return self._mutate(a.target.value, lambda s_: ("?item",), st, "item assignment")
            return [st]
        if isinstance(a, ast.Delete):
            out = [st]
            for t in a.targets:
                if isinstance(t, ast.Subscript):
                    out = [s2 for s1 in out for s2 in self._mutate(t.value, lambda s_: ("?item",), s1, "del")]
            return out
        if isinstance(a, ast.Expr) and isinstance(a.value, ast.Call) and isinstance(a.value.func, ast.Attribute) and a.value.func.attr in self.MUTATORS:
            c = a.value
            if c.func.attr == "update" and len(c.args) + len(c.keywords) == 1 and (c.args or c.keywords[0].arg is None):
                src = c.args[0] if c.args else c.keywords[0].value
                out = []
                for (v, s1) in self.ev(src, st):
                    out += self._mutate(c.func.value, lambda s_, v=v: self.layers(v, s_), s1, "update")
                return out
            return self._mutate(c.func.value, lambda s_: ("?item",), st, c.func.attr)
        return [st]

    def at(self, target, exprs):
        """[(values of `exprs` at CFG node `target`, state)] over the path classes from the entry; None when
        there are too many"""
        fa, cfg = self.fa, self.fa.cfg
        results = []
        count = [0]
        can = {n.id for n in cfg.nodes if target in cfg.reach([n.id])}

        def go(n, onpath, st):
            if count[0] > self.cap:
                return
            if n == target:
                count[0] += 1
                cur = [([], st)]
                for x in exprs:
                    cur = [(vs + [v], s2) for (vs, s1) in cur for (v, s2) in self.ev(x, s1)]
                results.extend(cur)
                return
            nd = cfg.node(n)
            edges = [(d, l) for (d, l) in cfg.succ[n] if l != "exc" and d in can and d not in onpath]
            if nd.kind == "test":
                loop = isinstance(fa.pm.get(nd.ast), ast.While)
                for (b, s1) in ([(True, st), (False, st)] if loop else self.decide(nd.ast, st)):
                    for (d, l) in edges:
                        if l == ("T" if b else "F"):
                            onpath.add(d)
                            go(d, onpath, s1)
                            onpath.discard(d)
                return
            states = [st]
            if nd.kind == "stmt" and nd.ast is not None:
                states = self.step(nd.ast, st)
            elif nd.kind in ("for", "with", "except") and nd.ast is not None:
                bound = nd.ast.target if nd.kind == "for" else None
                names = [x.id for x in ast.walk(bound) if isinstance(x, ast.Name)] if bound is not None else []
                if nd.kind == "with":
                    names = [x.id for it in nd.ast.items if it.optional_vars is not None for x in ast.walk(it.optional_vars) if isinstance(x, ast.Name)]
                for nm in names:
                    st = st.bind(nm, ("atom", "?"))
                states = [st]
            for s1 in states:
                for (d, l) in edges:
                    onpath.add(d)
                    go(d, onpath, s1)
                    onpath.discard(d)

        st0 = _PState({}, {}, {}, ())
        for name, v in self.seed.items():
            if v[0] == "newmap":
                v, st0 = st0.new_map(v[1])
            st0 = st0.bind(name, v)
        go(cfg.entry, {cfg.entry}, st0)
        return None if count[0] > self.cap else results


def _partial_accumulates(pa, call, e_args, e_kwargs, varg, kwarg, XA, XK):
    """On every path to the clone, the positional partials handed over are the existing ones followed by the new ones
    and the keyword partials are the existing ones overlaid with the new ones, in a mapping of the function's own —
    the existing ones may be left out only where the path has established that there are none; no mapping the
    function did not create is changed in place.  Decided on the composition per path class, however it is spelled
    (`x or ()` then `+=`, an if statement per case, copy-then-update, `{**a, **b}`, ...)."""
    V, KW = "<new positional>", "<new keyword>"
    pc = PathComposition(pa, {varg: ("seq", (V,)), kwarg: ("newmap", (KW,))})
    ok = True
    n = 0
    for at in pa.nodes(call):
        res = pc.at(at, [e_args, e_kwargs])
        if res is None:
            return False
        for ((va, vk), st) in res:
            n += 1
            def made_of(got, want):
                # `got` is `want` in order; an element may be left out where the path has established it is empty
                left_out = [w for w in want if w not in got]
                return [g for g in got] == [w for w in want if w in got] and all(st.facts.get(w, _ALL3) <= {_NONE, _EMPTY} for w in left_out)

            ok = ok and made_of(pc.parts(va) if va[0] in ("seq", "atom") else ("?",), (XA, V))
            ok = ok and made_of(pc.layers(vk, st) if vk[0] == "map" else ("?",), (XK, KW))
            ok = ok and not st.flaws
    return ok and n >= 1


def _out_literals(node):
    """String pieces that end up in the text a statement builds: constants, and the literal parts of
    f-strings / str.format / % templates (not the placeholders); error messages are not output."""
    out = []

    def rec(n):
        if isinstance(n, ast.Raise):
            return
        if isinstance(n, ast.Expr) and isinstance(n.value, ast.Constant):
            return
        if isinstance(n, ast.Call) and (A.dotted(n.func) or "").split(".")[0] in ("log", "logging", "logger"):
            return
        tmpl = isinstance(n, ast.JoinedStr) or \
            (isinstance(n, ast.Call) and isinstance(n.func, ast.Attribute) and n.func.attr == "format" and isinstance(n.func.value, ast.Constant)) or \
            (isinstance(n, ast.BinOp) and isinstance(n.op, ast.Mod) and isinstance(n.left, ast.Constant) and isinstance(n.left.value, str))
        if tmpl:
            p = A.str_parts(n)
            if p is not None:
                for k, v in p:
                    if k == "lit":
                        out.append(("tmpl", v))
                    else:
                        rec(v)
                return
        if isinstance(n, ast.Constant) and isinstance(n.value, str):
            out.append(("const", n.value))
            return
        for ch in ast.iter_child_nodes(n):
            rec(ch)

    rec(node)
    return out


def other_inputs(ck, fa, values, subject):
    """What the values `values` ([(expression, CFG node)] inside fa) are computed from besides the parameter `subject`
    and constants: (a) another parameter of the function that some call site in the repository binds to something
    that is not a constant (a parameter nobody passes, or that is only ever given a literal, is a constant of the
    program: `encoding="utf-8"`); (b) state that outlives the call (module / class level variables that are rebound
    or mutable).  Returns [(what, description)]; decided on the dependency closure of the values and on the call
    sites the call graph resolves to the function."""
    from .c16 import outliving_state_reads, _immutable_constant
    out = []
    dp = set()
    for (e, at) in values:
        dp |= fa.deps(e, at)
        for nm in outliving_state_reads(fa, e, at):
            out.append((nm, "state that outlives the call (%s)" % nm))
    a = fa.fi.node.args
    positional = [x.arg for x in a.posonlyargs + a.args]
    if fa.fi.cls is not None and not fa.fi.is_static and positional:
        positional = positional[1:]
    others = sorted(x[len("param:"):] for x in dp if x.startswith("param:") and x[len("param:"):] not in (subject, "self", "cls"))
    if not others:
        return out
    sites = ck.cg.call_sites_of(lambda call, cands: any(c.node is fa.fi.node or c.qual == fa.fi.qual for c in cands))
    n_pos = len(a.posonlyargs + a.args)
    defaults = dict(zip([x.arg for x in (a.posonlyargs + a.args)[n_pos - len(a.defaults):]], a.defaults))
    defaults.update({x.arg: d for x, d in zip(a.kwonlyargs, a.kw_defaults) if d is not None})
    for p in others:
        if p in ((a.vararg.arg if a.vararg else None), (a.kwarg.arg if a.kwarg else None)):
            out.append((p, "whatever else a caller passes (`%s`)" % p))
            continue
        if p in defaults and not _immutable_constant(defaults[p]):
            out.append((p, "the default of its parameter `%s` (`%s`), an object shared by all calls" % (p, A.short(defaults[p], 40))))
            continue
        for (cfi, call, cands) in sites:
            sure = len(cands) == 1 or (fa.fi.cls is not None and A.norm(call.func).endswith("%s.%s" % (fa.fi.cls.name, fa.fi.name)))
            v = A.kwarg(call, p)
            if v is None and sure and p in positional and len(call.args) > positional.index(p) \
                    and not any(isinstance(x, ast.Starred) for x in call.args[:positional.index(p) + 1]):
                v = call.args[positional.index(p)]
            if v is not None and not _immutable_constant(v):
                out.append((p, "its parameter `%s`, which %s binds to `%s`" % (p, cfi.qual, A.short(v, 50))))
                break
    return out


def _first_key(fa, k):
    """a sort key that selects the mapping key of an (key, value) item: absent, lambda t: t[0], itemgetter(0)"""
    if k is None:
        return True
    if isinstance(k, ast.Lambda) and len(k.args.args) == 1 and isinstance(k.body, ast.Subscript) and A.norm(k.body.value) == k.args.args[0].arg \
            and A.norm(k.body.slice) == "0":
        return True
    return A.norm(k) in ("operator.itemgetter(0)", "itemgetter(0)")


# ------------------------------------------------------------------------------------------------
# R6: the normalised values are the reference's own (no container of them is the caller's object)
# ------------------------------------------------------------------------------------------------
_DISJOINT = {"None", "bool", "str", "int", "float", "complex", "bytes", "bytearray", "list", "dict", "tuple", "set", "frozenset",
             "datetime.datetime", "datetime.date", "datetime", "date", "MementoFunctionType", "type(None)", "NoneType"}


_SUPERS = {"datetime.datetime": {"datetime.date", "date"}, "datetime": {"date", "datetime.date"}, "bool": {"int"}}


def _case_for_class(fa, conj, param, typ):
    """(can a value of class `typ` take the path with these literals, does a test on its class select it there)"""
    selected = False
    for (t, pol) in conj:
        e, pol_ = lit_expr(t, pol)
        if e is None:
            continue
        h = _holds_for_class(fa, e, param, typ)
        if h is not None and h != pol_:
            return False, False
        if h is True and pol_:
            selected = True
    return True, selected


def _holds_for_class(fa, e, param, typ):
    """Three-valued reading of a test on `param` for a value whose class is `typ` ('list' / 'dict'): True / False /
    None (the test is about something else, or about a class this rule knows nothing of)."""
    e = strip_cast(e)
    if isinstance(e, ast.Constant):
        return bool(e.value)
    if isinstance(e, ast.UnaryOp) and isinstance(e.op, ast.Not):
        v = _holds_for_class(fa, e.operand, param, typ)
        return None if v is None else not v
    if isinstance(e, ast.BoolOp):
        vs = [_holds_for_class(fa, x, param, typ) for x in e.values]
        if isinstance(e.op, ast.And):
            return False if any(v is False for v in vs) else (True if all(v is True for v in vs) else None)
        return True if any(v is True for v in vs) else (False if all(v is False for v in vs) else None)

    def of_class(names):
        if typ in names or "object" in names or (_SUPERS.get(typ, set()) & names):
            return True
        return False if names and names <= _DISJOINT else None

    def class_of_param(x):
        x = strip_cast(x)
        return (isinstance(x, ast.Call) and isinstance(x.func, ast.Name) and x.func.id == "type" and len(x.args) == 1 and A.norm(x.args[0]) == param) \
            or (isinstance(x, ast.Attribute) and x.attr == "__class__" and A.norm(x.value) == param)
    if isinstance(e, ast.Call) and isinstance(e.func, ast.Name) and e.func.id == "isinstance" and len(e.args) == 2 and A.norm(e.args[0]) == param:
        return of_class(_type_names(fa, e.args[1]))
    if isinstance(e, ast.Call) and isinstance(e.func, ast.Name) and e.func.id == "callable" and len(e.args) == 1 and A.norm(e.args[0]) == param:
        return False
    if isinstance(e, ast.Call) and isinstance(e.func, ast.Name) and e.func.id in ("any", "all") and len(e.args) == 1 and not e.keywords \
            and isinstance(e.args[0], (ast.GeneratorExp, ast.ListComp)) and len(e.args[0].generators) == 1 and not e.args[0].generators[0].ifs \
            and isinstance(e.args[0].generators[0].target, ast.Name):
        # a class test made against each type of a collection in turn
        g = e.args[0].generators[0]
        vs = []
        for t_ in (g.iter.elts if isinstance(g.iter, (ast.Tuple, ast.List, ast.Set)) else []):
            one = subst_names(e.args[0].elt, {g.target.id: t_})
            vs.append(_holds_for_class(fa, one, param, typ))
        if vs:
            if e.func.id == "any":
                return True if any(v is True for v in vs) else (False if all(v is False for v in vs) else None)
            return False if any(v is False for v in vs) else (True if all(v is True for v in vs) else None)
        return None
    if isinstance(e, ast.Compare) and len(e.ops) == 1:
        op, l, r = e.ops[0], e.left, e.comparators[0]
        pos = isinstance(op, (ast.Is, ast.Eq, ast.In))
        v = None
        if isinstance(op, (ast.Is, ast.IsNot, ast.Eq, ast.NotEq)):
            if (A.norm(l) == param and A.is_none(r)) or (A.norm(r) == param and A.is_none(l)):
                v = False
            elif class_of_param(l) or class_of_param(r):
                other = r if class_of_param(l) else l
                v = of_class({A.norm(other)})
                if v is True and A.norm(other) != typ:
                    v = None
        elif isinstance(op, (ast.In, ast.NotIn)) and class_of_param(l):
            v = of_class(_each_of(fa, r))
        if v is None:
            return None
        return v if pos else not v
    return None


def _mentions_class_of(e, param):
    """does the test `e` look at the class of `param` (isinstance / type / __class__ / issubclass somewhere in it)"""
    for x in ast.walk(e):
        if isinstance(x, ast.Call) and isinstance(x.func, ast.Name) and x.func.id in ("isinstance", "type", "issubclass") \
                and any(isinstance(y, ast.Name) and y.id == param for a in x.args for y in ast.walk(a)):
            return True
        if isinstance(x, ast.Attribute) and x.attr == "__class__" and A.norm(x.value) == param:
            return True
    return False


def _answers_its_argument(fa, param, typ):
    """The return cases of `fa` that a value of class `typ` can take and on which what is answered is the argument itself
    (not a container built there): [(value, node)].  A result chosen by a conditional expression / `or` is split."""
    out = []
    for (conj, v, at) in result_cases(fa):
        if not _case_for_class(fa, conj, param, typ)[0]:
            continue
        # (a case selected by a test on the argument's class that this rule cannot read - a predicate over a table of types
        # written some other way - is not counted: what the case answers for a list / a mapping is not known)
        if any(pol and _holds_for_class(fa, lit_expr(t, pol)[0], param, typ) is None and _mentions_class_of(lit_expr(t, pol)[0], param)
               for (t, pol) in conj if lit_expr(t, pol)[0] is not None and lit_expr(t, pol)[1]):
            continue

        def leaves(x):
            x = strip_cast(x)
            if isinstance(x, ast.BoolOp):
                return [y for v_ in x.values for y in leaves(v_)]
            if isinstance(x, ast.IfExp):
                return leaves(x.body) + leaves(x.orelse)
            if isinstance(x, ast.NamedExpr):
                return leaves(x.value)
            return [x]
        if any(isinstance(x, ast.Name) and x.id == param for x in leaves(v)):
            out.append((v, at))
    return out


def own_containers_clause(ck, rule, enc, dec, nm):
    """normalize(x) = decode(encode(x)) hands the reference values of its own: for a list / a mapping at least one of the two
    passes answers a container it built, on every path that such a value can take - and normalize does not answer its
    argument beside them.  (Each pass may answer its argument when the other one never does: the hash is computed from an
    encoding that is only read.)"""
    EP, DP = enc.fi.params[0], dec.fi.params[0]
    NP = nm.fi.params[0] if nm.fi.params else None
    for typ, word in (("list", "list"), ("dict", "mapping")):
        a_e, a_d = _answers_its_argument(enc, EP, typ), _answers_its_argument(dec, DP, typ)
        a_n = _answers_its_argument(nm, NP, typ) if NP is not None else []
        bad = bool(a_n) or (bool(a_e) and bool(a_d))
        if a_n:
            where, how = nm.where(nm.cfg.node(a_n[0][1]).ast), "normalize answers the %s it was given" % word
        elif bad:
            where = enc.where(enc.cfg.node(a_e[0][1]).ast)
            how = "the encoder (line %s) and the decoder (line %s) both answer the %s they were given when nothing in it needed converting" % (
                _line_of(enc, a_e[0][1]), _line_of(dec, a_d[0][1]), word)
        else:
            where, how = nm.where(), ""
        ck.ob(rule, nm.key(None, "own-" + typ), not bad,
              "a normalised %s is a container built by the encoder or the decoder, never the caller's" % word if not bad else
              "%s: the normalised value kept on the reference is the caller's own %s - it is what the key was computed from and what the body "
              "receives, so a later change of that object (by the caller, by a body that works on its argument in place, by a sibling call "
              "built from the same object) changes what the body receives without changing the key, and the result is stored under the key of the original value"
              % (how, word), where)


def _line_of(fa, node_id):
    try:
        a = fa.cfg.node(node_id).ast
        return getattr(a, "lineno", "?")
    except Exception:
        return "?"


# ---- the derived key fields of a reference-with-arguments follow their inputs, whoever writes them
FRA_CLS = "FunctionReferenceWithArguments"
# field -> the fields computed from it (the chain the constructor establishes: bound values -> effective kwargs ->
# effective kwargs + context args -> argument hash)
DERIVED_FROM = {
    "fn_reference": ("effective_kwargs", "effective_kwargs_with_context_args", "arg_hash"),
    "args": ("effective_kwargs", "effective_kwargs_with_context_args", "arg_hash"),
    "kwargs": ("effective_kwargs", "effective_kwargs_with_context_args", "arg_hash"),
    "context_args": ("effective_kwargs_with_context_args", "arg_hash"),
    "effective_kwargs": ("effective_kwargs_with_context_args", "arg_hash"),
    "effective_kwargs_with_context_args": ("arg_hash",),
    "arg_hash": (),
}
# fields no other class of the package has: a store to one of them is a store to such a reference whatever the receiver
_FRA_ONLY = ("effective_kwargs", "effective_kwargs_with_context_args")


def _is_fra_class_expr(fi, e, self_name, cls_name):
    """does `e` denote the class FunctionReferenceWithArguments (or the class of an instance of it)?"""
    e = strip_cast(e)
    d = A.dotted(e) or ""
    if d.split(".")[-1] == FRA_CLS:
        return True
    in_fra = fi.cls is not None and fi.cls.name == FRA_CLS
    if in_fra and cls_name is not None and d == cls_name:
        return True
    if in_fra and self_name is not None:
        if d == self_name + ".__class__":
            return True
        if isinstance(e, ast.Call) and isinstance(e.func, ast.Name) and e.func.id == "type" and len(e.args) == 1 and A.norm(e.args[0]) == self_name:
            return True
    return False


def _denotes_fra(fa, e, at, self_name, cls_name, depth=4):
    """is the object `e` evaluates to at node `at` a FunctionReferenceWithArguments, as far as the function shows: the
    receiver of one of its methods, a copy of one, a bare instance of the class, a constructed one, a parameter (or an
    element of a parameter) annotated with the class"""
    e = strip_cast(e)
    fi = fa.fi
    if isinstance(e, ast.Name):
        if self_name is not None and e.id == self_name and fi.cls is not None and fi.cls.name == FRA_CLS:
            return True
        if depth <= 0:
            return False
        try:
            ds = fa.df.reaching(at, e.id)
        except Exception:
            return False
        if not ds:
            return False
        for d in ds:
            if d.kind == "param":
                if not _annotated_fra(fi, e.id, False):
                    return False
            elif d.kind == "for" and d.value is not None:
                it = strip_cast(d.value)
                if not (isinstance(it, ast.Name) and _annotated_fra(fi, it.id, True)):
                    return False
            elif d.kind == "assign" and d.value is not None:
                if not _denotes_fra(fa, d.value, d.node, self_name, cls_name, depth - 1):
                    return False
            else:
                return False
        return True
    if isinstance(e, ast.IfExp):
        return _denotes_fra(fa, e.body, at, self_name, cls_name, depth) and _denotes_fra(fa, e.orelse, at, self_name, cls_name, depth)
    if isinstance(e, ast.Call):
        d = A.call_dotted(e) or ""
        last = A.call_attr(e) or d.split(".")[-1]
        if last in ("copy", "deepcopy") and len(e.args) >= 1 and d in ("copy.copy", "copy.deepcopy", "copy", "deepcopy"):
            return _denotes_fra(fa, e.args[0], at, self_name, cls_name, depth)
        if last == "__new__" and isinstance(e.func, ast.Attribute):
            if _is_fra_class_expr(fi, e.func.value, self_name, cls_name):
                return True
            return bool(e.args) and _is_fra_class_expr(fi, e.args[0], self_name, cls_name)
        if _is_fra_class_expr(fi, e.func, self_name, cls_name):
            return True
        if last == "with_args" and isinstance(e.func, ast.Attribute):
            return True
    return False


def _annotated_fra(fi, name, element):
    a = fi.node.args
    for x in list(getattr(a, "posonlyargs", [])) + list(a.args) + list(a.kwonlyargs):
        if x.arg == name and x.annotation is not None:
            txt = A.norm(x.annotation)
            if FRA_CLS not in txt:
                return False
            bare = txt.strip("'\"").split(".")[-1] == FRA_CLS or txt.strip("'\"") == "Optional[%s]" % FRA_CLS
            return (not bare) if element else bare
    return False


def _instance_dict_of(e):
    """the object whose attribute dictionary `e` is (`obj.__dict__`, `vars(obj)`), or None"""
    e = strip_cast(e)
    if isinstance(e, ast.Attribute) and e.attr == "__dict__":
        return e.value
    if isinstance(e, ast.Call) and isinstance(e.func, ast.Name) and e.func.id == "vars" and len(e.args) == 1 and not e.keywords:
        return e.args[0]
    return None


def _key_field_stores(fa):
    """every statement of the function that binds a key field of some object: [(receiver expr, field, stmt)] — plain
    attribute assignment, setattr / object.__setattr__ with a literal name, a store into / update of the instance __dict__"""
    out = []
    for st in fa.stmts((ast.Assign, ast.AugAssign, ast.AnnAssign, ast.Expr, ast.Delete, ast.For, ast.With)):
        tgs = []
        if isinstance(st, ast.Assign):
            tgs = list(st.targets)
        elif isinstance(st, (ast.AugAssign, ast.AnnAssign)):
            tgs = [st.target] if not (isinstance(st, ast.AnnAssign) and st.value is None) else []
        elif isinstance(st, ast.Delete):
            tgs = list(st.targets)
        elif isinstance(st, ast.For):
            tgs = [st.target]
        elif isinstance(st, ast.With):
            tgs = [i.optional_vars for i in st.items if i.optional_vars is not None]
        flat = []
        while tgs:
            t = tgs.pop()
            if isinstance(t, (ast.Tuple, ast.List)):
                tgs += list(t.elts)
            elif isinstance(t, ast.Starred):
                tgs.append(t.value)
            else:
                flat.append(t)
        for t in flat:
            if isinstance(t, ast.Attribute) and t.attr in DERIVED_FROM:
                out.append((t.value, t.attr, st))
            elif isinstance(t, ast.Subscript) and _instance_dict_of(t.value) is not None and A.const_str(t.slice) in DERIVED_FROM:
                out.append((_instance_dict_of(t.value), A.const_str(t.slice), st))
        if isinstance(st, ast.Expr) and isinstance(st.value, ast.Call):
            c = st.value
            d = A.call_dotted(c) or ""
            if d.split(".")[-1] in ("setattr", "__setattr__", "delattr", "__delattr__") and len(c.args) >= 2 and A.const_str(c.args[1]) in DERIVED_FROM \
                    and (isinstance(c.func, ast.Name) or d.startswith("object.")):
                out.append((c.args[0], A.const_str(c.args[1]), st))
            elif A.call_attr(c) in ("__setattr__", "__delattr__") and len(c.args) >= 1 and A.const_str(c.args[0]) in DERIVED_FROM and A.call_recv(c) is not None:
                out.append((A.call_recv(c), A.const_str(c.args[0]), st))
            elif A.call_attr(c) in ("__setitem__", "setdefault", "pop") and A.call_recv(c) is not None and _instance_dict_of(A.call_recv(c)) is not None \
                    and c.args and A.const_str(c.args[0]) in DERIVED_FROM:
                out.append((_instance_dict_of(A.call_recv(c)), A.const_str(c.args[0]), st))
            elif A.call_attr(c) == "update" and A.call_recv(c) is not None and _instance_dict_of(A.call_recv(c)) is not None:
                names = [k.arg for k in c.keywords if k.arg in DERIVED_FROM]
                for a in c.args:
                    if isinstance(a, ast.Dict):
                        names += [A.const_str(k) for k in a.keys if k is not None and A.const_str(k) in DERIVED_FROM]
                for nm_ in names:
                    out.append((_instance_dict_of(A.call_recv(c)), nm_, st))
            elif A.call_attr(c) == "__init__" and A.call_recv(c) is not None and not (isinstance(A.call_recv(c), ast.Call) and A.call_dotted(A.call_recv(c)) == "super"):
                # the object is put through its constructor again: every field is made anew
                for nm_ in DERIVED_FROM:
                    out.append((A.call_recv(c), nm_, st))
    return out


def derived_fields_clause(ck, rule):
    """The argument hash of a FunctionReferenceWithArguments is the hash of its effective kwargs plus its context args, and
    those are bound from its reference, args and kwargs: the constructor establishes that chain.  Whoever else binds one
    of these fields of such an object (a modifier that copies the reference and swaps a field, a setter, a __setstate__)
    has to bind every field derived from it again afterwards, on every path to its end; otherwise the object shows the new
    value while it is keyed, stored and served under the old one."""
    n_fn = n_st = 0
    try:
        computed = set(ck.repo.cls("reference." + FRA_CLS).methods)
    except AnalysisError:
        computed = set()
    for fi in ck.repo.all_funcs():
        if not any((isinstance(n, ast.Attribute) and n.attr in DERIVED_FROM and isinstance(n.ctx, (ast.Store, ast.Del))) or
                   (isinstance(n, ast.Constant) and isinstance(n.value, str) and n.value in DERIVED_FROM) or
                   (isinstance(n, ast.keyword) and n.arg in DERIVED_FROM) for n in ast.walk(fi.node)):
            continue
        try:
            fa = FA(ck, fi)
        except (AnalysisError, RecursionError):
            continue
        raw = _key_field_stores(fa)
        if not raw:
            continue
        nd = fi.node
        decos = {A.dotted(d) for d in nd.decorator_list}
        ps = [a.arg for a in list(getattr(nd.args, "posonlyargs", [])) + list(nd.args.args)]
        is_method = fi.cls is not None and fi.parent is None
        self_name = ps[0] if is_method and ps and not ({"staticmethod", "classmethod"} & decos) else None
        cls_name = ps[0] if is_method and ps and "classmethod" in decos else None
        stores = {}     # receiver text -> [(field, stmt, node)]
        # (a receiver that is given one of the fields only such a reference has is one, wherever it came from)
        known = {A.norm(strip_cast(recv)) for (recv, field, st) in raw if field in _FRA_ONLY}
        for (recv, field, st) in raw:
            ids = fa.nodes(st)
            if not ids:
                continue
            r = strip_cast(recv)
            typed = A.norm(r) in known or _denotes_fra(fa, r, ids[0], self_name, cls_name)
            if not typed:
                continue
            if not typed and fi.cls is not None and fi.cls.name != FRA_CLS and isinstance(r, ast.Name) and r.id == self_name:
                continue    # a class of its own that happens to have a field of that name
            for i in ids:
                stores.setdefault(A.norm(r), []).append((field, st, i))
        ctor = fi.cls is not None and fi.cls.name == FRA_CLS and fi.name == "__init__"
        for rtxt, lst in sorted(stores.items()):
            if ctor and rtxt == self_name:
                continue    # the constructor itself: decided by the R3 clauses on the flattened constructor
            n_fn += 1
            for (field, st, i) in lst:
                if isinstance(st, ast.Expr) and A.call_attr(st.value) == "__init__":
                    continue
                n_st += 1
                stale = []
                for g in DERIVED_FROM[field]:
                    if g in computed:
                        continue    # computed on demand from the other fields: nothing is kept that could go stale
                    again = {j for (f2, _s2, j) in lst if f2 == g}
                    if not fa.cfg.always_reaches(i, again, [fa.cfg.exit]):
                        stale.append(g)
                ok = not stale
                ck.ob(rule, fa.key(st, "derived-follow:%s.%s" % (rtxt, field)), ok,
                      "`%s`: every field derived from %s.%s is bound again afterwards" % (A.short(st, 50), rtxt, field) if ok else
                      "`%s` binds %s of a FunctionReferenceWithArguments outside its constructor and %s %s not computed again afterwards on every path to the "
                      "end of %s: the object shows the new %s, but its key (arg_hash) is still the one of the old value - two calls that differ in "
                      "%s share one key and one stored result, and the body / the record see values the key was not computed from"
                      % (A.short(st, 60), field, ", ".join(stale), "is" if len(stale) == 1 else "are", fi.qual, field, field), fa.where(st))
    ck.ob(rule, "key-fields::scan", True, "%d writers of key fields of a FunctionReferenceWithArguments outside its constructor (%d stores)" % (n_fn, n_st), "")


# ---- argument values are never looked up by Python equality in something that outlives the call
_EQ_LOOKUPS = ("get", "setdefault", "pop", "__contains__", "__getitem__", "__setitem__", "__delitem__", "add", "discard", "remove", "index", "count")
_SHAPE_KEEPING = ("tuple", "list", "frozenset", "set", "sorted", "reversed", "dict", "items", "values", "zip", "enumerate", "chain", "copy", "deepcopy", "OrderedDict")
_FRESH_CALLS = ("dict", "list", "set", "tuple", "frozenset", "OrderedDict", "defaultdict", "Counter", "deque", "sorted", "copy", "deepcopy")


def _value_in_key(fa, key, at, value_params):
    """the value parameters that are part of `key` AS VALUES — compared and hashed the way Python compares them, under which
    1 == 1.0 == True and 0 == 0.0 == False: named directly, through locals, inside tuples / lists / sets, concatenated,
    sorted, as items of a mapping, element by element.  What goes through a typed rendering (the argument hash, the
    canonical JSON text, json.dumps, repr) or is only measured (len, bool, type, isinstance) is not in the key as a value;
    an element that stands next to its own type (`(type(v), v)`) is told apart by it."""
    found = set()
    seen = set()

    def rec(x, node, bound=()):
        x = strip_cast(x)
        if isinstance(x, ast.Name):
            if x.id in bound:
                return
            try:
                ds = fa.df.reaching(node, x.id)
            except Exception:
                ds = []
            for d in ds:
                if d.kind == "param":
                    if x.id in value_params:
                        found.add(x.id)
                    continue
                if (d.node, d.name) in seen or d.value is None:
                    continue
                seen.add((d.node, d.name))
                if d.kind in ("assign", "aug", "for", "unpack"):
                    # (an element of a sequence of values is a value)
                    rec(d.value, d.node)
                    if d.kind == "aug" and d.stmt is not None and isinstance(d.stmt, ast.AugAssign):
                        rec(d.stmt.target, d.node) if not isinstance(d.stmt.target, ast.Name) else None
            return
        if isinstance(x, ast.NamedExpr):
            return rec(x.value, node, bound)
        if isinstance(x, (ast.Tuple, ast.List, ast.Set)):
            typed = {A.norm(e.args[0]) for e in x.elts if isinstance(e, ast.Call) and isinstance(e.func, ast.Name) and e.func.id == "type" and len(e.args) == 1}
            for e in x.elts:
                if A.norm(e) not in typed:
                    rec(e, node, bound)
            return
        if isinstance(x, ast.Starred):
            return rec(x.value, node, bound)
        if isinstance(x, ast.BinOp) and isinstance(x.op, (ast.Add, ast.BitOr)):
            rec(x.left, node, bound)
            return rec(x.right, node, bound)
        if isinstance(x, ast.IfExp):
            rec(x.body, node, bound)
            return rec(x.orelse, node, bound)
        if isinstance(x, ast.BoolOp):
            for v in x.values:
                rec(v, node, bound)
            return
        if isinstance(x, ast.Subscript):
            return rec(x.value, node, bound)
        if isinstance(x, (ast.ListComp, ast.GeneratorExp, ast.SetComp)):
            # the element is made of the loop variables, which stand for the elements of what is iterated over
            names = set()
            for g in x.generators:
                names |= {n.id for n in ast.walk(g.target) if isinstance(n, ast.Name)}
            inner = set()
            sub_found = _free_value_names(x.elt, names)
            if sub_found:
                for g in x.generators:
                    rec(g.iter, node, bound)
            rec(x.elt, node, tuple(set(bound) | names))
            return
        if isinstance(x, ast.Call):
            nm = A.call_attr(x)
            if nm in _SHAPE_KEEPING:
                for a in list(x.args) + ([x.func.value] if isinstance(x.func, ast.Attribute) and nm in ("items", "values", "copy") else []):
                    rec(a, node, bound)
            return
        return

    rec(key, at)
    return found


def _free_value_names(elt, names):
    """does the element of a comprehension carry a loop variable as a value (not only its type / size)?"""
    hit = []

    def rec(x):
        x = strip_cast(x)
        if isinstance(x, ast.Name):
            if x.id in names:
                hit.append(x.id)
        elif isinstance(x, (ast.Tuple, ast.List, ast.Set)):
            typed = {A.norm(e.args[0]) for e in x.elts if isinstance(e, ast.Call) and isinstance(e.func, ast.Name) and e.func.id == "type" and len(e.args) == 1}
            for e in x.elts:
                if A.norm(e) not in typed:
                    rec(e)
        elif isinstance(x, ast.Starred):
            rec(x.value)
        elif isinstance(x, ast.Subscript):
            rec(x.value)
        elif isinstance(x, ast.IfExp):
            rec(x.body)
            rec(x.orelse)
        elif isinstance(x, ast.BinOp) and isinstance(x.op, (ast.Add, ast.BitOr)):
            rec(x.left)
            rec(x.right)
        elif isinstance(x, ast.Call) and A.call_attr(x) in _SHAPE_KEEPING:
            for a in x.args:
                rec(a)
    rec(elt)
    return hit


def _outlives_call(fa, t, at, value_params, depth=4):
    """is the container `t` something that is there before the call and stays after it (a field of the receiver, of a class,
    of the module, of an object handed in), as opposed to one this call made for itself or the caller's own argument?
    Returns a description, or None."""
    t = strip_cast(t)
    if isinstance(t, ast.Call):
        nm = A.call_attr(t)
        if nm in _FRESH_CALLS or isinstance(t.func, ast.Name) and t.func.id in _FRESH_CALLS:
            return None
        if nm in ("setdefault", "get", "__getitem__") and A.call_recv(t) is not None:
            return _outlives_call(fa, A.call_recv(t), at, value_params, depth)   # a sub-table of a table
        if nm == "getattr" and t.args:
            return _outlives_call(fa, t.args[0], at, value_params, depth) and A.short(t, 40)
        if isinstance(t.func, ast.Attribute):
            root = t.func.value
            while isinstance(root, (ast.Attribute, ast.Subscript)):
                root = root.value
            if isinstance(root, ast.Name) and root.id in ("self", "cls") or (isinstance(root, ast.Name) and root.id in fa.fi.module.classes):
                return A.short(t, 40)
        return None
    if isinstance(t, (ast.Dict, ast.List, ast.Set, ast.Tuple, ast.DictComp, ast.ListComp, ast.SetComp, ast.Constant, ast.JoinedStr)):
        return None
    if isinstance(t, ast.Subscript):
        return _outlives_call(fa, t.value, at, value_params, depth)
    name = _ref_name(t)
    if isinstance(t, ast.Name) or (name is not None and name.startswith("self.")):
        nm = t.id if isinstance(t, ast.Name) else name
        try:
            ds = fa.df.reaching(at, nm)
        except Exception:
            ds = []
        if ds and depth > 0:
            res = None
            for d in ds:
                if d.kind == "param":
                    if nm in value_params:
                        continue
                    ps = fa.fi.params
                    if fa.fi.cls is not None and ps and nm == ps[0]:
                        continue
                    res = res or "the argument `%s`" % nm
                elif d.kind in ("assign", "with") and d.value is not None:
                    res = res or _outlives_call(fa, d.value, d.node, value_params, depth - 1)
                elif d.kind in ("import", "def"):
                    continue
            return res
        if isinstance(t, ast.Name):
            mod = fa.fi.module
            if t.id in getattr(mod, "assigns", {}) and t.id not in mod.functions and t.id not in mod.classes:
                return "the module-level `%s`" % t.id
            return None
    if isinstance(t, ast.Attribute):
        root = t.value
        while isinstance(root, (ast.Attribute, ast.Subscript)):
            root = root.value
        if isinstance(root, ast.Call) and isinstance(root.func, ast.Name) and root.func.id == "type":
            return A.norm(t)
        if isinstance(root, ast.Name):
            if root.id in value_params:
                return None
            ps = fa.fi.params
            if root.id in ("self", "cls") or (fa.fi.cls is not None and ps and root.id == ps[0]) or root.id in fa.fi.module.classes:
                return A.norm(t)
            # a field of a local object: of what the local was made from
            r = _outlives_call(fa, root, at, value_params, depth - 1) if depth > 0 else None
            return A.norm(t) if r else None
    return None


def _never_written_table(fa, t):
    """is the container `t` a table of the program itself: a module-level or class-level name bound once to a display (or a
    dict / frozenset / tuple / MappingProxyType made from one) that nothing in the module stores into, changes or re-binds?
    Nothing a call leaves behind can be found in it, so looking a value up in it (a dispatch table, a set of special
    values) is not a memo."""
    t = strip_cast(t)
    mod = fa.fi.module
    if isinstance(t, ast.Name):
        name, v = t.id, getattr(mod, "assigns", {}).get(t.id)
        if v is None or fa.df.reaching(fa.cfg.exit, name):
            return False
    elif isinstance(t, ast.Attribute):
        name = t.attr
        root = t.value
        if isinstance(root, ast.Call) and isinstance(root.func, ast.Name) and root.func.id == "type" and len(root.args) == 1:
            root = root.args[0]
        if not isinstance(root, ast.Name):
            return False
        if root.id in mod.classes:
            cands = [mod.classes[root.id]]
        elif fa.fi.cls is not None and fa.fi.params and root.id == fa.fi.params[0]:
            cands = [fa.fi.cls]
        else:
            return False
        vals = [st.value for ci in cands for st in ci.node.body
                if (isinstance(st, ast.Assign) and any(isinstance(x, ast.Name) and x.id == name for x in st.targets))
                or (isinstance(st, ast.AnnAssign) and isinstance(st.target, ast.Name) and st.target.id == name and st.value is not None)]
        if len(vals) != 1:
            return False
        v = vals[0]
    else:
        return False
    return never_rebound_display(mod, name, v)


def values_by_equality_clause(ck, rule, modules):
    """A bound value and its type are the identity of a call: True, 1 and 1.0 are three different arguments.  A dict / set
    lookup compares by Python equality and hash, under which they are one.  So no value of the argument domain may be
    (part of) the key under which something is looked up or kept in a container that outlives the call: the second of two
    equal-comparing values would be answered with what the first one left there."""
    from .valeq import VALUE_PARAMS
    n = 0
    for qual, params in sorted(VALUE_PARAMS.items()):
        if qual.split(".")[0] not in modules:
            continue
        fi = ck.repo.try_func(qual)
        if fi is None:
            continue
        fa = FA(ck, fi)
        vp = set(params)
        sites = []   # (container expr, key expr, node to show)
        for x in A.walk_body(fa.node):
            if isinstance(x, ast.Subscript) and not isinstance(x.slice, ast.Slice):
                sites.append((x.value, x.slice, x))
            elif isinstance(x, ast.Call) and isinstance(x.func, ast.Attribute) and x.func.attr in _EQ_LOOKUPS and x.args:
                sites.append((x.func.value, x.args[0], x))
            elif isinstance(x, ast.Compare) and len(x.ops) == 1 and isinstance(x.ops[0], (ast.In, ast.NotIn)):
                sites.append((x.comparators[0], x.left, x))
        for (t, k, x) in sites:
            ids = fa.nodes(x)
            if not ids:
                continue
            n += 1
            vals = _value_in_key(fa, k, ids[0], vp)
            if not vals:
                continue
            where = _outlives_call(fa, t, ids[0], vp)
            if not where or _never_written_table(fa, t):
                continue
            ck.ob(rule, fa.key(x, "by-equality:" + A.norm(t)), False,
                  "`%s` looks up / keeps an entry of %s, which outlives the call, under a key that holds the argument values %s as Python values: "
                  "dict and set keys are compared with == and hash, under which True, 1 and 1.0 (0, 0.0 and False) are one key, so the second of two "
                  "equal-comparing arguments of different type is answered with what the first one left there - it gets the first one's bound values, "
                  "key and memoized result, although the two are different calls" % (A.short(x, 60), where, sorted(vals)), fa.where(x))
    ck.ob(rule, "values-by-equality::scan", True, "%d lookups in the value-carrying functions of %s; none keys state that outlives the call by an argument value" % (n, list(modules)), "")


def check(ck):
    from .memo import check_new_memo_tables
    ck.run(check_new_memo_tables, ck, "C04.M1", ('reference', 'base', 'serialization'))
    R1, R2, R3 = "C04.R1", "C04.R2", "C04.R3"
    ck.rule(R1, "dispatch agreement: what validate_args admits is accepted by the encoder; every type tag and every "
                "JSON-level type the encoder emits is handled by the decoder and by the canonical JSON writer", 6)
    ck.rule(R2, "canonical form: mapping entries are written in key-sorted order with the separators [ , ] { : } and no "
                "whitespace; the hash is the full hex SHA-256 of the UTF-8 bytes of that text", 6)
    ck.rule(R3, "normalise, then hash, then call: args, kwargs, context args and partial args are normalised before "
                "they are stored; the hash derives from the effective kwargs built from those normalised values", 8)
    enc = FA(ck, AH + "._encode")
    dec = FA(ck, AH + "._decode")
    nj = FA(ck, AH + "._normalized_json")
    EP, DP, NP = enc.fi.params[0], dec.fi.params[0], nj.fi.params[0]
    enc_types = _value_types(enc, EP)
    # an encoder in which no test on the class of its argument is visible is written in a way this rule cannot read (the
    # argument is classified elsewhere, a table of handlers keyed by something computed): no verdict, rather than the
    # verdict that it accepts nothing
    ck.need(len(enc_types - {"None"}) >= 2, "%s._encode: how the argument's class selects the encoding is not recognised" % AH)
    dec_types = _value_types(dec, DP)
    nj_types = _value_types(nj, NP)
    # the canonical writer may also be the library's own: json.dumps(obj, sort_keys=True, separators=(',', ':'))
    def prim_lit(t, p, P):
        return p and (("%s is None" % P) in t or ("isinstance(%s" % P in t and any(x in t for x in PRIMS)))

    nj_cases = result_cases(nj)
    n_canon = 0
    lib_writer = bool(nj_cases)
    for (conj, v, at) in nj_cases:
        e = strip_cast(nj.expand(v, at))
        if not (isinstance(e, ast.Call) and A.call_dotted(e) == "json.dumps" and [A.norm(a) for a in e.args] == [NP]):
            lib_writer = False
        elif not e.keywords:
            lib_writer = lib_writer and any(prim_lit(t, p, NP) for (t, p) in conj)
        else:
            okl = {k.arg for k in e.keywords} <= {"sort_keys", "separators", "ensure_ascii", "allow_nan"} \
                and A.norm(A.kwarg(e, "sort_keys")) == "True" and A.norm(A.kwarg(e, "separators")) in ("(',', ':')", "[',', ':']") \
                and A.norm(A.kwarg(e, "ensure_ascii")) in ("", "True") and A.norm(A.kwarg(e, "allow_nan")) in ("", "True")
            lib_writer = lib_writer and okl
            n_canon += 1
    lib_writer = lib_writer and n_canon >= 1
    va = _validator_predicate(ck)
    vfa = FA(ck, va)
    ck.need(bool(vfa.fi.params), "validate_args.validate_arg takes no value")
    val_types = _value_types(vfa, vfa.fi.params[0])
    miss = val_types - enc_types
    ck.ob(R1, vfa.key(None, "admitted-subset-accepted"), not miss and len(val_types) >= 8,
          "validate_args admits %s, all accepted by the encoder" % sorted(val_types) if not miss else
          "validate_args admits %s which the hash encoder rejects" % sorted(miss), vfa.where())
    want = {"None", "bool", "str", "int", "float", "datetime.datetime", "datetime.date", "list", "dict", "MementoFunctionType"}
    ck.ob(R1, enc.key(None, "domain"), want <= enc_types, "the encoder accepts the documented argument domain" if want <= enc_types else
          "the hash encoder no longer accepts %s" % sorted(want - enc_types), enc.where())
    json_level = {"None", "bool", "str", "int", "float", "list", "dict"}
    for (fa, types, what) in ((dec, dec_types, "decoder"), (nj, nj_types, "canonical JSON writer")):
        ok = json_level <= types or (fa is nj and lib_writer)
        ck.ob(R1, fa.key(None, "json-level-types"), ok, "the %s handles every JSON-level type the encoder emits" % what if ok else
              "the %s does not handle %s, which the encoder emits" % (what, sorted(json_level - types)), fa.where())
    tags_out = set()
    keys_out = {}
    tagged_vals = {}
    for d in [n for n in A.walk_body(enc.node) if isinstance(n, (ast.Dict, ast.Call))]:
        tg = _tagged(d)
        if tg is not None:
            tags_out.add(tg[0])
            keys_out[tg[0]] = set(tg[1])
            tagged_vals[tg[0]] = (tg[1], d)

    def tag_read(e, at):
        """is `e` the value stored under the tag key of the decoder's argument?"""
        try:
            x = strip_cast(dec.expand(e, at))
        except AnalysisError:
            return False
        if isinstance(x, ast.Subscript):
            return A.const_str(x.slice) == TAG and A.norm(x.value) == DP
        if isinstance(x, ast.Call) and A.call_attr(x) == "get" and x.args and A.const_str(x.args[0]) == TAG:
            return A.norm(A.call_recv(x)) == DP
        return False

    tags_in = set()
    for n in A.walk_body(dec.node):
        if isinstance(n, ast.Compare) and len(n.ops) == 1 and dec.nodes(n):
            at = dec.nodes(n)[0]
            op, l, r = n.ops[0], n.left, n.comparators[0]
            if isinstance(op, (ast.Eq, ast.NotEq)):
                for (a, b) in ((l, r), (r, l)):
                    if A.const_str(b) is not None and tag_read(a, at):
                        tags_in.add(A.const_str(b))
            elif isinstance(op, (ast.In, ast.NotIn)) and isinstance(r, (ast.Tuple, ast.List, ast.Set)) and tag_read(l, at):
                tags_in |= {A.const_str(x) for x in r.elts if A.const_str(x) is not None}
    ck.ob(R1, dec.key(None, "tags"), tags_out == tags_in and {"datetime", "date", "FunctionReference"} <= tags_out, "type tags agree: %s" % sorted(tags_out, key=str) if tags_out == tags_in else
          "type tags differ: encoder emits %s, decoder handles %s (None: a tag that is not a literal)" % (sorted(tags_out, key=str), sorted(tags_in, key=str)), dec.where())
    keys_in = set()
    for n in A.walk_body(dec.node):
        if isinstance(n, ast.Subscript) and A.const_str(n.slice) and _subject_is(dec, n.value, DP):
            keys_in.add(A.const_str(n.slice))
        elif isinstance(n, ast.Call) and A.call_attr(n) in ("get", "pop") and n.args and A.const_str(n.args[0]) and A.call_recv(n) is not None \
                and _subject_is(dec, A.call_recv(n), DP):
            keys_in.add(A.const_str(n.args[0]))
    all_out = set().union(*keys_out.values()) if keys_out else set()
    ck.ob(R1, dec.key(None, "tagged-object-keys"), keys_in == all_out, "tagged objects are read with the keys they are written with" if keys_in == all_out else
          "tagged-object keys differ: written %s, read %s" % (sorted(all_out), sorted(keys_in)), dec.where())
    # the spec keys
    spec = {"datetime": {"_mementoType", "iso8601"}, "date": {"_mementoType", "iso8601"},
            "FunctionReference": {"_mementoType", "qualifiedName", "partialArgs", "partialKwargs", "parameterNames"}}
    # the tag key is reserved: a plain dict that carries it must not leave the encoder looking like a tagged
    # object (it would share the argument hash of the date / reference it imitates and be decoded into it).
    # Decided per path class: whenever the argument is a dict and the result is not a tagged object, the
    # path has established that the tag key is absent.
    dict_ifs = [i for i in enc.stmts(ast.If) if A.isinstance_types(i.test) and "dict" in A.isinstance_types(i.test)[1]]
    edi = dict_ifs[0] if dict_ifs else None
    cases = result_cases(enc)
    plain = 0
    okt = True
    for (conj, v, at) in cases:
        # (the cases a mapping takes: selected by a test on the argument's class that holds for a dict, with no other test
        # on its class that a dict fails - `isinstance(arg, (list, dict, ...))` ahead of the ladder selects nothing by itself)
        feasible_, selected_ = _case_for_class(enc, conj, EP, "dict")
        if not (feasible_ and selected_):
            continue
        try:
            x = strip_cast(enc.expand(v, at))
        except AnalysisError:
            x = v
        if _tagged(x) is not None:
            continue
        plain += 1
        absent = any((not p) and t in ("'%s' in %s" % (TAG, EP), "'%s' in %s.keys()" % (TAG, EP)) for (t, p) in conj)
        okt = okt and absent
    okt = okt and plain >= 1
    ck.ob(R1, enc.key(edi, "tag-key-reserved"), okt,
          "a plain dict that contains the tag key is wrapped / rejected, never passed through as it is" if okt else
          "the dict branch of the hash encoder passes a mapping that contains '_mementoType' through unchanged: {'_mementoType': 'date', 'iso8601': ...} "
          "gets the argument hash of the date it imitates and reaches the function as a date", enc.where(edi))
    oks = all(keys_out.get(t) == k for t, k in spec.items())
    ck.ob(R1, enc.key(None, "spec-keys"), oks, "tagged objects use the documented cross-language field names" if oks else
          "tagged-object fields deviate from the documented encoding: %s" % {t: sorted(v) for t, v in keys_out.items()}, enc.where())
    pairs = repo_subclass_pairs(ck)
    lad = extract_ladder(enc.node)
    n = check_ladder_order(ck, R1, enc, lad, pairs, "hash-encode")
    if n < 1:
        # not a ladder the extractor reads: decide it on the path classes — a datetime never gets the 'date' tag
        n_date = 0
        okd = True
        for (conj, v, at) in cases:
            try:
                tg = _tagged(strip_cast(enc.expand(v, at)))
            except AnalysisError:
                tg = None
            if tg is not None and tg[0] == "date":
                n_date += 1
                okd = okd and any((not p) and _isinstance_lit(t, EP, "datetime.datetime") for (t, p) in conj)
        ck.need(n_date >= 1, "hash encoder ladder: datetime/date order not comparable")
        ck.ob(R1, enc.key(None, "hash-encode:datetime.datetime-before-datetime.date"), okd,
              "datetime.datetime is tested before its superclass datetime.date" if okd else
              "datetime.datetime is tested after its superclass datetime.date: a datetime.datetime value takes the datetime.date branch", enc.where())
    n_iso = 0
    for t in ("datetime", "date"):
        if t in tagged_vals and "iso8601" in tagged_vals[t][0]:
            v, d = tagged_vals[t]
            ids = enc.nodes(d)
            x = strip_cast(enc.expand(v["iso8601"], ids[0])) if ids else v["iso8601"]
            if isinstance(x, ast.Call) and A.call_attr(x) == "isoformat" and not x.args and not x.keywords and A.norm(A.call_recv(x)) == EP:
                n_iso += 1
    ck.ob(R1, enc.key(None, "iso8601"), n_iso == 2, "dates and datetimes are written as isoformat()" if n_iso == 2 else
          "date/datetime encoding no longer uses isoformat()", enc.where())

    # ---- R2
    dict_if = [i for i in nj.stmts(ast.If) if A.isinstance_types(i.test) and "dict" in A.isinstance_types(i.test)[1]]
    di = dict_if[0] if dict_if else None
    # every traversal of the mapping goes through sorted(...) on the key, ascending
    views = []   # (node, parent) of obj.items() / obj.keys() / obj.values() / iteration over obj in the dict case
    pm = nj.pm
    for n_ in A.walk_body(nj.node):
        if isinstance(n_, ast.Call) and A.call_attr(n_) in ("items", "keys", "values") and not n_.args and A.call_recv(n_) is not None \
                and _subject_is(nj, A.call_recv(n_), NP):
            views.append(n_)
    srt = [c for c in nj.calls("sorted")]
    good = []
    for c in srt:
        a0 = c.args[0] if c.args else None
        is_items = a0 in views and A.call_attr(a0) == "items"
        is_keys = (a0 in views and A.call_attr(a0) == "keys") or (a0 is not None and _subject_is(nj, a0, NP))
        k = A.kwarg(c, "key")
        okc_ = len(c.args) == 1 and A.kwarg(c, "reverse") is None and ((is_items and _first_key(nj, k)) or (is_keys and k is None))
        if okc_:
            good.append(c)
    ok = bool(good) and len(good) == len(srt) and all(any(v is c.args[0] for c in good) for v in views if A.call_attr(v) != "values")
    ok = ok or lib_writer
    ck.ob(R2, nj.key(di, "sorted-by-key"), ok, "mapping entries are written in ascending key order" if ok else
          "mapping entries are not written in key-sorted order: insertion order changes the hash", nj.where(di))
    pieces = []
    for s in nj.node.body:
        pieces += _out_literals(s)
    seps = {v for (k, v) in pieces if v and (k == "tmpl" or (len(v) <= 4 and not any(ch.isalnum() for ch in v)))}
    chars = set("".join(seps))
    oksep = chars == {"[", ",", "]", "{", ":", "}"} or lib_writer
    ck.ob(R2, nj.key(None, "separators"), oksep, "separators are exactly [ , ] { : } with no whitespace" if oksep else
          "canonical JSON separators are %s" % sorted(seps), nj.where())
    # the key of every entry is written as a JSON string literal: json.dumps(<key variable of the sorted traversal>)
    okk = lib_writer
    for c in good:
        par = pm.get(c)
        # (a dict built from the sorted items keeps their order)
        while isinstance(par, ast.Call) and A.call_attr(par) in ("list", "tuple", "dict", "OrderedDict") and par.args == [c] and not par.keywords:
            c, par = par, pm.get(par)
        tgt = None
        scope = None
        if isinstance(par, ast.comprehension) and par.iter is c:
            tgt = par.target
            scope = pm.get(par)
        elif isinstance(par, ast.For) and par.iter is c:
            tgt, scope = par.target, par
        elif isinstance(par, ast.Assign) and len(par.targets) == 1 and isinstance(par.targets[0], ast.Name):
            nm = par.targets[0].id
            for n_ in A.walk_body(nj.node):
                it = n_.iter if isinstance(n_, (ast.comprehension, ast.For)) else None
                if isinstance(it, ast.Call) and A.call_attr(it) in ("items", "keys") and not it.args and isinstance(A.call_recv(it), ast.Name):
                    it = A.call_recv(it)
                if isinstance(it, ast.Name) and it.id == nm:
                    tgt, scope = n_.target, (pm.get(n_) if isinstance(n_, ast.comprehension) else n_)
        if tgt is None or scope is None:
            continue
        kv = tgt.elts[0] if isinstance(tgt, ast.Tuple) and tgt.elts else tgt
        if isinstance(kv, ast.Name):
            okk = okk or any(isinstance(x, ast.Call) and A.call_dotted(x) == "json.dumps" and [A.norm(a) for a in x.args] == [kv.id] and not x.keywords
                             for x in ast.walk(scope))
    ck.ob(R2, nj.key(di, "keys-json-quoted"), bool(okk), "keys are JSON string literals" if okk else "mapping keys are not written with json.dumps(key)", nj.where(di))
    okp = lib_writer
    for (conj, v, at) in nj_cases:
        try:
            txt = nj.xnorm(v, at)
        except AnalysisError:
            txt = A.norm(v)
        if txt == "json.dumps(%s)" % NP and any(prim_lit(t, p, NP) for (t, p) in conj):
            okp = True
    ck.ob(R2, nj.key(None, "primitives"), okp, "primitives are written by json.dumps" if okp else "primitives are not written with json.dumps(obj)", nj.where())
    own = nj.fi.name
    rec = [x for x in A.walk_body(nj.node) if (isinstance(x, ast.Attribute) and x.attr == own) or (isinstance(x, ast.Name) and x.id == own)]
    okrec = len(rec) >= 2 or lib_writer
    ck.ob(R2, nj.key(None, "recursive"), okrec, "lists and mappings recurse" if okrec else "nested values are not normalised recursively", nj.where())
    ch = FA(ck, AH + ".compute_hash")
    CP = ch.fi.params[0]
    imports = getattr(ch.fi.module, "imports", {}) or {}

    def is_sha256(c):
        d = A.call_dotted(c)
        if d == "hashlib.sha256" or (d == "sha256" and str(imports.get("sha256", "")).endswith(":sha256")):
            return True
        return d == "hashlib.new" and bool(c.args) and A.const_str(c.args[0]) == "sha256"

    hashers = [c for c in ch.calls() if A.call_attr(c) in ("sha256", "md5", "sha1", "sha512", "sha224", "sha384", "blake2b", "blake2s", "new", "sha3_256")
               and (A.call_dotted(c) or "").split(".")[0] in ("hashlib", "sha256", "md5", "sha1", "sha512")]
    oka = len(hashers) == 1 and is_sha256(hashers[0])
    ck.ob(R2, ch.key(None, "sha256"), oka, "SHA-256" if oka else "the argument hash is not hashlib.sha256", ch.where())
    # what is fed to the digest: update(...) arguments and the constructor's data argument
    feeds = []
    for c in ch.calls("update"):
        recv = A.call_recv(c)
        o_ = origin(ch, recv, ch.nodes(c)[0]) if recv is not None and ch.nodes(c) else None
        made = strip_cast(o_.value) if o_ is not None else (strip_cast(recv) if recv is not None else None)
        if c.args and (any(made is h for h in hashers) or not hashers):
            feeds.append((c, c.args[0]))
    for c in hashers:
        data = [a for a in c.args if not (A.call_dotted(c) == "hashlib.new" and a is c.args[0])]
        if data:
            feeds.append((c, data[0]))
    if not feeds:
        raise AnalysisError("%s: expected a digest update, found none" % ch.qual)
    up = feeds[0][0]
    oku = len(feeds) == 1
    if oku:
        x = feeds[0][1]
        at = ch.nodes(x)[0] if ch.nodes(x) else None
        d = ch.deps(x)
        oku = "call:_normalized_json" in d and "call:_encode" in d and ("param:" + CP) in d
        utf8 = any(("const:%r" % u) in d for u in ("utf-8", "utf8", "UTF-8", "utf_8"))
        if not utf8 and at is not None:
            e = strip_cast(ch.expand(x, at))
            utf8 = isinstance(e, ast.Call) and A.call_attr(e) == "encode" and not e.args and not e.keywords
        oku = oku and utf8
    ck.ob(R2, ch.key(up, "input"), oku, "the digest input is utf-8(normalized_json(encode(effective kwargs)))" if oku else
          "the digest input is not the UTF-8 canonical JSON of the encoded effective kwargs", ch.where(up))
    # the key is a function of the effective kwargs alone: nothing else (another argument, a table kept between calls)
    # finds its way into the digest, the encoded form or the canonical text
    for (f_, prm_, vals_, what_) in ((ch, CP, [(x_, ch.nodes(x_)[0]) for (_c, x_) in feeds if ch.nodes(x_)], "argument hash"),
                                     (enc, EP, [(r_.value, enc.nodes(r_)[0]) for r_ in enc.returns() if r_.value is not None and enc.nodes(r_)], "encoded form"),
                                     (nj, NP, [(r_.value, nj.nodes(r_)[0]) for r_ in nj.returns() if r_.value is not None and nj.nodes(r_)], "canonical text")):
        extra = other_inputs(ck, f_, vals_, prm_)
        ck.ob(R2, f_.key(None, "function-of-the-value-only"), not extra, "the %s is computed from `%s` and constants only" % (what_, prm_) if not extra else
              "the %s is computed from `%s` and also from %s: the key is no longer the SHA-256 of the canonical JSON of the effective kwargs, so a call "
              "whose bound values differ from what that other source holds gets the key (and the stored result) of another call"
              % (what_, prm_, "; ".join(sorted({d_ for (_w, d_) in extra}))), f_.where())
    rets = [r for r in ch.returns() if ch.nodes(r)]
    okr = bool(rets)
    for r in rets:
        e = strip_cast(ch.expand(r.value, ch.nodes(r)[0])) if r.value is not None else None
        okr = okr and isinstance(e, ast.Call) and A.call_attr(e) == "hexdigest" and not e.args and not e.keywords
    ck.ob(R2, ch.key(None, "full-hex"), okr, "the full lowercase hex digest is the hash" if okr else "the argument hash is truncated or not the hex digest", ch.where())

    # ---- R3
    nm = FA(ck, AH + ".normalize")
    rr = [r for r in nm.returns() if nm.nodes(r)]
    # (a value for which decode(encode(x)) is x itself - None, a boolean, a number, a string - may be answered as it is)
    def _through_both(r):
        return r.value is not None and "call:_decode" in nm.deps(r.value) and "call:_encode" in nm.deps(r.value)

    def _is_argument(r):
        try:
            return r.value is not None and nm.fi.params and A.norm(strip_cast(nm.expand(r.value, nm.nodes(r)[0]))) == nm.fi.params[0]
        except AnalysisError:
            return False
    okn = bool(rr) and any(_through_both(r) for r in rr) and all(_through_both(r) or _is_argument(r) for r in rr) and \
        not any(_answers_its_argument(nm, nm.fi.params[0], typ_) for typ_ in ("datetime.datetime", "datetime.date", "MementoFunctionType") if nm.fi.params)
    ck.ob(R3, nm.key(None), okn, "normalize = decode(encode(x))" if okn else "normalize is no longer decode(encode(x))", nm.where())
    R6 = "C04.R6"
    ck.rule(R6, "the body receives exactly the normalised values the key was computed from: a normalised list / mapping is a container built by "
                "the encoder or the decoder (the reference's own), never the caller's object", 2)
    ck.run(own_containers_clause, ck, R6, enc, dec, nm)
    fl = FlatInit(ck)
    ini = fl.fa
    EXIT = fl.exit
    EMPTY = ("()", "[]", "{}", "tuple()", "list()", "dict()", "tuple([])", "tuple(())")

    kept_why = {}

    def normalised_field(fa, field, src):
        ds = fa.df.reaching(fa.cfg.exit, "self." + field)
        if not ds or any(d.kind != "assign" or d.value is None for d in ds):
            return False
        n_norm = 0
        for d in ds:
            kept = outliving_state_reads(fa, d.value, d.node)
            if kept:
                # made from what an earlier construction left behind (a table, a result-keeping helper): equal-comparing
                # values of different type (1, 1.0, True) come back as whichever was seen first
                kept_why[field] = "self.%s is answered from %s: a value that compares equal to an earlier one but differs in type (1 / 1.0 / True) " \
                    "is stored, keyed and passed to the body as the earlier one" % (field, ", ".join(kept))
                return False
            dp = fa.deps(d.value, d.node)
            if ("call:normalize" in dp or ("call:_decode" in dp and "call:_encode" in dp)) and ("param:" + src) in dp:
                n_norm += 1
            elif not is_empty_value(fa.xnorm(d.value, d.node)):
                return False
        return n_norm >= 1

    for field, src in (("args", "args"), ("kwargs", "kwargs"), ("context_args", "context_args")):
        ok = normalised_field(ini, field, src)
        ck.ob(R3, ini.key(None, "normalised-" + field), ok, "self.%s holds the normalised values" % field if ok else kept_why.get(field) or
              "self.%s is stored without ArgumentHasher.normalize: the body sees other values than the key was computed from" % field, ini.where())
    ek = fl.ek
    # every read of the normalised fields (and every helper left as a call) sees their final values
    okE = ek is not None
    for n_ in A.walk_body(ini.node):
        ids = ini.nodes(n_) if isinstance(n_, (ast.Attribute, ast.Call)) else []
        if not ids:
            continue
        reads = []
        if isinstance(n_, ast.Attribute) and isinstance(n_.ctx, ast.Load) and _ref_name(n_) in ("self.args", "self.kwargs", "self.context_args", "self.effective_kwargs"):
            reads = [_ref_name(n_)]
        elif isinstance(n_, ast.Call) and isinstance(n_.func, ast.Attribute) and isinstance(n_.func.value, ast.Name) and n_.func.value.id == "self" \
                and n_.func.attr.startswith("_") and not n_.func.attr.endswith("__"):
            reads = ["self.args", "self.kwargs"]
        for nm_ in reads:
            fin = {(d.node, d.name) for d in ini.df.reaching(EXIT, nm_)}
            okE = okE and all(fin and {(d.node, d.name) for d in ini.df.reaching(i, nm_)} == fin for i in ids)
    ck.ob(R3, ini.key(None, "effective-after-normalise"), okE, "effective kwargs are computed from the normalised fields" if okE else
          "effective_kwargs is computed before / without the normalised args and kwargs", ini.where())

    def mutations(fa_, d):
        """statements that change the mapping created by definition d: [(stmt, node ids)]"""
        out = []
        for s in fa_.stmts((ast.Assign, ast.AugAssign, ast.Expr, ast.Delete)):
            ids = fa_.nodes(s)
            if not ids:
                continue
            tg = []
            if isinstance(s, ast.Assign):
                tg = [t.value for t in s.targets if isinstance(t, ast.Subscript)]
            elif isinstance(s, ast.AugAssign):
                tg = [s.target.value] if isinstance(s.target, ast.Subscript) else ([s.target] if isinstance(s.op, ast.BitOr) else [])
            elif isinstance(s, ast.Delete):
                tg = [t.value for t in s.targets if isinstance(t, ast.Subscript)]
            elif isinstance(s.value, ast.Call) and A.call_attr(s.value) in ("update", "setdefault", "pop", "clear", "popitem") and A.call_recv(s.value) is not None:
                tg = [A.call_recv(s.value)]
            if any(same_def(origin(fa_, t, ids[0]), d) for t in tg):
                out.append((s, ids))
        return out

    ek_muts = mutations(ini, ek) if ek is not None else []
    hks = fl.hks
    okC = fl.hash_call is not None and bool(hks) and ek is not None
    if okC:
        # in every case the hash input is the effective kwargs or starts as a copy of them
        late_from = []
        for h in hks:
            sh = map_shape(h.value)
            okC = okC and (same_def(h, ek) or (sh is not None and sh[0] is not None and same_def(origin(ini, sh[0], h.node), ek)))
            late_from.append(h.node if not same_def(h, ek) else fl.hash_at)
        # the mapping is complete when the hash (input) is taken
        after = ini.cfg.reach(late_from, include_start=False)
        okC = okC and not any(set(ids) & after for (s, ids) in ek_muts)
    ck.ob(R3, ini.key(None, "hash-after-effective"), bool(okC), "the hash is computed from the effective kwargs (+ context args)" if okC else
          "arg_hash is not computed after effective_kwargs / effective_kwargs_with_context_args", ini.where())
    # the key differs whenever the context arguments differ: they are on the hash input (under the reserved key, exactly
    # when there are any) when the hash is taken, and every store of that key is on the hash input
    from .c16 import reserved_key_clause
    okR, where_R, stores_R, _shapes_R, n_R = reserved_key_clause(fl)
    okR = okR and fl.hash_call is not None and n_R >= 1 and all(fl.denotes_any(m_, ini.nodes(s_)[0], hks) for (s_, m_, v_) in stores_R)
    ck.ob(R3, ini.key(None, "hash-covers-context-args"), bool(okR), "the hashed mapping holds the context args whenever there are any" if okR else
          "the context args are not part of what arg_hash is computed from: calls that differ only in their context args get the same key", where_R)
    # ---- how the effective kwargs are bound (the statements may live in a helper or in the constructor itself;
    # a helper that could not be flattened into the constructor is looked at on its own)
    bfa, bek = ini, ek
    if ek is not None:
        v_ = strip_cast(ek.value)
        if isinstance(v_, ast.Call) and isinstance(v_.func, ast.Attribute) and A.norm(v_.func.value) == "self" and not v_.args and not v_.keywords:
            helper = ck.repo.find_method(ini.fi.cls, v_.func.attr)
            if helper is not None and helper.node is not ini.fi.node:
                hfa = FA(ck, helper)
                os_ = [origin(hfa, r.value, hfa.nodes(r)[0]) for r in hfa.returns() if hfa.nodes(r) and r.value is not None]
                if os_ and all(same_def(os_[0], o) for o in os_):
                    bfa, bek = hfa, os_[0]
    CE_Q = FRA + "._compute_effective_kwargs"
    where_ce = bfa.where(bek.stmt) if bek is not None and bek.stmt is not None else bfa.where()
    ck.ob(R3, CE_Q + "::returns-result", bek is not None, "the bound mapping is returned" if bek is not None else "the bound mapping is not what is returned", where_ce)
    self_ref = ast.parse("self.fn_reference", mode="eval").body
    REF = ftext(bfa, self_ref, bfa.cfg.exit) if bek is None else ftext(bfa, self_ref, bek.node)

    def creation(v):
        """how the expression that creates a mapping puts it together: (what it copies or None, [mappings merged
        in after that, in order], something else goes in as well); None if `v` does not create a mapping"""
        v = strip_cast(v)
        src = is_copy_of(v)
        if src is not None:
            return (src, [], False)
        if isinstance(v, ast.Dict):
            base, merges, odd_ = None, [], False
            for i, (k, x) in enumerate(zip(v.keys, v.values)):
                if k is None and i == 0:
                    base = x
                elif k is None:
                    merges.append(x)
                else:
                    odd_ = True
            return (base, merges, odd_)
        if isinstance(v, ast.Call) and isinstance(v.func, ast.Name) and v.func.id == "dict" and len(v.args) <= 1:
            return (v.args[0] if v.args else None, [k.value for k in v.keywords if k.arg is None], any(k.arg is not None for k in v.keywords))
        if isinstance(v, ast.BinOp) and isinstance(v.op, ast.BitOr):
            l = creation(v.left) if isinstance(strip_cast(v.left), ast.BinOp) else None
            return (l[0], l[1] + [v.right], l[2]) if l is not None else (v.left, [v.right], False)
        return None

    # the mapping may be built in stages: a mapping that is filled, then `{**that, **more}` ...; the stages, first one first
    chain = [bek] if bek is not None else []
    while chain and len(chain) < 5:
        cr = creation(chain[0].value)
        prev = origin(bfa, cr[0], chain[0].node) if cr is not None and cr[0] is not None and _ref_name(strip_cast(cr[0])) is not None else None
        if prev is None or creation(prev.value) is None or any(same_def(prev, d_) for d_ in chain):
            break
        chain.insert(0, prev)
    root_cr = creation(chain[0].value) if chain else None
    ok1 = root_cr is not None and root_cr[0] is not None and ftext(bfa, root_cr[0], chain[0].node) == REF + ".partial_kwargs"

    def is_ek(e, at):
        o_ = origin(bfa, e, at)
        return any(same_def(o_, d_) for d_ in chain)

    pos_bind = []   # (names expr, values expr, node, key)
    kw_merge = []   # (source expr, node, key)
    odd = []
    contribs = []   # (node, key) of everything that goes into the mapping, and `order` of those that share a node
    order = {}

    def later(x, y):
        """contribution y = (node, key) takes effect after contribution x"""
        if x[0] == y[0]:
            return order.get(id(y[1]), 0) > order.get(id(x[1]), 0)
        return y[0] in bfa.cfg.reach([x[0]], include_start=False)

    def classify_merge(a0, at, key, shown):
        """a mapping poured into the result: names zipped with values (positional binding) or keyword arguments"""
        a0 = strip_cast(a0)
        for _ in range(4):
            # a stage of its own (`from_args = dict(zip(names, values))`, then `{**bound, **from_args}`): the local is read as
            # what it was made as — one expression that builds a mapping, or a plain copy of another mapping
            d0 = single_def(bfa, a0.id, at) if isinstance(a0, ast.Name) else None
            v0 = strip_cast(d0.value) if d0 is not None else None
            if v0 is None or any(same_def(d0, d_) for d_ in chain):
                break
            if isinstance(v0, ast.DictComp) or (isinstance(v0, ast.Call) and A.call_attr(v0) in ("dict", "zip")):
                a0 = v0
                break
            if is_copy_of(v0) is None:
                break
            a0 = strip_cast(is_copy_of(v0))
        if isinstance(a0, ast.Call) and A.call_attr(a0) == "dict" and len(a0.args) == 1 and not a0.keywords:
            a0 = strip_cast(a0.args[0])
        comp_ = a0 if isinstance(a0, ast.DictComp) and len(a0.generators) == 1 and not a0.generators[0].ifs else None
        g_ = comp_.generators[0] if comp_ is not None else None
        if g_ is not None and isinstance(g_.target, ast.Tuple) and len(g_.target.elts) == 2 and isinstance(strip_cast(g_.iter), ast.Call) \
                and [A.norm(x) for x in g_.target.elts] == [A.norm(comp_.key), A.norm(comp_.value)] and all(isinstance(x, ast.Name) for x in g_.target.elts):
            # {name: value for name, value in zip(names, values)} / {k: v for k, v in mapping.items()}
            it_ = strip_cast(g_.iter)
            if A.call_attr(it_) == "zip" and len(it_.args) == 2:
                pos_bind.append((it_.args[0], it_.args[1], at, key))
            elif A.call_attr(it_) == "items" and not it_.args and A.call_recv(it_) is not None:
                kw_merge.append((A.call_recv(it_), at, key))
            else:
                odd.append((shown, ""))
        elif isinstance(a0, ast.Call) and A.call_attr(a0) == "zip" and len(a0.args) == 2:
            pos_bind.append((a0.args[0], a0.args[1], at, key))
        else:
            kw_merge.append((a0, at, key))

    def classify_stmt(s, at):
        if isinstance(s, ast.Assign) and len(s.targets) == 1 and isinstance(s.targets[0], ast.Subscript):
            K, V = s.targets[0].slice, s.value
            loop = bfa.enclosing(s, (ast.For, ast.While))
            done = False
            if isinstance(loop, ast.For) and not loop.orelse:
                it, tg = strip_cast(loop.iter), loop.target
                if isinstance(tg, ast.Name) and isinstance(K, ast.Subscript) and isinstance(V, ast.Subscript) and A.norm(K.slice) == tg.id == A.norm(V.slice) \
                        and isinstance(it, ast.Call) and A.call_attr(it) == "range":
                    pos_bind.append((K.value, V.value, at, s))
                    done = True
                elif isinstance(tg, ast.Tuple) and len(tg.elts) == 2 and all(isinstance(x, ast.Name) for x in tg.elts) and isinstance(it, ast.Call):
                    a, b = tg.elts[0].id, tg.elts[1].id
                    if A.call_attr(it) == "zip" and len(it.args) == 2 and A.norm(K) == a and A.norm(V) == b:
                        pos_bind.append((it.args[0], it.args[1], at, s))
                        done = True
                    elif A.call_attr(it) == "enumerate" and len(it.args) == 1 and isinstance(K, ast.Subscript) and A.norm(K.slice) == a and A.norm(V) == b:
                        pos_bind.append((K.value, it.args[0], at, s))
                        done = True
                    elif A.call_attr(it) == "enumerate" and len(it.args) == 1 and isinstance(V, ast.Subscript) and A.norm(V.slice) == a and A.norm(K) == b:
                        pos_bind.append((it.args[0], V.value, at, s))
                        done = True
                    elif A.call_attr(it) == "items" and not it.args and A.norm(K) == a and A.norm(V) == b:
                        kw_merge.append((A.call_recv(it), at, s))
                        done = True
            if not done:
                odd.append((A.norm(s.targets[0]), A.norm(V)))
        elif isinstance(s, ast.AugAssign) and isinstance(s.op, ast.BitOr) and not isinstance(s.target, ast.Subscript):
            # result |= mapping
            classify_merge(s.value, at, s, A.short(s, 60))
        elif isinstance(s, ast.Expr) and A.call_attr(s.value) == "update":
            c = s.value
            if len(c.args) == 1 and not c.keywords:
                classify_merge(c.args[0], at, s, A.norm(c))
            elif not c.args and len(c.keywords) == 1 and c.keywords[0].arg is None:
                kw_merge.append((c.keywords[0].value, at, s))
            else:
                odd.append((A.norm(c), ""))
        else:
            odd.append((A.short(s, 60), ""))

    for ci, d_ in enumerate(chain):
        cr = creation(d_.value)
        if cr is not None:
            if cr[2]:
                odd.append((A.short(d_.value, 60), ""))
            for li, x in enumerate(cr[1]):
                order[id(x)] = li + 1
                contribs.append((d_.node, x))
                classify_merge(x, d_.node, x, A.short(x, 60))
        nxt = chain[ci + 1].node if ci + 1 < len(chain) else None
        for (s_, ids) in mutations(bfa, d_):
            if nxt is not None and not any(nxt in bfa.cfg.reach([i]) for i in ids):
                continue    # changes of an earlier stage after the next one was made from it do not reach the result
            contribs.append((ids[0], s_))
            classify_stmt(s_, ids[0])
    if not ok1 and root_cr is not None and root_cr[0] is None:
        # created empty and filled from the partial kwargs before anything else goes in
        for m0 in kw_merge:
            others = [c_ for c_ in contribs if c_[1] is not m0[2]]
            if ftext(bfa, m0[0], m0[1]) == REF + ".partial_kwargs" and all(later((m0[1], m0[2]), c_) and not later(c_, (m0[1], m0[2])) for c_ in others) \
                    and all(c_[0] == m0[1] or bfa.cfg.must_pass([m0[1]], c_[0]) for c_ in others):
                ok1 = True
                kw_merge = [m_ for m_ in kw_merge if m_ is not m0]
                break
    ck.ob(R3, CE_Q + "::starts-from-partial-kwargs", ok1, "effective kwargs start from a copy of the partial kwargs" if ok1 else
          "effective kwargs do not start from a copy of the reference's partial kwargs", where_ce)
    self_args = ast.parse("self.args", mode="eval").body
    self_kwargs = ast.parse("self.kwargs", mode="eval").body
    pairs = set(odd)

    def stext(e, at):
        # the sequence an expression stands for, whatever order-preserving copy it is wrapped in (list(x), tuple(x))
        x = strip_cast(fexpand(bfa, e, at))
        while isinstance(x, ast.Call) and isinstance(x.func, ast.Name) and x.func.id in ("list", "tuple") and len(x.args) == 1 and not x.keywords:
            x = strip_cast(x.args[0])
        return A.norm(x)
    rem = None     # (names expression, node) of the binding of the call's positional arguments
    def unsliced(e):
        # a prefix of a sequence keeps its order: names[:n] binds like names
        e = strip_cast(e)
        while isinstance(e, ast.Subscript) and isinstance(e.slice, ast.Slice) and e.slice.step is None \
                and (e.slice.lower is None or A.norm(e.slice.lower) == "0"):
            e = strip_cast(e.value)
        return e

    pos_bind = [(unsliced(N), unsliced(S), at, s) for (N, S, at, s) in pos_bind]
    for (N, S, at, s) in pos_bind:
        nt, vt = stext(N, at), stext(S, at)
        if vt == stext(self_args, at):
            rem = (N, at, s)
            nt = "<remaining>"
        pairs.add((nt, vt))
    ok2 = rem is not None and pairs == {(REF + ".parameter_names", REF + ".partial_args"), ("<remaining>", stext(self_args, rem[1]))}
    ck.ob(R3, CE_Q + "::positional-by-name", ok2, "partial and positional args are bound to parameter names in order" if ok2 else
          "positional arguments are not bound as result[names[i]] = values[i]: %s" % sorted(pairs), where_ce)
    # the names the call's positional arguments go to: the parameters not yet bound, in signature order
    ok3 = False
    if rem is not None:
        N, at, s_args = rem
        rd = origin(bfa, N, at)
        comp, cat = (strip_cast(rd.value), rd.node) if rd is not None else (strip_cast(N), at)
        while isinstance(comp, ast.Call) and isinstance(comp.func, ast.Name) and comp.func.id in ("list", "tuple") and len(comp.args) == 1 and not comp.keywords:
            comp = strip_cast(comp.args[0])

        snap_nodes = []   # where the set of names bound so far is taken, when that is not the test itself

        def unbound_test(test, tv, at_):
            e, pol = lit_expr(A.norm(test), True)
            if not (isinstance(e, ast.Compare) and len(e.ops) == 1 and isinstance(e.ops[0], ast.In) and not pol and A.norm(e.left) == tv):
                return False

            def keys_of(r):
                # the mapping whose keys `r` is: m / m.keys() / set(m) / frozenset(m.keys()) / list(m) ...
                r = strip_cast(r)
                if isinstance(r, ast.Call) and A.call_attr(r) == "keys" and not r.args and A.call_recv(r) is not None:
                    return keys_of(A.call_recv(r))
                if isinstance(r, ast.Call) and isinstance(r.func, ast.Name) and r.func.id in ("set", "frozenset", "list", "tuple") and len(r.args) == 1 and not r.keywords:
                    return keys_of(r.args[0])
                return r

            r = keys_of(e.comparators[0])
            if _ref_name(r) is not None and is_ek(r, at_):
                return True
            # a snapshot of the bound names taken earlier (`bound = set(result)`)
            d_ = single_def(bfa, _ref_name(r), at_) if _ref_name(r) is not None else None
            if d_ is not None:
                r2 = keys_of(d_.value)
                if r2 is not strip_cast(d_.value) and _ref_name(r2) is not None and is_ek(r2, d_.node):
                    snap_nodes.append(d_.node)
                    return True
            return False

        part_nodes = [at_ for (N_, S_, at_, s_) in pos_bind if s_ is not s_args]
        if isinstance(comp, (ast.ListComp, ast.GeneratorExp)) and len(comp.generators) == 1 and isinstance(comp.generators[0].target, ast.Name):
            g_ = comp.generators[0]
            tv = g_.target.id
            ok3 = A.norm(comp.elt) == tv and stext(g_.iter, cat) == REF + ".parameter_names" and len(g_.ifs) == 1 and unbound_test(g_.ifs[0], tv, cat)
        elif rd is not None and A.norm(comp) in ("[]", "list()"):
            # for name in parameter_names: if name not in result: remaining.append(name)
            apps = [c for c in bfa.calls("append") if bfa.nodes(c) and A.call_recv(c) is not None and same_def(origin(bfa, A.call_recv(c), bfa.nodes(c)[0]), rd)]
            if len(apps) == 1 and len(apps[0].args) == 1 and isinstance(apps[0].args[0], ast.Name):
                tv = apps[0].args[0].id
                st = bfa.stmt_of(apps[0])
                loop = bfa.enclosing(st, (ast.For, ast.While))
                gi = bfa.enclosing(st, ast.If)
                ok3 = isinstance(loop, ast.For) and isinstance(loop.target, ast.Name) and loop.target.id == tv and not loop.orelse \
                    and A.sig_stmts(loop.body) == [gi] and gi is not None and not gi.orelse and A.sig_stmts(gi.body) == [st] \
                    and stext(loop.iter, bfa.nodes(st)[0]) == REF + ".parameter_names" and unbound_test(gi.test, tv, bfa.nodes(st)[0])
                cat = bfa.nodes(st)[0]
        # taken after the partial arguments are bound
        ok3 = ok3 and not any(pn in bfa.cfg.reach([c_], include_start=False) for c_ in [cat] + snap_nodes for pn in part_nodes if pn != c_)
        # (a stage made by one expression takes the names before it binds anything: `{**bound, **dict(zip(free, args))}`)
    ck.ob(R3, CE_Q + "::remaining-names", ok3, "positional args fill the parameters not yet bound, in order" if ok3 else
          "remaining parameter names are not [name for name in parameter_names if name not in result]", where_ce)
    ok4 = len(kw_merge) == 1 and ftext(bfa, kw_merge[0][0], kw_merge[0][1]) == ftext(bfa, self_kwargs, kw_merge[0][1])
    if ok4:
        # kwargs are applied last: no positional binding after the merge
        kw_ = (kw_merge[0][1], kw_merge[0][2])
        ok4 = not any(later(kw_, (at_, s_)) for (N_, S_, at_, s_) in pos_bind) and not odd
    ck.ob(R3, CE_Q + "::kwargs-last", ok4, "keyword arguments are applied last" if ok4 else
          "keyword arguments are not merged last with result.update(self.kwargs)", where_ce)
    fr = FA(ck, "reference.FunctionReference.__init__")
    for field, src in (("_partial_args", "partial_args"), ("_partial_kwargs", "partial_kwargs")):
        ok = normalised_field(fr, field, src)
        ck.ob(R3, fr.key(None, "normalised" + field), ok, "partial arguments are normalised on the reference" if ok else kept_why.get(field) or
              "self.%s is stored without normalisation" % field, fr.where())
    pn = [s for s in fr.stmts(ast.Assign) if any(A.dotted(t) == "self.parameter_names" for t in s.targets) and fr.nodes(s)]
    mf = "memento_fn" if "memento_fn" in fr.fi.params else (fr.fi.params[1] if len(fr.fi.params) > 1 else "memento_fn")
    okpn = any("signature(%s.fn).parameters" % mf in fr.xnorm(s.value, fr.nodes(s)[0]) for s in pn)
    ck.ob(R3, fr.key(None, "parameter-names"), okpn, "parameter names come from the function's signature, in order" if okpn else
          "parameter_names are not list(inspect.signature(memento_fn.fn).parameters.keys())", fr.where())
    # the canonical writer and the encoder never re-bind (coerce) the value they are given
    for f_ in (nj, enc):
        prm = f_.fi.params[0]
        rebinds = [s_ for s_ in f_.stmts((ast.Assign, ast.AugAssign)) if any(isinstance(t, ast.Name) and t.id == prm for t in (s_.targets if isinstance(s_, ast.Assign) else [s_.target]))]
        ck.ob(R2, f_.key(None, "no-coercion"), not rebinds, "the value is written as given" if not rebinds else
              "`%s` coerces the value before it is written: values of different type (2 and 2.0) get the same canonical text and share a memo key"
              % A.short(rebinds[0], 60), f_.where(rebinds[0] if rebinds else None))
    pa = FA(ck, "base.MementoFunctionBase.partial")
    # containers that partial() mutates are fresh copies, never aliases of the parent reference's state
    cw = [c for c in pa.calls("clone_with") if pa.nodes(c)]
    varg = pa.fi.node.args.vararg.arg if pa.fi.node.args.vararg else None
    kwarg_ = pa.fi.node.args.kwarg.arg if pa.fi.node.args.kwarg else None
    # the states in which the clone is made, per path class (what was changed in place on the way is part of them)
    at_clone = None
    if len(cw) == 1 and varg is not None and kwarg_ is not None:
        at_clone = []
        pc_ = PathComposition(pa, {varg: ("seq", ("<new positional>",)), kwarg_: ("newmap", ("<new keyword>",))})
        for i in pa.nodes(cw[0]):
            r_ = pc_.at(i, [])
            at_clone = None if (r_ is None or at_clone is None) else at_clone + [st_ for (_v, st_) in r_]
    for c in pa.calls():
        if A.call_attr(c) in ("update", "append", "extend", "setdefault", "insert") and isinstance(A.call_recv(c), ast.Name):
            nm = A.call_recv(c).id
            st_c = pa.stmt_of(c)
            # decided on the paths to the clone when the change lies on them: the receiver is a mapping of the function's own
            on_paths = at_clone is not None and bool(pa.nodes(c)) and all(set(pa.nodes(cw[0])) & pa.cfg.reach([i]) for i in pa.nodes(c))
            for i in pa.nodes(c):
                for d in pa.df.reaching(i, nm):
                    v = d.value
                    fresh = isinstance(v, (ast.Dict, ast.List, ast.DictComp, ast.ListComp)) or \
                        (isinstance(v, ast.Call) and A.call_attr(v) in ("dict", "list", "copy", "deepcopy")) or \
                        (isinstance(v, ast.IfExp) and all(isinstance(x, (ast.Dict, ast.List)) or (isinstance(x, ast.Call) and A.call_attr(x) in ("dict", "list", "copy")) for x in (v.body, v.orelse)))
                    if not fresh and on_paths and isinstance(st_c, ast.Expr) and st_c.value is c and A.call_attr(c) in PathComposition.MUTATORS:
                        fresh = not any(f_[2] is st_c for st_ in at_clone for f_ in st_.flaws)
                    ck.ob(R3, pa.key(c, "mutates-fresh-copy:" + nm), fresh, "%s is a fresh copy before it is updated" % nm if fresh else
                          "`%s` updates `%s`, which can be the parent reference's own dict (`%s`): deriving a second partial silently changes the key "
                          "and the bound arguments of the first" % (A.short(c, 40), nm, A.short(v, 50)), pa.where(c))
    okpa = len(cw) == 1 and A.kwarg(cw[0], "partial_args") is not None and A.kwarg(cw[0], "partial_kwargs") is not None and varg is not None and kwarg_ is not None
    if okpa:
        at = pa.nodes(cw[0])[0]
        XA, XK = "self.fn_reference().partial_args", "self.fn_reference().partial_kwargs"

        def new_positional(e):
            e = strip_cast(e)
            if isinstance(e, ast.Call) and isinstance(e.func, ast.Name) and e.func.id == "tuple" and len(e.args) == 1:
                e = e.args[0]
            return isinstance(e, ast.Name) and e.id == varg

        # existing positionals first, the new ones appended
        va_, vk_ = A.kwarg(cw[0], "partial_args"), A.kwarg(cw[0], "partial_kwargs")
        oka_ = False
        if isinstance(va_, ast.Name):
            da = pa.df.reaching(at, va_.id)
            aug = [d for d in da if d.kind == "aug" and isinstance(d.stmt.op, ast.Add) and new_positional(d.value)]
            base = [d for d in da if d.kind == "assign"]
            oka_ = len(aug) == 1 and len(da) == len(aug) + len(base) and bool(base) and _existing_or_empty([pa.expand(d.value, d.node) for d in base], XA)
        if not oka_:
            e = strip_cast(pa.expand(va_, at))
            oka_ = isinstance(e, ast.BinOp) and isinstance(e.op, ast.Add) and _existing_or_empty(e.left, XA) and new_positional(e.right)
        # existing keywords copied, the new ones override
        okk_ = False
        if isinstance(vk_, ast.Name):
            dk = [d for d in pa.df.reaching(at, vk_.id)]
            upd = [c for c in pa.calls("update") if A.norm(A.call_recv(c)) == vk_.id and
                   ([A.norm(a) for a in c.args] == [kwarg_] and not c.keywords or (not c.args and len(c.keywords) == 1 and c.keywords[0].arg is None and A.norm(c.keywords[0].value) == kwarg_))]
            okk_ = bool(dk) and all(d.kind == "assign" and d.value is not None for d in dk) and _existing_or_empty([pa.expand(d.value, d.node) for d in dk], XK) \
                and len(upd) == 1 and all(pa.cfg.must_pass(pa.nodes(upd[0]), i) for i in pa.nodes(cw[0]))
        if not okk_:
            e = strip_cast(pa.expand(vk_, at))
            if isinstance(e, ast.Dict) and len(e.keys) == 2 and e.keys[0] is None and e.keys[1] is None:
                okk_ = _existing_or_empty(e.values[0], XK) and A.norm(e.values[1]) == kwarg_
            elif isinstance(e, ast.Call) and isinstance(e.func, ast.Name) and e.func.id == "dict" and len(e.args) == 1 and len(e.keywords) == 1 and e.keywords[0].arg is None:
                okk_ = _existing_or_empty(e.args[0], XK) and A.norm(e.keywords[0].value) == kwarg_
        okpa = oka_ and okk_
        if not okpa:
            okpa = _partial_accumulates(pa, cw[0], va_, vk_, varg, kwarg_, XA, XK)
    ck.ob(R3, pa.key(None, "accumulates"), okpa, "partial() appends positional and updates keyword partials on a clone" if okpa else
          "partial() no longer accumulates (existing partials + new ones) into the clone", pa.where())
    ck.run(check_typed_identity, ck, "C04.R4", ("reference", "base"))
    from .c16 import sibling_reference_sites
    ck.rule("C04.R5", "every keyed reference construction in base.py (call, call_batch, forget, memento, metadata) passes the function's context args, so all entry points compute the same key", 6)
    sibling_reference_sites(ck, "C04.R5")
    ck.rule("C04.R7", "the argument hash follows what it is computed from: whoever binds a key field (fn_reference, args, kwargs, context_args, effective kwargs) "
                      "of a FunctionReferenceWithArguments outside its constructor binds every field derived from it again afterwards", 1)
    ck.run(derived_fields_clause, ck, "C04.R7")
    ck.rule("C04.R8", "bound values keep their type wherever they are looked up: no value of the argument domain is (part of) a dict / set key, compared by "
                      "Python equality, in a container that outlives the call", 1)
    ck.run(values_by_equality_clause, ck, "C04.R8", ("reference", "base"))
