"""Typed-identity lint (shared by C02, C04, C11, C15).

Memento distinguishes values that Python's `==` / `hash` conflate (True / 1 / 1.0, 0.0 / -0.0,
datetime / pd.Timestamp): they have different argument hashes, result types and serialised
bytes.  An equality-keyed cache (functools.lru_cache without typed=True, functools.cache) or an
equality search (`list.index`, `list.count`) applied to a value of the argument / result domain
therefore identifies values that the contract keeps apart.  The lint follows def-use from the
value-carrying parameters of the frozen table below into the arguments of such constructs.
"""
import ast

from .. import astutil as A
from ..fa import FA

# function -> parameters that carry argument / result values (confirmed by reading)
VALUE_PARAMS = {
    "storage_base.Codec.store": ("obj",),
    "storage_base.Codec.BlobStrategy.store": ("obj",),
    "storage_base.Codec.BlobStrategy.encode": ("obj",),
    "storage_base.DefaultCodec.ValuePickleStrategy.encode": ("obj",),
    "storage_base.DefaultCodec.JsonExceptionStrategy.encode": ("obj",),
    "storage_base.DefaultCodec.PicklePartitionStrategy.store": ("obj",),
    "storage_base.StorageBackendBase.memoize": ("result",),
    "storage_base.MemoryCache.put": ("result",),
    "metadata.ResultType.from_object": ("obj",),
    "reference.ArgumentHasher.normalize": ("obj",),
    "reference.ArgumentHasher._encode": ("arg",),
    "reference.ArgumentHasher._decode": ("arg",),
    "reference.ArgumentHasher._normalized_json": ("obj",),
    "reference.ArgumentHasher.compute_hash": ("effective_kwargs",),
    "reference.FunctionReference.__init__": ("partial_args", "partial_kwargs"),
    "reference.FunctionReference.from_qualified_name": ("partial_args", "partial_kwargs"),
    "reference.FunctionReference._find_function": ("partial_args", "partial_kwargs"),
    "reference.FunctionReferenceWithArguments.__init__": ("args", "kwargs", "context_args"),
    "reference.validate_args": ("args", "kwargs", "_memento_context_args"),
    "serialization.MementoCodec.encode_arg": ("obj",),
    "serialization.MementoCodec.decode_arg": ("state",),
    "serialization.MementoCodec.encode_fn_reference": ("obj",),
    "serialization.MementoCodec.decode_fn_reference": ("state",),
    "serialization.MementoCodec.encode_fn_reference_with_args": ("obj",),
    "serialization.MementoCodec.decode_fn_reference_with_args": ("state",),
    "serialization.MementoCodec.encode_datetime": ("obj",),
    "base.MementoFunctionBase.call": ("args", "kwargs"),
    "base.MementoFunctionBase.call_batch": ("kwargs_list",),
    "base.MementoFunctionBase.partial": ("partial_args", "partial_kwargs"),
    "base.MementoFunctionBase.forget": ("args", "kwargs"),
    "base.MementoFunctionBase.memento": ("args", "kwargs"),
    "runner_local.memento_run_local": ("fn_reference_with_args",),
}


def _untyped_cache_factory(d):
    """Is `d` (a decorator, or the callee of `NAME = d(func)`) an equality-keyed cache: lru_cache / lru_cache(...) without
    typed=True, functools.cache?"""
    txt = A.norm(d.func if isinstance(d, ast.Call) else d)
    if txt.split(".")[-1] == "lru_cache":
        return not (isinstance(d, ast.Call) and A.kwarg(d, "typed") is not None and A.norm(A.kwarg(d, "typed")) == "True")
    return txt in ("functools.cache", "cache")


class _WrappedCallable:
    """`NAME = lru_cache(...)(func)` / `NAME = functools.cache(func)` at module or class level: NAME is a cached callable."""
    parent = None

    def __init__(self, module, cls, name, node):
        self.module, self.cls, self.name, self.node = module, cls, name, node
        self.qual = "%s.%s" % (cls.qual if cls is not None else module.name if hasattr(module, "name") else "?", name)
        self.file = module.relpath


def _equality_cached_functions(ck, modules):
    """-> {name: [FuncInfo]} of functions wrapped in an equality-keyed cache, by decorator or by assignment."""
    out = {}
    for modname in modules:
        mod = ck.repo.module(modname)
        for fi in mod.all_funcs():
            for d in fi.node.decorator_list:
                if _untyped_cache_factory(d) and ("lru_cache" in A.norm(d) or A.norm(d) in ("functools.cache", "cache")):
                    out.setdefault(fi.name, []).append(fi)
        scopes = [(None, mod.tree.body)] + [(c, c.node.body) for c in mod.all_classes()]
        for (cls, body) in scopes:
            for st in body:
                v = st.value if isinstance(st, (ast.Assign, ast.AnnAssign)) else None
                if not (isinstance(v, ast.Call) and len(v.args) == 1 and not v.keywords):
                    continue
                f = v.func
                # lru_cache(...)(func)  |  lru_cache(func)  |  functools.cache(func)
                wraps = (isinstance(f, ast.Call) and A.norm(f.func).split(".")[-1] == "lru_cache" and _untyped_cache_factory(f)) or \
                        (not isinstance(f, ast.Call) and (A.norm(f).split(".")[-1] == "lru_cache" or A.norm(f) in ("functools.cache", "cache")))
                if not wraps:
                    continue
                for t in (st.targets if isinstance(st, ast.Assign) else [st.target]):
                    if isinstance(t, ast.Name):
                        out.setdefault(t.id, []).append(_WrappedCallable(mod, cls, t.id, st))
    return out


def _callee_is(call, caller, cands):
    """Light resolution: which of the same-named cached functions does `call` in `caller` designate?"""
    f = call.func
    for fi in cands:
        if fi.parent is not None:
            # nested function: only callable by bare name from inside its enclosing function(s)
            p = caller
            while p is not None:
                if p is fi.parent and isinstance(f, ast.Name):
                    return fi
                p = p.parent
            continue
        if fi.cls is None:
            if isinstance(f, ast.Name) and (fi.module is caller.module or f.id in caller.module.imports):
                return fi
            continue
        # method: self.m / cls.m / Class.m from the same (or an enclosing / nested) class
        if isinstance(f, ast.Attribute):
            recv = A.norm(f.value)
            if caller.cls is not None and recv in ("self", "cls") and (fi.cls is caller.cls or fi.cls in caller.module.all_classes() and caller.cls.name in (fi.cls.name,)):
                return fi
            if recv.split(".")[-1] == fi.cls.name:
                return fi
    return None


def check_typed_identity(ck, rule, modules):
    ck.rule(rule, "typed identity: no value of the argument / result domain flows into an equality-keyed cache "
                  "(lru_cache without typed=True, functools.cache) or an equality search (list.index / list.count)", 1)
    all_mods = sorted(ck.repo.modules)
    cached = _equality_cached_functions(ck, all_mods)
    n_sites = 0
    for qual, params in VALUE_PARAMS.items():
        if qual.split(".")[0] not in modules:
            continue
        fi = ck.repo.try_func(qual)
        if fi is None:
            continue
        fa = FA(ck, fi)
        vals = {"param:" + p for p in params}
        for c in fa.calls():
            nm = A.call_attr(c)
            target = _callee_is(c, fi, cached[nm]) if nm in cached else None
            if target is not None:
                n_sites += 1
                for a in list(c.args) + [k.value for k in c.keywords]:
                    a = a.value if isinstance(a, ast.Starred) else a
                    try:
                        d = fa.deps(a)
                    except Exception:
                        d = set()
                    if d & vals:
                        ck.ob(rule, fa.key(c, "cache:" + nm), False,
                              "`%s` (derived from %s) is the key of the equality-keyed cache on %s: values that compare equal but differ in "
                              "type (True / 1 / 1.0, 0.0 / -0.0, datetime / Timestamp) share one cache entry, so the second one gets the "
                              "first one's result" % (A.short(a, 40), sorted(x[6:] for x in d & vals), target.qual), fa.where(c))
                        break
            if nm in ("index", "count") and c.args and isinstance(c.func, ast.Attribute):
                try:
                    d = fa.deps(c.args[0]) | fa.deps(c.func.value)
                except Exception:
                    d = set()
                if d & vals:
                    n_sites += 1
                    ck.ob(rule, fa.key(c, "search:" + nm), False,
                          "`%s` searches argument values by equality: 1, 1.0 and True are found at each other's position" % A.short(c, 50), fa.where(c))
    # a cached function whose own parameter is in the value table
    for name, lst in cached.items():
        for cfi in lst:
            if cfi.qual in VALUE_PARAMS and cfi.qual.split(".")[0] in modules:
                ck.ob(rule, cfi.qual + "::cached", False, "%s itself is wrapped in an equality-keyed cache" % cfi.qual, A.loc(cfi, cfi.node))
    ck.ob(rule, "typed-identity::scan", True, "%d value-carrying functions scanned in %s; %d equality-keyed caches in the package (%s)"
          % (sum(1 for q in VALUE_PARAMS if q.split(".")[0] in modules), list(modules), sum(len(v) for v in cached.values()), sorted(c.qual for v in cached.values() for c in v)), "")


def check_json_bytes(ck, rule, quals):
    """JSON text that is then encoded with the strict UTF-8 codec must be produced with
    ensure_ascii (the default): with ensure_ascii=False a lone surrogate in the text (file names
    decoded with surrogateescape) makes .encode('utf-8') raise UnicodeEncodeError."""
    for q in quals:
        fi = ck.repo.try_func(q)
        if fi is None:
            continue
        fa = FA(ck, fi)
        for c in fa.calls("dumps"):
            ea = A.kwarg(c, "ensure_ascii")
            bad = ea is not None and A.norm(ea) != "True"
            ck.ob(rule, fa.key(None, "json-ascii-safe"), not bad, "JSON is written ASCII-safe before UTF-8 encoding" if not bad else
                  "json.dumps(..., ensure_ascii=%s) followed by .encode('utf-8'): text with a lone surrogate (e.g. an exception message or argument "
                  "built from a non-UTF-8 file name) raises UnicodeEncodeError while memoizing, so the result is never recorded" % A.norm(ea), fa.where(c))


def check_enum_distinct(ck, rule):
    """Enum members with equal values are aliases: `.name` of the second is the first's name."""
    rt = ck.repo.cls("metadata.ResultType")
    vals = {}
    for st in rt.node.body:
        if isinstance(st, ast.Assign) and len(st.targets) == 1 and isinstance(st.targets[0], ast.Name):
            vals.setdefault(A.norm(st.value), []).append(st.targets[0].id)
    dup = {v: ns for v, ns in vals.items() if len(ns) > 1}
    ck.ob(rule, rt.qual + "::distinct-values", not dup, "%d ResultType members have pairwise distinct values" % len(vals) if not dup else
          "ResultType members share a value %s: the later ones are aliases, so their `.name` (what is recorded) is the first one's" % dup, A.loc(rt, rt.node))
