"""Rules about code hashing, hash rules, version computation and the dependency closure
(shared by C01, C03, C13, C14)."""
import ast
import re
import types

from .. import astutil as A
from ..fa import FA
from ..cfg import CFG
from ..loader import AnalysisError

CH = "code_hash"
MF = "memento.MementoFunction"

# Classification of the running interpreter's code-object attributes (a fact about CPython,
# one line of reason each).  An attribute missing from both tables makes the check exit 2 so
# that the table is updated consciously when the interpreter changes.
CODE_RELEVANT = {
    "co_code": "the bytecode",
    "co_consts": "constants, including nested code objects",
    "co_names": "global / attribute names the bytecode refers to by index",
    "co_varnames": "local names by index (keyword binding of parameters)",
    "co_freevars": "closure variable names",
    "co_cellvars": "cell variable names",
    "co_argcount": "how many positional parameters bind",
    "co_posonlyargcount": "which parameters may be passed by keyword",
    "co_kwonlyargcount": "how many keyword-only parameters bind",
    "co_flags": "generator / varargs / varkeywords behaviour",
    "co_exceptiontable": "which handler covers which instruction range (identical co_code, different behaviour: move a statement out of a try)",
}
CODE_DEBUG_ONLY = {
    "co_filename": "source location", "co_firstlineno": "source location", "co_linetable": "line numbers",
    "co_lnotab": "line numbers", "co_lines": "line numbers (method)", "co_positions": "columns (method)",
    "co_name": "display name", "co_qualname": "display name", "co_nlocals": "derived from co_varnames",
    "co_stacksize": "derived from the bytecode", "replace": "method", "_varname_from_oparg": "method",
    "_co_code_adaptive": "specialised copy of co_code",
}
FUNC_RELEVANT = {
    "__defaults__": "default values of positional parameters (not in the code object)",
    "__kwdefaults__": "default values of keyword-only parameters (not in the code object)",
    "__closure__": "values captured from the function that made a closure (h = make(1): the code object is the same whatever was passed)",
}
NONDETERMINISTIC_CALLS = {"hash", "id", "uuid4", "uuid1", "time", "time_ns", "getpid", "random", "randint", "getrandbits", "urandom", "now", "today"}
LOCATION_ATTRS = {"co_filename", "co_firstlineno", "co_lnotab", "co_linetable", "__file__"}


# --------------------------------------------------------------------------------- helpers
def _fa_live(ck, qual):
    """FA of a function; when the CFG with explicit exception edges leaves statements of it unreachable (`try: return table[key]` /
    `except KeyError: pass` in front of the body: a bare subscript is not a raising statement there), the CFG on which subscripts and
    attribute reads may raise is used instead."""
    fa = FA(ck, qual)
    if fa.exc_mode != "all" and any(not fa.nodes(st) for st in fa.stmts((ast.Assign, ast.Return, ast.Expr, ast.AugAssign))):
        alt = FA(ck, qual, exc_mode="all")
        if sum(1 for st in alt.stmts() if alt.nodes(st)) > sum(1 for st in fa.stmts() if fa.nodes(st)):
            return alt
    return fa


def _flow(fa, expr, at=None, _seen=None, _out=None):
    """Every AST node whose value can reach `expr` by evaluation and copying: the sub-expressions of
    `expr` and, for each local name read in it, the sub-expressions of the values assigned by the
    definitions of that name that reach the read (transitively).  Returned as {id(node): node}."""
    out = _out if _out is not None else {}
    seen = _seen if _seen is not None else set()
    if expr is None:
        return out
    ats = [at] if at is not None else fa.nodes(expr)
    for n in ast.walk(expr):
        out[id(n)] = n
    for a in ats:
        for n in ast.walk(expr):
            if isinstance(n, ast.Name) and isinstance(n.ctx, ast.Load):
                for d in fa.df.reaching(a, n.id):
                    if d.value is None or (d.node, d.name) in seen:
                        continue
                    seen.add((d.node, d.name))
                    _flow(fa, d.value, d.node, seen, out)
    return out


def _backward_slice(fa, seeds, stmts=(), control_dependence=True, nested=True):
    """Everything the values of `seeds` [(expression, CFG node)] can depend on inside the function, as {id(node): node}:
    their sub-expressions; for every local read, the values assigned by the definitions that reach the read AND what is put
    into that local in place (method calls on it, stores through it); the tests of the branches and the iterables of the
    loops around those statements (control dependence; also around `stmts`); and, for calls of functions nested in this one,
    their bodies - what they read from the enclosing scope is followed from the place where they are defined."""
    out, seen_defs, seen_ctl, seen_fn = {}, set(), set(), set()
    work = list(seeds)
    # in-place changes of a local: name -> [(statement, [expressions put into it])]
    mutations = {}
    for st in fa.stmts():
        for x in A.walk_local(st) if not isinstance(st, (ast.If, ast.While, ast.For, ast.AsyncFor, ast.Try, ast.With, ast.AsyncWith)) else []:
            if isinstance(x, ast.Call) and isinstance(x.func, ast.Attribute) and isinstance(x.func.value, ast.Name):
                mutations.setdefault(x.func.value.id, []).append((st, list(x.args) + [k.value for k in x.keywords]))
            if isinstance(x, (ast.Subscript, ast.Attribute)) and isinstance(x.ctx, ast.Store) and isinstance(st, (ast.Assign, ast.AugAssign, ast.AnnAssign)) and st.value is not None:
                r_ = x
                while isinstance(r_, (ast.Subscript, ast.Attribute)):
                    r_ = r_.value
                if isinstance(r_, ast.Name) and r_.id != "self":
                    mutations.setdefault(r_.id, []).append((st, [st.value] + ([x.slice] if isinstance(x, ast.Subscript) else [])))

    def control(st):
        if not control_dependence:
            return
        cur = st
        while cur is not None and cur is not fa.node:
            par = fa.pm.get(cur)
            if isinstance(par, (ast.If, ast.While)) and id(par) not in seen_ctl and cur is not par.test:
                seen_ctl.add(id(par))
                for i in fa.nodes(par.test)[:1]:
                    work.append((par.test, i))
            elif isinstance(par, (ast.For, ast.AsyncFor)) and id(par) not in seen_ctl and cur is not par.iter:
                seen_ctl.add(id(par))
                for i in fa.nodes(par)[:1]:
                    work.append((par.iter, i))
            cur = par

    for st in stmts:
        control(st)
    while work:
        (e, at) = work.pop()
        if e is None:
            continue
        for n in ast.walk(e):
            out[id(n)] = n
            if isinstance(n, ast.Name) and isinstance(n.ctx, ast.Load) and at is not None:
                for d in fa.df.reaching(at, n.id):
                    if (d.node, d.name) in seen_defs:
                        continue
                    seen_defs.add((d.node, d.name))
                    if d.value is not None:
                        work.append((d.value, d.node))
                    if d.stmt is not None:
                        control(d.stmt)
                for (st, exprs) in mutations.get(n.id, []) if fa.df.is_local(n.id) else []:
                    if ("mut", id(st), n.id) in seen_defs or not fa.nodes(st):
                        continue
                    seen_defs.add(("mut", id(st), n.id))
                    for x in exprs:
                        work.append((x, fa.nodes(st)[0]))
                    control(st)
            if nested and isinstance(n, ast.Call) and isinstance(n.func, ast.Name) and n.func.id in fa.fi.nested and n.func.id not in seen_fn:
                seen_fn.add(n.func.id)
                sub = fa.fi.nested[n.func.id].node
                a_ = sub.args
                own = {x.arg for x in a_.posonlyargs + a_.args + a_.kwonlyargs} | ({a_.vararg.arg} if a_.vararg else set()) | ({a_.kwarg.arg} if a_.kwarg else set())
                own |= {x.id for b_ in sub.body for x in ast.walk(b_) if isinstance(x, ast.Name) and isinstance(x.ctx, ast.Store)}
                for b_ in sub.body:
                    for x in ast.walk(b_):
                        out[id(x)] = x
                        if isinstance(x, ast.Name) and isinstance(x.ctx, ast.Load) and x.id not in own and fa.df.is_local(x.id):
                            for i in fa.nodes(sub)[:1]:
                                work.append((ast.copy_location(ast.Name(id=x.id, ctx=ast.Load()), x), i))
                control(sub)
    return out


def _alternatives(fa, expr, at, depth=6):
    """The expressions `expr` (evaluated at CFG node `at`) may stand for, as (expr, node) pairs: a local name is
    followed to every definition that reaches it (several branches assigning it, a loop variable ranging over a
    literal tuple / unpacked from a literal tuple of tuples); a conditional expression gives both arms.  What
    cannot be followed is returned as it is."""
    if depth <= 0:
        return [(expr, at)]
    if isinstance(expr, ast.IfExp):
        return _alternatives(fa, expr.body, at, depth - 1) + _alternatives(fa, expr.orelse, at, depth - 1)
    if isinstance(expr, ast.Call) and isinstance(expr.func, ast.Name) and expr.func.id == "getattr" and len(expr.args) == 2 and not expr.keywords:
        # getattr(x, <name>) where <name> ranges over literal strings reads like x.<each of them>
        names = _alternatives(fa, expr.args[1], at, depth - 1)
        if names and all(A.const_str(e) is not None and A.const_str(e).isidentifier() for (e, _a) in names):
            return [(ast.copy_location(ast.Attribute(value=expr.args[0], attr=A.const_str(e), ctx=ast.Load()), expr), at) for (e, _a) in names]
        return [(expr, at)]
    if isinstance(expr, ast.Name):
        ds = fa.df.reaching(at, expr.id)
        out = []
        for d in ds:
            if d.kind == "assign" and d.value is not None:
                out += _alternatives(fa, d.value, d.node, depth - 1)
                continue
            if d.kind == "for" and isinstance(d.stmt, (ast.For, ast.AsyncFor)) and isinstance(d.stmt.iter, (ast.Tuple, ast.List)) and d.stmt.iter.elts:
                tg, it = d.stmt.target, d.stmt.iter
                if isinstance(tg, ast.Name):
                    for e in it.elts:
                        out += _alternatives(fa, e, d.node, depth - 1)
                    continue
                if isinstance(tg, (ast.Tuple, ast.List)) and all(isinstance(x, ast.Name) for x in tg.elts) \
                        and all(isinstance(e, (ast.Tuple, ast.List)) and len(e.elts) == len(tg.elts) for e in it.elts):
                    idx = [x.id for x in tg.elts].index(expr.id)
                    for e in it.elts:
                        out += _alternatives(fa, e.elts[idx], d.node, depth - 1)
                    continue
            return [(expr, at)]
        return out or [(expr, at)]
    return [(expr, at)]


def _sources(fa, expr, at):
    """Name-independent texts of what `expr` may stand for (see _alternatives)."""
    return {fa.xnorm(e, a) for (e, a) in _alternatives(fa, expr, at)}


def _call_arg(ck, call, callee_qual, name):
    """The argument bound to parameter `name` of the callee, passed by keyword or by position."""
    v = A.kwarg(call, name)
    if v is not None:
        return v
    fi = ck.repo.try_func(callee_qual)
    if fi is None or name not in fi.params:
        return None
    ps = [p_ for p_ in fi.params if not (p_ in ("self", "cls") and not fi.is_static)]
    return A.arg_or_kw(call, ps.index(name), name) if name in ps else None


def _conditions(fa, target):
    """FA.conditions(target) brought to a CANONICAL disjunctive normal form (its prime implicants: consensus of every pair of
    conjunctions that clash in exactly one literal, then absorption, to a fixpoint).  FA.conditions merges pairs greedily in set
    iteration order, which can stop at different - equivalent but not minimal - forms from one process to the next; rules
    compare the form, so they need the one that does not depend on that order."""
    conds = fa.conditions(target)
    if conds is None or len(conds) > 64:
        return conds
    res = set(conds)
    for _round in range(12):
        new = set()
        lst = sorted(res, key=lambda c: sorted(c))
        for i in range(len(lst)):
            for j in range(i + 1, len(lst)):
                a, b = lst[i], lst[j]
                clash = [l for l in a if (l[0], not l[1]) in b]
                if len(clash) != 1:
                    continue
                c = frozenset(x for x in (a | b) if x[0] != clash[0][0])
                if not any(r <= c for r in res):
                    new.add(c)
        if not new or len(res) + len(new) > 400:
            break
        res |= new
        res = {a for a in res if not any(b < a for b in res)}
    return {a for a in res if not any(b < a for b in res)}


def _single_conj(conds):
    """The literals of a one-conjunct DNF, or None."""
    if conds is None or len(conds) != 1:
        return None
    return set(next(iter(conds)))


def _accumulators(fa):
    """Locals that are filled element by element: `c = []` followed by one loop whose whole body is
    `[if <cond>:] c.append(<elt>)`.  Returned as {name: equivalent list comprehension (AST)}, so that a test on such a
    list can be read like a test on the comprehension it spells out."""
    out = {}
    for s in fa.stmts(ast.Assign):
        if not (len(s.targets) == 1 and isinstance(s.targets[0], ast.Name)):
            continue
        v = s.value
        if not ((isinstance(v, ast.List) and not v.elts) or (isinstance(v, ast.Call) and A.norm(v) == "list()")):
            continue
        name = s.targets[0].id
        if sum(1 for s2 in fa.stmts() for t in (s2.targets if isinstance(s2, ast.Assign) else [getattr(s2, "target", None)])
               if isinstance(t, ast.Name) and t.id == name) != 1:
            continue
        apps = [c for c in fa.calls("append") if isinstance(A.call_recv(c), ast.Name) and A.call_recv(c).id == name and len(c.args) == 1]
        if len(apps) != 1:
            continue
        st = fa.stmt_of(apps[0])
        conds = []
        cur, par = st, fa.pm.get(st)
        okp = isinstance(st, ast.Expr)
        while okp and isinstance(par, ast.If):
            if len(A.sig_stmts(par.body)) + len(A.sig_stmts(par.orelse)) != 1:
                okp = False
                break
            conds.insert(0, par.test if cur in par.body else ast.UnaryOp(op=ast.Not(), operand=par.test))
            cur, par = par, fa.pm.get(par)
        if not okp or not isinstance(par, ast.For) or par.orelse or A.sig_stmts(par.body) != [cur] or not isinstance(par.target, ast.Name):
            continue
        comp = ast.ListComp(elt=apps[0].args[0], generators=[ast.comprehension(target=par.target, iter=par.iter, ifs=conds, is_async=0)])
        comp._loop_tests = [c.operand if isinstance(c, ast.UnaryOp) and isinstance(c.op, ast.Not) and c not in ast.walk(par) else c for c in conds]
        out[name] = ast.fix_missing_locations(comp)
    return out


def _exit_paths(fa, cap=20000):
    """The acyclic paths from the entry to the NORMAL exit (a loop body is entered at most once; exception edges are
    not followed), each as (list of CFG node ids, {literal text: polarity}).  Literals are FA's canonical ones
    (locals expanded, negations normalised), read PATH-SENSITIVELY: a test on a boolean local is replaced by the
    condition that local was last assigned on this very path (a constant decides the branch; an expression contributes
    its own literals, provided nothing with an effect was executed in between), and a list filled by an append loop
    reads as the comprehension it spells out.  None when there are too many paths."""
    import copy
    cfg = fa.cfg
    acc = _accumulators(fa)
    summarised = {id(t) for c in acc.values() for t in c._loop_tests}  # the filter tests of such loops say nothing about the path
    out = []
    count = [0]

    class Sub(ast.NodeTransformer):
        def visit_Name(self, n):
            if isinstance(n.ctx, ast.Load) and n.id in acc:
                return copy.deepcopy(acc[n.id])
            return n

    # locals that may be changed in place (a method called on them, an item stored, handed to a call): what they hold at
    # a later test is not what they were assigned
    mutated = set()
    for x in A.walk_body(fa.node):
        if isinstance(x, ast.Call):
            if isinstance(x.func, ast.Attribute) and isinstance(x.func.value, ast.Name):
                mutated.add(x.func.value.id)
            for a_ in list(x.args) + [k.value for k in x.keywords]:
                if isinstance(a_, ast.Name) and not (isinstance(x.func, ast.Name) and x.func.id in ("len", "bool", "sorted", "list", "tuple", "set", "frozenset", "any", "all", "sum", "min", "max", "isinstance")):
                    mutated.add(a_.id)
                if isinstance(a_, ast.Starred) and isinstance(a_.value, ast.Name):
                    mutated.add(a_.value.id)
        if isinstance(x, (ast.Subscript, ast.Attribute)) and isinstance(x.ctx, (ast.Store, ast.Del)) and isinstance(x.value, ast.Name):
            mutated.add(x.value.id)
        if isinstance(x, ast.AugAssign) and isinstance(x.target, ast.Name):
            mutated.add(x.target.id)

    def effectful(nd):
        a = nd.ast
        if a is None or nd.kind not in ("stmt", "with", "for"):
            return False
        if isinstance(a, (ast.Assign, ast.AugAssign, ast.AnnAssign)):
            tg = a.targets if isinstance(a, ast.Assign) else [a.target]
            if any(not isinstance(t, ast.Name) for t in tg):
                return True
        return any(isinstance(x, ast.Call) and not (A.dotted(x.func) or "").startswith("log.") for x in A.walk_local(a))

    def truth_of(t):
        """`bool(E)` tested is `E` tested"""
        while isinstance(t, ast.Call) and isinstance(t.func, ast.Name) and t.func.id == "bool" and len(t.args) == 1 and not t.keywords \
                and not isinstance(t.args[0], ast.Starred):
            t = t.args[0]
        return t

    def atoms(t, node_id, positive, env, path):
        """literals of test `t` taken with the given polarity; None = this branch is infeasible."""
        t = truth_of(t)
        if isinstance(t, ast.UnaryOp) and isinstance(t.op, ast.Not):
            return atoms(t.operand, node_id, not positive, env, path)
        if isinstance(t, ast.BoolOp) and ((isinstance(t.op, ast.And) and positive) or (isinstance(t.op, ast.Or) and not positive)):
            res = []
            for v in t.values:
                r = atoms(v, node_id, positive, env, path)
                if r is None:
                    return None
                res += r
            return res
        if isinstance(t, ast.Constant):
            return [] if bool(t.value) == positive else None
        if isinstance(t, ast.Name) and t.id in env:
            val, dnode, didx = env[t.id]
            val = truth_of(val)
            if isinstance(val, ast.Constant):
                return [] if bool(val.value) == positive else None
            if isinstance(val, (ast.Compare, ast.BoolOp, ast.UnaryOp, ast.Name, ast.Attribute)) and not any(isinstance(x, ast.Call) for x in ast.walk(val)) \
                    and not any(effectful(cfg.node(i)) for i in path[didx + 1:]):
                return atoms(val, dnode, positive, {k: v for k, v in env.items() if v[2] < didx}, path[:didx])
        t2 = Sub().visit(copy.deepcopy(t)) if acc else t
        # a local with several reaching definitions (which FA leaves unexpanded) reads, on THIS path, as the value it
        # was last given: a constant always, another effect-free expression if nothing with an effect ran since
        subs = {}
        for nm in {x.id for x in ast.walk(t2) if isinstance(x, ast.Name) and isinstance(x.ctx, ast.Load) and x.id in env}:
            if len(fa.df.reaching(node_id, nm)) <= 1:
                continue
            val, dnode, didx = env[nm]
            if isinstance(val, ast.Constant):
                subs[nm] = val
            elif _is_empty_container(val) and nm not in mutated:
                subs[nm] = val  # an empty collection that nothing ever fills
            elif isinstance(val, (ast.ListComp, ast.SetComp, ast.DictComp)) and nm not in mutated:
                # the collection computed by that assignment (a value, read symbolically: the same
                # assignment always expands to the same text, as FA.expand does for a single definition)
                subs[nm] = fa.expand(val, dnode)
            elif not any(isinstance(x, (ast.Call, ast.Lambda, ast.ListComp, ast.SetComp, ast.DictComp, ast.GeneratorExp, ast.Await, ast.NamedExpr)) for x in ast.walk(val)) \
                    and not any(effectful(cfg.node(i)) for i in path[didx + 1:]):
                subs[nm] = fa.expand(val, dnode)
        if subs:
            class S2(ast.NodeTransformer):
                def visit_Name(self, n):
                    return copy.deepcopy(subs[n.id]) if isinstance(n.ctx, ast.Load) and n.id in subs else n
            t2 = S2().visit(copy.deepcopy(t2))
            if isinstance(t2, ast.Compare) and len(t2.ops) == 1 and isinstance(t2.left, ast.Constant) and isinstance(t2.comparators[0], ast.Constant) \
                    and isinstance(t2.ops[0], (ast.Is, ast.IsNot, ast.Eq, ast.NotEq)):
                same = t2.left.value is t2.comparators[0].value if isinstance(t2.ops[0], (ast.Is, ast.IsNot)) else t2.left.value == t2.comparators[0].value
                truth = same if isinstance(t2.ops[0], (ast.Is, ast.Eq)) else not same
                return [] if truth == positive else None
        return [fa._literal(t2, node_id, positive)]

    def alts(t, node_id, positive, env, path):
        """The ways test `t` can come out with the given polarity, each a list of literals.  A conjunction taken true is
        one way; a disjunction taken true (a conjunction taken false) is decided by the first operand that settles it,
        the earlier ones having come out the other way (short circuit) - one way per operand."""
        t = truth_of(t)
        if isinstance(t, ast.UnaryOp) and isinstance(t.op, ast.Not):
            return alts(t.operand, node_id, not positive, env, path)
        if isinstance(t, ast.BoolOp):
            if (isinstance(t.op, ast.And) and positive) or (isinstance(t.op, ast.Or) and not positive):
                res = [[]]
                for v in t.values:
                    va = alts(v, node_id, positive, env, path)
                    res = [a + b for a in res for b in va]
                return res
            res, prefix = [], [[]]
            for v in t.values:
                res += [a + b for a in prefix for b in alts(v, node_id, positive, env, path)]
                prefix = [a + b for a in prefix for b in alts(v, node_id, not positive, env, path)]
            return res
        if isinstance(t, ast.Name) and t.id in env:
            val, dnode, didx = env[t.id]
            val = truth_of(val)
            if isinstance(val, (ast.BoolOp, ast.UnaryOp)) and not any(isinstance(x, ast.Call) for x in ast.walk(val)) \
                    and not any(effectful(cfg.node(i)) for i in path[didx + 1:]):
                return alts(val, dnode, positive, {k: v for k, v in env.items() if v[2] < didx}, path[:didx])
        r = atoms(t, node_id, positive, env, path)
        return [] if r is None else [r]

    def dfs(n, path, lits, env, twice):
        if count[0] > cap:
            return
        if n == cfg.exit:
            count[0] += 1
            out.append((list(path), dict(lits)))
            return
        nd = cfg.node(n)
        if nd.kind == "stmt" and isinstance(nd.ast, (ast.Assign, ast.AnnAssign, ast.AugAssign)):
            tg = nd.ast.targets if isinstance(nd.ast, ast.Assign) else [nd.ast.target]
            names = {x.id for t in tg for x in ast.walk(t) if isinstance(x, ast.Name) and isinstance(x.ctx, ast.Store)}
            if names:
                env = {k: v for k, v in env.items() if k not in names}
                if isinstance(nd.ast, ast.Assign) and len(tg) == 1 and isinstance(tg[0], ast.Name):
                    env[tg[0].id] = (nd.ast.value, n, len(path) - 1)
        elif nd.kind in ("for", "with"):
            tg = [nd.ast.target] if nd.kind == "for" else [i.optional_vars for i in nd.ast.items if i.optional_vars is not None]
            names = {x.id for t in tg for x in ast.walk(t) if isinstance(x, ast.Name)}
            env = {k: v for k, v in env.items() if k not in names}
        is_loop_head = nd.kind == "for" or (nd.kind == "test" and isinstance(fa.pm.get(nd.ast), ast.While) and fa.pm.get(nd.ast).test is nd.ast)
        for (d, l) in cfg.succ[n]:
            if l == "exc":
                continue
            if n in twice and l != "F":
                continue  # second arrival at a loop head: the loop can only be left
            revisit = d in path
            if revisit:
                dn = cfg.node(d)
                d_head = dn.kind == "for" or (dn.kind == "test" and isinstance(fa.pm.get(dn.ast), ast.While) and fa.pm.get(dn.ast).test is dn.ast)
                if not d_head or d in twice:
                    continue
            ways = [[]]
            if nd.kind == "test" and l in ("T", "F") and not (is_loop_head and nd.kind == "test") and id(nd.ast) not in summarised:
                ways = alts(nd.ast, n, l == "T", env, path)
            for add in ways:
                new = dict(lits)
                if any(new.setdefault(a[0], a[1]) != a[1] for a in add):
                    continue
                path.append(d)
                dfs(d, path, new, env, twice | {d} if revisit else twice)
                path.pop()

    dfs(cfg.entry, [cfg.entry], {}, {}, frozenset())
    return None if count[0] > cap else out


def _is_empty_container(e):
    """`[]`, `()`, `{}`, `list()`, `set()`, `tuple()`, `dict()`, `frozenset()`."""
    if isinstance(e, (ast.List, ast.Tuple, ast.Set)) and not e.elts:
        return True
    if isinstance(e, ast.Dict) and not e.keys:
        return True
    return isinstance(e, ast.Call) and isinstance(e.func, ast.Name) and e.func.id in ("list", "set", "tuple", "dict", "frozenset") and not e.args and not e.keywords


def _no_walrus(text):
    """a literal's text with `(name := value)` read as `value`"""
    if ":=" not in text:
        return text
    e = _parse_lit(text)
    if e is None:
        return text

    class T(ast.NodeTransformer):
        def visit_NamedExpr(self, n):
            return self.visit(n.value)

    return A.norm(T().visit(e))


def _parse_lit(text):
    try:
        return ast.parse(text, mode="eval").body
    except SyntaxError:
        return None


_EMPTY_INIT = ("set()", "[]", "list()", "frozenset()")


def _split_atoms(t, positive):
    """A test taken with the given polarity as a list of (atom AST, polarity): conjunctions taken true /
    disjunctions taken false / negations are split; anything else is one atom."""
    if isinstance(t, ast.UnaryOp) and isinstance(t.op, ast.Not):
        return _split_atoms(t.operand, not positive)
    if isinstance(t, ast.BoolOp) and ((isinstance(t.op, ast.And) and positive) or (isinstance(t.op, ast.Or) and not positive)):
        out = []
        for v in t.values:
            out += _split_atoms(v, positive)
        return out
    return [(t, positive)]


def _collection_spec(fa, expr, at, depth=4):
    """_collection_spec0, with an iterable `filter(<predicate>, <collection>)` read as the collection plus one more filter atom."""
    spec = _collection_spec0(fa, expr, at, depth)
    for _i in range(3):
        if spec is None or spec.get("iter_at") is None:
            return spec
        try:
            it = fa.expand(spec["iter"], spec["iter_at"])
        except Exception:  # noqa
            return spec
        if not (isinstance(it, ast.Call) and isinstance(it.func, ast.Name) and it.func.id == "filter" and len(it.args) == 2 and not it.keywords):
            return spec
        pred, coll = it.args
        var = ast.Name(id=spec["var"], ctx=ast.Load())
        atom = var if A.is_none(pred) else ast.Call(func=pred, args=[var], keywords=[])
        spec = dict(spec, iter=coll, atoms=list(spec["atoms"]) + [(ast.fix_missing_locations(ast.copy_location(atom, it)), True)])
    return spec


def _collection_spec0(fa, expr, at, depth=4):
    """What collection an expression builds, whatever its spelling: a comprehension / generator (possibly wrapped in
    set() / list() / tuple() / frozenset()), a local assigned one, or a local initialised empty and filled by
    `.add` / `.append` in ONE loop whose body only filters (`if c: continue` guards, nested ifs).  Returns a dict
    {iter, iter_at, var, elt, atoms: [(test AST, polarity)], at} (the filter as atoms that must hold for an element
    to be taken), or None."""
    if depth <= 0 or expr is None:
        return None
    if isinstance(expr, ast.Call) and isinstance(expr.func, ast.Name) and expr.func.id in ("set", "list", "tuple", "frozenset") and len(expr.args) == 1 and not expr.keywords:
        return _collection_spec0(fa, expr.args[0], at, depth - 1)
    if isinstance(expr, (ast.ListComp, ast.SetComp, ast.GeneratorExp)):
        if len(expr.generators) != 1 or not isinstance(expr.generators[0].target, ast.Name):
            return None
        g = expr.generators[0]
        atoms = []
        for c in g.ifs:
            atoms += _split_atoms(c, True)
        return {"iter": g.iter, "iter_at": at, "var": g.target.id, "elt": expr.elt, "atoms": atoms, "at": at}
    if isinstance(expr, ast.Name):
        ds = fa.df.reaching(at, expr.id)
        if len(ds) != 1 or ds[0].kind != "assign" or ds[0].value is None:
            return None
        d = ds[0]
        if A.norm(d.value) not in _EMPTY_INIT:
            return _collection_spec0(fa, d.value, d.node, depth - 1)
        name = expr.id
        muts = [c for c in fa.calls() if isinstance(A.call_recv(c), ast.Name) and A.call_recv(c).id == name]
        adds = [c for c in muts if A.call_attr(c) in ("add", "append") and len(c.args) == 1]
        if len(adds) != 1 or len(muts) != 1:
            return None
        st = fa.stmt_of(adds[0])
        lf = _loop_filter(fa, st, name)
        if lf is None:
            return None
        (loop, atoms, ln) = lf
        return {"iter": loop.iter, "iter_at": ln, "var": loop.target.id, "elt": adds[0].args[0], "atoms": atoms, "at": ln}
    return None


def _loop_filter(fa, st, name=None):
    """For an expression statement `st` that sits in ONE `for` loop whose body only filters (nested ifs around it, guards
    `if c: continue` before it, per-element work that does not touch `name`): (the loop, the filter as atoms (test, polarity)
    that hold when `st` is executed, the loop's CFG node); else None."""
    if not isinstance(st, ast.Expr):
        return None
    atoms = []
    cur = st
    while True:
        par = fa.pm.get(cur)
        if isinstance(par, ast.If):
            blk = par.body if cur in par.body else par.orelse
            atoms = _split_atoms(par.test, cur in par.body) + atoms
        elif isinstance(par, ast.For):
            if cur not in par.body:
                return None
            blk = par.body
        else:
            return None
        # what precedes the statement in its block: only guards `if c: continue`
        pre = []
        for sib in A.sig_stmts(blk):
            if sib is cur:
                break
            if isinstance(sib, ast.If) and not A.sig_stmts(sib.orelse) and len(A.sig_stmts(sib.body)) == 1 and isinstance(A.sig_stmts(sib.body)[0], ast.Continue):
                pre += _split_atoms(sib.test, False)
            elif isinstance(sib, (ast.Assign, ast.AnnAssign, ast.AugAssign, ast.Expr)) and (name is None or name not in A.names_in(sib)):
                continue  # work done for every element: it does not decide whether the element is taken
            else:
                return None
        after = A.sig_stmts(blk)[A.sig_stmts(blk).index(cur) + 1:]
        if any(not isinstance(x, ast.Continue) for x in after):
            return None
        atoms = pre + atoms
        if isinstance(par, ast.For):
            break
        cur = par
    loop = par
    if loop.orelse or not isinstance(loop.target, ast.Name) or not fa.nodes(loop):
        return None
    if any(isinstance(x, (ast.Break, ast.Return)) for x in A.walk_local(loop)):
        return None
    return (loop, atoms, fa.nodes(loop)[0])


def _inline_predicate(fa, t):
    """`pred(x)` where pred is a function nested in `fa`'s function that only computes a value (assignments to temporaries bound
    once, one final return): the returned expression with the temporaries substituted and the parameter replaced by the
    argument; anything else is returned as it is."""
    import copy
    if not (isinstance(t, ast.Call) and isinstance(t.func, ast.Name) and t.func.id in fa.fi.nested and not t.keywords):
        return t
    sub = fa.fi.nested[t.func.id].node
    a_ = sub.args
    if a_.vararg or a_.kwarg or a_.kwonlyargs or len(a_.posonlyargs + a_.args) != len(t.args):
        return t
    body = [st for st in sub.body if not (isinstance(st, ast.Expr) and isinstance(st.value, ast.Constant))]
    if not body or not isinstance(body[-1], ast.Return) or body[-1].value is None:
        return t
    env = {p_.arg: arg for p_, arg in zip(a_.posonlyargs + a_.args, t.args)}
    for st in body[:-1]:
        tg = st.targets if isinstance(st, ast.Assign) else [st.target] if isinstance(st, ast.AnnAssign) and st.value is not None else None
        if tg is None or len(tg) != 1 or not isinstance(tg[0], ast.Name) or tg[0].id in env:
            return t
        env[tg[0].id] = st.value

    class L(ast.NodeTransformer):
        def __init__(self, depth):
            self.depth = depth

        def visit_Name(self, n):
            if isinstance(n.ctx, ast.Load) and n.id in env and self.depth > 0:
                return L(self.depth - 1).visit(copy.deepcopy(env[n.id]))
            return n

    return ast.fix_missing_locations(L(8).visit(copy.deepcopy(body[-1].value)))


def _rename(node, old, new):
    import copy
    e = copy.deepcopy(node)
    for n in ast.walk(e):
        if isinstance(n, ast.Name) and n.id == old:
            n.id = new
    return e


def _spec_literals(fa, spec):
    """The filter of a collection spec as canonical literals (FA's spelling, the element variable called `_c0`,
    operands of == as a sorted pair)."""
    out = set()
    for (t, pol) in spec["atoms"]:
        (txt, p2) = fa._literal(_rename(t, spec["var"], "_c0"), spec["at"], pol)
        e = _parse_lit(txt)
        if e is not None and any(isinstance(x, ast.Name) and x.id == spec["var"] for x in ast.walk(e)):
            # a temporary of the loop body that stands for something of the element (`h = rule.compute_hash()` ... `if h is not None`)
            # is expanded by FA after the renaming: the element variable comes back under its own name
            e = _rename(e, spec["var"], "_c0")
            txt = A.norm(e)
        if isinstance(e, ast.Compare) and len(e.ops) == 1 and isinstance(e.ops[0], ast.Eq):
            a_, b_ = sorted([A.norm(e.left), A.norm(e.comparators[0])])
            txt = "%s == %s" % (a_, b_)
        out.add((txt, p2))
    return out


def _visit_unit(ck):
    """_visit_dependency together with the helpers of its class it was split into (methods of HashRule that it calls,
    transitively, other than the rule classes' own protocol): the rules about the visit reason over all of them."""
    root = FA(ck, CH + ".HashRule._visit_dependency")
    cls = ck.repo.cls(CH + ".HashRule")
    unit, names, work = [root], {root.fi.name}, [root]
    while work:
        cur = work.pop()
        for c in cur.calls():
            nm = A.call_attr(c)
            rc = A.call_recv(c)
            if nm in names or nm not in cls.methods or nm in ("collect_transitive_dependencies", "try_resolve", "compute_hash", "did_change", "clone", "describe"):
                continue
            if not (isinstance(rc, ast.Name) and rc.id in ("HashRule", "cls", "self")):
                continue
            fx = FA(ck, cls.methods[nm])
            names.add(nm)
            unit.append(fx)
            work.append(fx)
    return unit


def _module_expand(mod, expr, depth=8):
    """`expr` with the module-level names that are bound once, at module level, replaced by their values, and calls
    `f()` of argument-less module-level functions that only compute a value (assignments to locals bound once, logging,
    one final return) replaced by the value they return - so that a module constant built through named temporaries or
    through such helper functions reads like the one-expression form."""
    import copy
    counts = {}
    for st in mod.tree.body:
        for t in (st.targets if isinstance(st, ast.Assign) else [st.target] if isinstance(st, (ast.AnnAssign, ast.AugAssign)) else []):
            for x in ast.walk(t):
                if isinstance(x, ast.Name):
                    counts[x.id] = counts.get(x.id, 0) + 1

    def returned_value(fn):
        """the expression a straight-line function returns, its local temporaries substituted; None if it does more."""
        body = [st for st in fn.body if not (isinstance(st, ast.Expr) and isinstance(st.value, ast.Constant))]
        a_ = fn.args
        if a_.args or a_.posonlyargs or a_.kwonlyargs or a_.vararg or a_.kwarg or not body or not isinstance(body[-1], ast.Return) or body[-1].value is None:
            return None
        env = {}
        for st in body[:-1]:
            if isinstance(st, ast.Expr) and isinstance(st.value, ast.Call) and (A.dotted(st.value.func) or "").split(".")[0] in ("log", "logging", "logger"):
                continue
            tg = st.targets if isinstance(st, ast.Assign) else [st.target] if isinstance(st, ast.AnnAssign) and st.value is not None else None
            if tg is None or len(tg) != 1 or not isinstance(tg[0], ast.Name) or tg[0].id in env:
                return None
            env[tg[0].id] = st.value

        class L(ast.NodeTransformer):
            def __init__(self, d):
                self.d = d

            def visit_Name(self, n):
                if isinstance(n.ctx, ast.Load) and n.id in env and self.d > 0:
                    return L(self.d - 1).visit(copy.deepcopy(env[n.id]))
                return n

        return L(8).visit(copy.deepcopy(body[-1].value))

    class T(ast.NodeTransformer):
        def __init__(self, d):
            self.d = d

        def visit_Name(self, n):
            if isinstance(n.ctx, ast.Load) and counts.get(n.id) == 1 and n.id in mod.assigns and self.d > 0:
                return T(self.d - 1).visit(copy.deepcopy(mod.assigns[n.id]))
            return n

        def visit_Call(self, n):
            if isinstance(n.func, ast.Name) and n.func.id in mod.functions and not n.args and not n.keywords and self.d > 0 and n.func.id not in counts:
                v = returned_value(mod.functions[n.func.id].node)
                if v is not None:
                    return T(self.d - 1).visit(v)
            return self.generic_visit(n)

    return T(depth).visit(copy.deepcopy(expr))


def _attr_read_subject(n, attr):
    """`X.attr` / getattr(X, 'attr'[, d]) -> X, else None"""
    if isinstance(n, ast.Attribute) and n.attr == attr:
        return n.value
    if isinstance(n, ast.Call) and A.call_attr(n) == "getattr" and len(n.args) >= 2 and A.const_str(n.args[1]) == attr:
        return n.args[0]
    return None


def _helper_reads_attr(fa, call, attr):
    """`helper(X, ...)` where helper is a plain function of the same module whose returned value derives from `<its parameter>.attr`:
    the argument X bound to that parameter, else None.  (One level: a read moved into a helper is still a read of X.)"""
    if not (isinstance(call, ast.Call) and isinstance(call.func, ast.Name)):
        return None
    fi = next((f for f in fa.fi.module.all_funcs() if f.parent is None and f.cls is None and f.name == call.func.id), None)
    if fi is None or fi is fa.fi:
        return None
    try:
        sub = FA(fa.ck, fi)
    except Exception:  # noqa
        return None
    for r in sub.returns():
        if r.value is None or not sub.nodes(r):
            continue
        for n in _flow(sub, r.value, sub.nodes(r)[0]).values():
            subj = _attr_read_subject(n, attr)
            if isinstance(subj, ast.Name) and subj.id in sub.fi.params:
                k = sub.fi.params.index(subj.id)
                if k < len(call.args):
                    return call.args[k]
                for kw in call.keywords:
                    if kw.arg == subj.id:
                        return kw.value
    # closure cells and the like are usually walked in a loop: any read of the attribute on a parameter inside the helper
    for n in A.walk_body(sub.node):
        subj = _attr_read_subject(n, attr)
        if isinstance(subj, ast.Name) and subj.id in sub.fi.params and any(r.value is not None for r in sub.returns()):
            k = sub.fi.params.index(subj.id)
            if k < len(call.args):
                return call.args[k]
    return None


def _reads_attr(fa, expr, attr, at=None):
    """Does the value of `expr` derive from `<something>.attr` / getattr(<something>, 'attr'[, default]), directly or through a
    plain helper of the module that reads it from its argument?"""
    for n in _flow(fa, expr, at).values():
        if _attr_read_subject(n, attr) is not None:
            return True
        if _helper_reads_attr(fa, n, attr) is not None:
            return True
    # a value assembled piece by piece (a list filled in a loop over the attribute, then frozen): the backward slice follows
    # in-place changes and the iterables of the loops around them
    if at is not None:
        try:
            sl = _backward_slice(fa, [(expr, at)])
        except Exception:  # noqa
            sl = {}
        for n in sl.values():
            if _attr_read_subject(n, attr) is not None or _helper_reads_attr(fa, n, attr) is not None:
                return True
    return False


def _digest_fed_and_returned(fa, pred):
    """Is there a hasher object `h` with an `h.update(<arg>)` such that pred(arg, node) holds, an
    `h.hexdigest()` / `h.digest()` on the same object after it, and a return whose value derives from that
    digest?  (Whatever the names of the hasher and of the temporaries, and whether the digest is
    returned directly or through a variable.)"""
    digs = [c for c in fa.calls() if A.call_attr(c) in ("hexdigest", "digest") and isinstance(A.call_recv(c), ast.Name)]
    for u in fa.calls("update"):
        rcv = A.call_recv(u)
        if not isinstance(rcv, ast.Name) or not u.args:
            continue
        for un in fa.nodes(u):
            if not pred(u.args[0], un):
                continue
            after = fa.cfg.reach([un])
            for dg in digs:
                if A.call_recv(dg).id != rcv.id:
                    continue
                for dn in fa.nodes(dg):
                    if dn not in after or not fa.df.same_defs(rcv.id, un, dn):
                        continue
                    for r in fa.returns():
                        if r.value is not None and fa.nodes(r) and id(dg) in _flow(fa, r.value):
                            return True
    return False


class _CodeHasher:
    """The functions that turn a code object into a digest, found by WHAT THEY DO (the reference tree has one function
    nested in fn_code_hash; it may as well be one or several module-level functions taking the salt and the environment as
    parameters):
      outer    FA of fn_code_hash
      dig      FA of the digester: the function that reads `<its parameter>.co_code` and feeds a hasher
      obj      the digester's code-object parameter
      entries  {function name: parameter}: the digester and the functions that hand their parameter on to it (a dispatcher
               `code object -> digest, anything else -> description`): calling one of them on a code object digests it
      funcs    {function name: FuncInfo} of all candidates (nested in fn_code_hash, or module-level and reachable from it)"""

    def __init__(self, ck):
        self.ck = ck
        self.outer = FA(ck, CH + ".fn_code_hash")
        mod = ck.repo.module(CH)
        funcs = dict(self.outer.fi.nested)
        work = [self.outer.fi.node] + [f.node for f in funcs.values()]
        while work:
            cur = work.pop()
            for c in ast.walk(cur):
                if isinstance(c, ast.Call) and isinstance(c.func, ast.Name) and c.func.id in mod.functions and c.func.id not in funcs and c.func.id != self.outer.fi.name:
                    funcs[c.func.id] = mod.functions[c.func.id]
                    work.append(mod.functions[c.func.id].node)
        self.funcs = funcs
        digs = [(f, x.value.id) for f in funcs.values() for x in A.walk_body(f.node)
                if isinstance(x, ast.Attribute) and x.attr == "co_code" and isinstance(x.value, ast.Name) and x.value.id in f.params]
        ck.need(len({f.qual for (f, _o) in digs}) == 1, "fn_code_hash: nested code-object hasher not found (expected one function, nested in fn_code_hash or called "
                                                        "from it, that reads `.co_code` of its parameter; found %d)" % len({f.qual for (f, _o) in digs}))
        self.dig = FA(ck, digs[0][0])
        self.obj = digs[0][1]
        self.entries = {self.dig.fi.name: self.obj}
        changed = True
        while changed:
            changed = False
            for f in funcs.values():
                if f.name in self.entries:
                    continue
                for c in A.body_calls(f.node):
                    if isinstance(c.func, ast.Name) and c.func.id in self.entries:
                        a_ = self.arg(c, c.func.id, self.entries[c.func.id])
                        if isinstance(a_, ast.Name) and a_.id in f.params:
                            self.entries[f.name] = a_.id
                            changed = True
                            break

    def arg(self, call, fname, param):
        """the argument bound to `param` in a call of unit function `fname`"""
        ps = self.funcs[fname].params
        return A.arg_or_kw(call, ps.index(param), param) if param in ps else None

    def hashes_code(self, call, var):
        """is `call` an application of the hasher (the digester or a dispatcher in front of it) to the variable `var`?"""
        if not (isinstance(call, ast.Call) and isinstance(call.func, ast.Name) and call.func.id in self.entries):
            return False
        a_ = self.arg(call, call.func.id, self.entries[call.func.id])
        return isinstance(a_, ast.Name) and a_.id == var

    def stands_for(self, fi, name, _busy=None):
        """The parameter of fn_code_hash that `name`, read inside unit function `fi`, stands for: a variable of the enclosing
        fn_code_hash (nested function), or a parameter that every call site inside the unit binds to the same thing."""
        busy = _busy if _busy is not None else set()
        if fi is self.outer.fi:
            return name if name in fi.params else None
        if name not in fi.params:
            if fi.parent is not None:
                return self.stands_for(fi.parent, name, busy)
            return None
        if (fi.qual, name) in busy:
            return "*"
        busy.add((fi.qual, name))
        got = set()
        for caller in [self.outer.fi] + list(self.funcs.values()):
            for c in A.body_calls(caller.node):
                if isinstance(c.func, ast.Name) and c.func.id == fi.name and self.funcs.get(fi.name) is fi:
                    a_ = self.arg(c, fi.name, name)
                    got.add(self.stands_for(caller, a_.id, busy) if isinstance(a_, ast.Name) else None)
        busy.discard((fi.qual, name))
        got.discard("*")
        return next(iter(got)) if len(got) == 1 else None


# --------------------------------------------------------------------------------- C01.R1
def check_hash_input_coverage(ck, R):
    ck.rule(R, "hash-input coverage: every code-object attribute the interpreter consults when running a function, and "
               "the function's default values, reach the code digest; nested code constants are hashed recursively", 12)
    for a in dir(types.CodeType):
        if a.startswith("__"):
            continue
        if a not in CODE_RELEVANT and a not in CODE_DEBUG_ONLY:
            raise AnalysisError("code object attribute %r of this interpreter is not classified in the checker's table" % a)
    unit = _CodeHasher(ck)
    outer, h, obj = unit.outer, unit.dig, unit.obj
    # what reaches the digest: everything the arguments of `<hasher>.update(...)` / `hashlib.sha256(...)` are computed from,
    # followed through temporaries, through what is appended to / stored in a local in place, through loops - and ACROSS the
    # functions of the unit: a parameter is followed to what the calls bind to it (`update(chunk) for chunk in chunks` makes
    # every argument of that helper an input of the digest), a call to what the callee returns (the attribute list may be
    # built by one function and digested by another)
    fas = {}

    def fa_of(fi_):
        if fi_.qual not in fas:
            fas[fi_.qual] = h if fi_ is h.fi else (outer if fi_ is outer.fi else FA(ck, fi_))
        return fas[fi_.qual]

    unit_fis = [outer.fi] + [f_ for f_ in unit.funcs.values()]

    def callee_of(fx, call):
        if not isinstance(call.func, ast.Name):
            return None
        cur = fx.fi
        while cur is not None:
            if call.func.id in cur.nested:
                return cur.nested[call.func.id]
            cur = cur.parent
        f_ = unit.funcs.get(call.func.id)
        return f_ if f_ is not None and f_.parent is None else None

    def bound_args(call, fi_, pname):
        """the expressions a call binds to parameter `pname` of `fi_` (several for *args)"""
        a_ = fi_.node.args
        pos = [x.arg for x in a_.posonlyargs + a_.args]
        if a_.vararg is not None and a_.vararg.arg == pname:
            return [x.value if isinstance(x, ast.Starred) else x for x in call.args[len(pos):]]
        if a_.kwarg is not None and a_.kwarg.arg == pname:
            return [k.value for k in call.keywords if k.arg is None or k.arg not in pos + [x.arg for x in a_.kwonlyargs]]
        v_ = A.arg_or_kw(call, pos.index(pname), pname) if pname in pos else A.kwarg(call, pname)
        return [v_] if v_ is not None else []

    def digest_sinks(fis):
        out_ = []
        for fi_ in fis:
            fx = fa_of(fi_)
            for c in [c for c in fx.calls("update") if isinstance(A.call_recv(c), ast.Name) and c.args and fx.nodes(c)] + \
                     [c for c in fx.calls() if A.call_dotted(c) in ("hashlib.sha256", "sha256") and fx.nodes(c)]:
                for a_ in c.args:
                    out_.append((fx, a_, fx.nodes(c)[0]))
        return out_

    def unit_slice(todo):
      fed_nodes, owner = {}, {}
      done_seeds, done_params, done_calls = set(), set(), set()
      while todo:
          (fx, e_, at_) = todo.pop()
          if (fx.qual, id(e_), at_) in done_seeds:
              continue
          done_seeds.add((fx.qual, id(e_), at_))
          for (n, a_) in _slice_at(fx, [(e_, at_)], control_dependence=False).values():
              if id(n) not in fed_nodes:
                  fed_nodes[id(n)] = n
                  owner[id(n)] = fx
              if isinstance(n, ast.Name) and isinstance(n.ctx, ast.Load) and a_ is not None and n.id in fx.fi.params \
                      and any(d.kind == "param" for d in fx.df.reaching(a_, n.id)) and (fx.qual, n.id) not in done_params and fx.fi is not outer.fi:
                  done_params.add((fx.qual, n.id))
                  for cfi in unit_fis:
                      cx = fa_of(cfi)
                      for c in cx.calls(fx.fi.name):
                          if callee_of(cx, c) is fx.fi and cx.nodes(c):
                              for v_ in bound_args(c, fx.fi, n.id):
                                  todo.append((cx, v_, cx.nodes(c)[0]))
              if isinstance(n, ast.Call) and (fx.qual, id(n)) not in done_calls:
                  done_calls.add((fx.qual, id(n)))
                  cf = callee_of(fx, n)
                  if cf is not None:
                      gx = fa_of(cf)
                      for r in gx.returns():
                          if r.value is not None and gx.nodes(r):
                              todo.append((gx, r.value, gx.nodes(r)[0]))
      return fed_nodes, owner

    seeds0 = digest_sinks([f_ for f_ in unit_fis if f_ is not outer.fi])
    ck.need(bool(seeds0), "%s: no digest is fed (<hasher>.update(...) / hashlib.sha256(...)) in the code hasher or the functions it is split into" % h.fi.name)
    fed_nodes, owner = unit_slice(seeds0)
    consumed = {}
    narrowed = {}
    NARROWING = {"len", "bool", "hash", "set", "frozenset", "min", "max", "any", "all", "sum", "id", "type"}

    def node_of(n):
        fx = owner.get(id(n), h)
        st = fx.stmt_of(n) if fx.pm.get(n) is not None else None
        ns = fx.nodes(st) if st is not None else []
        return ns[0] if ns else None

    # the parameter that stands for the code object, per function of the unit: the digester's and the dispatchers' own, and
    # that of a helper which every call inside the unit hands the caller's code object (`_attr_values(o, ...)`)
    code_params = dict(unit.entries)
    grew = True
    while grew:
        grew = False
        for f_ in unit.funcs.values():
            if f_.name in code_params:
                continue
            sites = [(cfi_, c_) for cfi_ in unit_fis for c_ in fa_of(cfi_).calls(f_.name) if callee_of(fa_of(cfi_), c_) is f_]
            for p_ in f_.params:
                if sites and all(cfi_ is not outer.fi and len(b_) == 1 and isinstance(b_[0], ast.Name) and code_params.get(cfi_.name) == b_[0].id
                                 and unit.funcs.get(cfi_.name) is cfi_ for (cfi_, c_) in sites for b_ in [bound_args(c_, f_, p_)]):
                    code_params[f_.name] = p_
                    grew = True
                    break

    def code_param(n):
        """the name that stands for the code object in the function node `n` belongs to (the digester, a function that hands its
        parameter on to it, or a helper that is handed it), else None"""
        fx = owner.get(id(n))
        return code_params.get(fx.fi.name) if fx is not None and unit.funcs.get(fx.fi.name) is fx.fi else None

    for n in fed_nodes.values():
        attrs = []
        fx = owner[id(n)]
        cp = code_param(n)
        if cp is None:
            continue
        if isinstance(n, ast.Attribute) and isinstance(n.value, ast.Name) and n.value.id == cp and n.attr.startswith("co_"):
            attrs = [n.attr]
        elif isinstance(n, ast.Call) and A.call_attr(n) == "getattr" and isinstance(n.func, ast.Name) and len(n.args) >= 2 and A.norm(n.args[0]) == cp:
            # the attribute name: a literal, or a variable ranging over literals (table-driven)
            nm_alts = _alternatives(fx, n.args[1], node_of(n)) if node_of(n) is not None else [(n.args[1], None)]
            attrs = [A.const_str(e) for (e, _a) in nm_alts if A.const_str(e)] if all(A.const_str(e) for (e, _a) in nm_alts) else []
        if not attrs:
            continue
        par = fx.pm.get(n)
        if (isinstance(par, ast.Subscript) and par.value is n) or \
                (isinstance(par, ast.Call) and isinstance(par.func, ast.Name) and par.func.id in NARROWING and n in par.args):
            # only a part / a summary of the attribute is hashed
            for a_ in attrs:
                narrowed.setdefault(a_, par)
            continue
        for a_ in attrs:
            consumed.setdefault(a_, n)
    for attr, why in CODE_RELEVANT.items():
        ok = attr in consumed
        if not ok and attr in narrowed:
            ck.ob(R, h.key(None, attr), False,
                  "only `%s` of %s (%s) reaches the code hash, not the attribute as a whole: an edit that changes the rest of it keeps the version, "
                  "and a stale result is served" % (A.short(narrowed[attr], 50), attr, why), h.where(narrowed[attr]))
            continue
        ck.ob(R, h.key(None, attr), ok, "%s reaches the digest" % attr if ok else
              "%s (%s) is not part of the code hash: an edit that only changes it keeps the version, and a stale result is served" % (attr, why), h.where())
    # co_consts recursion: some iteration over <obj>.co_consts that maps EVERY element through the hasher itself (the
    # digester or a dispatcher in front of it; directly, or through a local lambda / def that does nothing but call the
    # hasher on its argument) reaches the digest - a comprehension, map(), or a list filled by one loop
    def is_hasher_call(call, var, depth=0, hx=None):
        h = hx if hx is not None else unit.dig
        if not (isinstance(call, ast.Call) and call.args and isinstance(call.args[0], ast.Name) and call.args[0].id == var):
            return False
        f = call.func
        if unit.hashes_code(call, var):
            return True
        if isinstance(f, ast.Name) and depth < 3 and f.id in h.fi.params and h.fi is not outer.fi:
            # a callback parameter: it is the hasher if that is what every call of this function inside the unit binds to it
            sites = [(cx_, c_) for cfi_ in unit_fis for cx_ in [fa_of(cfi_)] for c_ in cx_.calls(h.fi.name) if callee_of(cx_, c_) is h.fi]
            bound = [(cx_, bound_args(c_, h.fi, f.id)) for (cx_, c_) in sites]
            if sites and all(len(b_) == 1 and is_hasher_ref(b_[0], hx=cx_) for (cx_, b_) in bound):
                return True
        if isinstance(f, ast.Name) and depth < 3:
            # a local alias of the hasher
            for st in h.stmts(ast.Assign):
                if any(isinstance(t, ast.Name) and t.id == f.id for t in st.targets) and isinstance(st.value, ast.Lambda) \
                        and st.value.args.args and isinstance(st.value.body, ast.Call):
                    if is_hasher_call(st.value.body, st.value.args.args[0].arg, depth + 1, hx):
                        return True
            sub = h.fi.nested.get(f.id)
            if sub is not None and sub.params:
                rets = [x for x in A.walk_body(sub.node) if isinstance(x, ast.Return)]
                if len(rets) == 1 and len(A.sig_stmts(sub.node.body)) == 1 and is_hasher_call(rets[0].value, sub.params[0], depth + 1, hx):
                    return True
        return False

    def is_hasher_ref(f, hx=None):
        """a one-argument callable that applies the hasher to its argument (for map())"""
        if isinstance(f, ast.Name) and f.id in unit.entries:
            fi_ = unit.funcs[f.id]
            a_ = fi_.node.args
            required = [x.arg for x in a_.posonlyargs + a_.args][: len(a_.posonlyargs + a_.args) - len(a_.defaults)]
            return required == [unit.entries[f.id]]
        if isinstance(f, ast.Lambda) and len(f.args.args) == 1 and isinstance(f.body, ast.Call):
            return is_hasher_call(f.body, f.args.args[0].arg, hx=hx)
        return False

    rec = False
    for n in fed_nodes.values():
        spec = None
        hx, cp = owner[id(n)], code_param(n)
        if cp is None:
            continue
        if isinstance(n, (ast.ListComp, ast.GeneratorExp)) or (isinstance(n, ast.Name) and isinstance(n.ctx, ast.Load) and hx.df.is_local(n.id) and n.id not in hx.fi.params):
            at_ = node_of(n)
            spec = _collection_spec(hx, n, at_) if at_ is not None else None
        if spec is not None and not spec["atoms"] and hx.xnorm(spec["iter"], spec["iter_at"]) == cp + ".co_consts" and is_hasher_call(spec["elt"], spec["var"], hx=hx):
            rec = True
        if isinstance(n, ast.Call) and isinstance(n.func, ast.Name) and n.func.id == "map" and len(n.args) == 2 and node_of(n) is not None \
                and hx.xnorm(n.args[1], node_of(n)) == cp + ".co_consts" and is_hasher_ref(n.args[0], hx=hx):
            rec = True
    ck.ob(R, h.key(None, "consts-recursive"), rec, "constants are hashed recursively (nested functions, lambdas, comprehensions)" if rec else
          "co_consts is not hashed through the hasher itself: edits inside nested code objects are invisible", h.where())
    # salt / environment
    def fed(param):
        """something that stands for fn_code_hash's parameter `param` reaches the digest"""
        return any(isinstance(x, ast.Name) and isinstance(x.ctx, ast.Load) and unit.stands_for(owner[id(x)].fi, x.id) == param for x in fed_nodes.values())

    ok_env = fed("environment") and fed("salt")
    ck.ob(R, h.key(None, "salt-and-environment"), ok_env, "salt and environment feed the digest" if ok_env else
          "the version salt / environment bytes no longer feed the code digest", h.where())
    # function-level defaults
    text = outer.node
    got = set()
    for n in A.walk_body(outer.node):
        if isinstance(n, ast.Attribute) and n.attr in FUNC_RELEVANT:
            got.add(n.attr)
        if isinstance(n, ast.Call) and A.call_attr(n) == "getattr" and len(n.args) >= 2 and A.const_str(n.args[1]) in FUNC_RELEVANT:
            got.add(A.const_str(n.args[1]))
        for attr in FUNC_RELEVANT:
            if isinstance(n, ast.Call) and _helper_reads_attr(outer, n, attr) is not None:
                got.add(attr)
    fed_all = ret_all = None
    for attr, why in FUNC_RELEVANT.items():
        ok = attr in got
        if ok:
            # it is fed to a digest whose value is returned
            ok = _digest_fed_and_returned(outer, lambda arg, at, attr=attr: _reads_attr(outer, arg, attr, at))
            if not ok:
                # ... the digest may be fed by a helper of the unit (`result = _mix(result, (defaults, kwdefaults))`): the read is among
                # what reaches some digest of the unit, and among what the returned value is made from
                if fed_all is None:
                    fed_all = unit_slice(digest_sinks(unit_fis))[0]
                    ret_all = unit_slice([(outer, r.value, outer.nodes(r)[0]) for r in outer.returns() if r.value is not None and outer.nodes(r)])[0]
                ok = any(i_ in ret_all and outer.pm.get(n_) is not None and (_attr_read_subject(n_, attr) is not None or _helper_reads_attr(outer, n_, attr) is not None)
                         for (i_, n_) in fed_all.items())
        ck.ob(R, outer.key(None, attr), ok, "%s reaches the digest" % attr if ok else
              "%s (%s) is not part of the code hash: editing a default value keeps the version, and a stale result is served" % (attr, why), outer.where())
    # every return of a code-based hash passes the reads of the defaults (no early exit, e.g.
    # through a cache keyed by the code object alone)
    def_reads = []
    for st in outer.stmts():
        # (for a compound statement only its test is looked at here: the statements inside are visited on their own)
        scope_ = [st.test] if isinstance(st, (ast.If, ast.While)) else ([st.iter] if isinstance(st, (ast.For, ast.AsyncFor)) else ([] if isinstance(st, (ast.With, ast.Try)) else [st]))
        for n in [x for sc_ in scope_ for x in A.walk_local(sc_)]:
            if (isinstance(n, ast.Attribute) and n.attr in FUNC_RELEVANT) or \
                    (isinstance(n, ast.Call) and A.call_attr(n) == "getattr" and len(n.args) >= 2 and A.const_str(n.args[1]) in FUNC_RELEVANT):
                if isinstance(st, (ast.Assign, ast.Expr, ast.AugAssign, ast.AnnAssign, ast.Return, ast.If, ast.While, ast.For, ast.AsyncFor)):
                    def_reads.append((A.const_str(n.args[1]) if isinstance(n, ast.Call) else n.attr, st))
            elif isinstance(n, ast.Call) and isinstance(st, (ast.Assign, ast.Expr, ast.AugAssign, ast.AnnAssign, ast.Return, ast.If, ast.While, ast.For, ast.AsyncFor)):
                for attr in FUNC_RELEVANT:
                    if _helper_reads_attr(outer, n, attr) is not None:
                        def_reads.append((attr, st))
    by_attr = {}
    for (a, st) in def_reads:
        by_attr.setdefault(a, []).append(st)
    _tables, _designator = _shared_tables(ck.repo.module(CH))
    for r in outer.returns():
        if r.value is None:
            continue
        v = r.value
        if isinstance(v, ast.Call) and A.call_attr(v) in ("repr", "_stable_repr", "str") and [A.norm(a) for a in v.args] == ["fn"]:
            continue  # the documented fallback for callables without code
        if outer.nodes(r) and _table_reads(outer, v, outer.nodes(r)[0], _designator, _tables):
            # a remembered value: whether the key it is remembered under determines the defaults and the captured values as well
            # is decided where the table is filled (check_no_remembered_hash_inputs, C01.R13 / C13.R7)
            continue
        # (single-return style: the documented fallback may be assigned to the returned variable in the branch for callables
        # without code - a path through that assignment returns the fallback, not a code hash)
        fallback = []
        if isinstance(v, ast.Name):
            for s_ in outer.stmts(ast.Assign):
                if any(isinstance(t_, ast.Name) and t_.id == v.id for t_ in s_.targets) and isinstance(s_.value, ast.Call) \
                        and A.call_attr(s_.value) in ("repr", "_stable_repr", "str") and [A.norm(a) for a in s_.value.args] == ["fn"]:
                    fallback += outer.nodes(s_)
        for attr in FUNC_RELEVANT:
            nodes = outer.nodes_all(by_attr.get(attr, []))
            ok = bool(nodes) and all(outer.cfg.must_pass(set(nodes) | set(fallback), i) for i in outer.nodes(r))
            ck.ob(R, outer.key(r, "return-after-" + attr), ok, "this return is reached only after %s was read" % attr if ok else
                  "fn_code_hash can return a code hash without reading %s on that path (early return / cache keyed by the code object): "
                  "a definition re-executed with only a default changed keeps its version" % attr, outer.where(r))
    # the defaults are read from the same (unwrapped) object whose code is hashed
    code_reads = [n for st in outer.stmts() for n in A.walk_local(st)
                  if (isinstance(n, ast.Call) and A.call_attr(n) == "getattr" and len(n.args) >= 2 and A.const_str(n.args[1]) == "__code__")
                  or (isinstance(n, ast.Attribute) and n.attr == "__code__" and isinstance(n.ctx, ast.Load))]
    if code_reads:
        subj = code_reads[0].args[0] if isinstance(code_reads[0], ast.Call) else code_reads[0].value
        if isinstance(subj, ast.Name):
            for (attr, st) in def_reads:
                for n in A.walk_local(st):
                    rd = None
                    if isinstance(n, ast.Call) and A.call_attr(n) == "getattr" and len(n.args) >= 2 and A.const_str(n.args[1]) == attr and isinstance(n.args[0], ast.Name):
                        rd = n.args[0]
                    if isinstance(n, ast.Attribute) and n.attr == attr and isinstance(n.value, ast.Name):
                        rd = n.value
                    if rd is None and isinstance(n, ast.Call):
                        hx = _helper_reads_attr(outer, n, attr)
                        rd = hx if isinstance(hx, ast.Name) else None
                    if rd is not None:
                        same = rd.id == subj.id and all(outer.df.same_defs(subj.id, a, b) for a in outer.nodes(st) for b in outer.nodes(code_reads[0]))
                        ck.ob(R, outer.key(None, "same-object:" + attr), same,
                              "%s is read from the object whose code is hashed" % attr if same else
                              "%s is read from another object than the one whose __code__ is hashed (before/after unwrapping decorators): for a "
                              "functools.wraps-decorated function the wrapper's defaults are hashed, so editing a default keeps the version" % attr, outer.where(st))
    # the code of the *unwrapped* function is hashed
    # some loop replaces the hashed object by its __wrapped__ (whatever the spelling of the loop condition)
    unw = [s_ for s_ in outer.stmts(ast.Assign) if isinstance(s_.value, ast.Attribute) and s_.value.attr == "__wrapped__" and isinstance(s_.value.value, ast.Name)
           and any(isinstance(t, ast.Name) and t.id == s_.value.value.id for t in s_.targets) and outer.enclosing(s_, ast.While) is not None]
    # ... or inspect.unwrap does it, for the object whose __code__ is read
    hashed_obj = None
    if code_reads:
        subj_ = code_reads[0].args[0] if isinstance(code_reads[0], ast.Call) else code_reads[0].value
        hashed_obj = subj_.id if isinstance(subj_, ast.Name) else None
    unw += [s_ for s_ in outer.stmts(ast.Assign) if isinstance(s_.value, ast.Call) and A.call_attr(s_.value) == "unwrap" and len(s_.value.args) == 1
            and hashed_obj is not None and any(isinstance(t, ast.Name) and t.id == hashed_obj for t in s_.targets)]
    ck.ob(R, outer.key(None, "unwrap"), bool(unw), "decorator wrappers are unwrapped before hashing" if unw else
          "fn_code_hash no longer unwraps __wrapped__ chains", outer.where())
    # MementoFunction.__init__ stores the code hash unless a version is declared
    ini = FA(ck, MF + ".__init__")
    chs = [c for c in ini.calls("fn_code_hash")]
    FCH = CH + ".fn_code_hash"
    okc = len(chs) == 1 and A.norm(_call_arg(ck, chs[0], FCH, "fn")) == "fn" and A.norm(_call_arg(ck, chs[0], FCH, "salt")) == "version_salt" \
        and A.norm(_call_arg(ck, chs[0], FCH, "environment")) == "ENVIRONMENT_HASH_BYTES"
    st = [s for s in ini.stmts(ast.Assign) if any(A.dotted(t) == "self.code_hash" for t in s.targets)]
    # (one store fed by the call, or one store per case: the stores that do not come from the call are reached only when a
    # version or a code hash was handed in)
    def _given(s_):
        cj = _conditions(ini, s_)
        return bool(cj) and all(any((not pol) and t_.endswith(" is None") and t_.split(" is None")[0] in ini.fi.params for (t_, pol) in conj) for conj in cj)
    okc = okc and bool(st) and any("call:fn_code_hash" in ini.deps(s_.value) for s_ in st) \
        and all("call:fn_code_hash" in ini.deps(s_.value) or _given(s_) for s_ in st)
    ck.ob(R, ini.key(None, "code-hash-stored"), okc, "the function's code hash (with salt and environment) is stored at definition" if okc else
          "MementoFunction.__init__ does not store fn_code_hash(fn, salt, environment) as code_hash", ini.where())


# --------------------------------------------------------------------------------- C01.R2
def hash_rule_classes(ck):
    base = ck.repo.cls(CH + ".HashRule")
    subs = ck.repo.subclasses(base)
    ck.need(len(subs) >= 4, "expected at least 4 HashRule subclasses, found %d" % len(subs))
    return subs


def _is_watch_only(cls) -> bool:
    """Does the class body set `watch_only = True`?"""
    for st in cls.node.body:
        if isinstance(st, (ast.Assign, ast.AnnAssign)):
            tg = st.targets if isinstance(st, ast.Assign) else [st.target]
            if any(isinstance(t, ast.Name) and t.id == "watch_only" for t in tg) and isinstance(st.value, ast.Constant) and st.value.value is True:
                return True
    return False


def check_rule_kinds_contribute(ck, R):
    ck.rule(R, "every hash-rule kind contributes what it tracks: a memento rule its declared version or code hash, a "
               "plain-function rule the function's code hash, a variable rule the serialised value", 4)
    for cls in hash_rule_classes(ck):
        m = cls.methods.get("compute_hash")
        ck.need(m is not None, "%s.compute_hash not found" % cls.qual)
        fa = FA(ck, m)
        deps = set()
        for r in fa.returns():
            if r.value is not None:
                deps |= fa.deps(r.value)
        nm = cls.name
        if nm == "MementoFunctionHashRule":
            ok = "attr:self.memento_fn.explicit_version" in deps and "attr:self.memento_fn.code_hash" in deps
            msg = "declared version, else code hash of the function it points to"
        elif nm == "NonMementoFunctionHashRule":
            ok = "call:fn_code_hash" in deps and "attr:self.src_fn" in deps
            msg = "code hash of the plain function"
        elif nm == "GlobalVariableHashRule":
            ok = ("attr:self.last_value" in deps and "call:sha256" in deps) or \
                _digest_fed_and_returned(fa, lambda arg, at: "attr:self.last_value" in fa.df.deps(arg, at))
            msg = "digest of the serialised value"
        elif nm == "UndefinedSymbolHashRule":
            ok = all(r.value is None or A.is_none(r.value) for r in fa.returns())
            msg = "nothing (an undefined symbol has no content; its appearance is a did_change event)"
        elif _is_watch_only(cls):
            # a rule that only watches a symbol nothing can be hashed for (class attribute watch_only = True): it is
            # kept out of the digest by contributing None, and out of hash_rules() by that attribute
            ok = all(r.value is None or A.is_none(r.value) for r in fa.returns())
            msg = "nothing (a watch-only rule has no content; what it watches becoming hashable is a did_change event)"
        else:
            ok = bool(deps - {"const:None"})
            msg = "a value"
        ck.ob(R, fa.key(None), ok, "%s contributes %s" % (nm, msg) if ok else
              "%s.compute_hash no longer returns %s: changes of what it tracks leave versions unchanged" % (nm, msg), fa.where())
    # the variable rule's value is the codec serialisation of the resolved object
    tr = FA(ck, CH + ".GlobalVariableHashRule.try_resolve")
    ctor = tr.one(tr.calls("GlobalVariableHashRule"), "rule construction")
    lv = ctor.args[4] if len(ctor.args) > 4 else A.kwarg(ctor, "last_value")
    okv = lv is not None and "call:_serialize_value" in tr.deps(lv) and "param:ref" in tr.deps(lv)
    ck.ob(R, tr.key(ctor, "value-is-serialisation"), okv, "the tracked value is the serialisation of the resolved object" if okv else
          "the variable rule is not built with _serialize_value(ref)", tr.where(ctor))
    sv = FA(ck, CH + ".GlobalVariableHashRule._serialize_value")
    d = [c for c in sv.calls("dumps")]
    p0 = sv.fi.params[0] if sv.fi.params else "var"
    # some dump is the dump of encode_arg(var), and every value returned (other than "cannot be hashed": None) is built from it
    codec_dumps = [c for c in d if sv.nodes(c) and any(isinstance(x, ast.Call) and A.call_attr(x) == "encode_arg" and len(x.args) == 1
                                                      and sv.xnorm(x.args[0], sv.nodes(c)[0]) == p0 for a_ in c.args[:1] for x in _flow(sv, a_).values())]
    oks = len(codec_dumps) == 1 and all(r.value is None or A.is_none(r.value) or not sv.nodes(r) or "call:encode_arg" in sv.df.deps(r.value, sv.nodes(r)[0])
                                        for r in sv.returns())
    ck.ob(R, sv.key(None, "codec"), oks, "values are serialised through the argument codec" if oks else
          "_serialize_value does not serialise MementoCodec.encode_arg(var)", sv.where())


# --------------------------------------------------------------------------------- C01.R3
_LIST_MUTATORS = {"sort", "append", "extend", "insert", "remove", "pop", "clear", "reverse", "__setitem__", "__delitem__"}


def _sorted_source(fa, e, at, depth=6):
    """If `e` (evaluated at CFG node `at`) is a SORTED sequence - `sorted(X, ...)` itself, a local alias or a field of self that
    this function assigned it to, a `list(...)` copy of one, or a `list(X)` copy that was sorted in place (`.sort(...)`, its
    only change) on every path before this point - returns (the sorted() / .sort() call, X, CFG node at which X is read)."""
    if depth <= 0 or e is None or at is None:
        return None
    if isinstance(e, ast.Call) and isinstance(e.func, ast.Name) and e.func.id == "sorted" and len(e.args) == 1:
        return (e, e.args[0], at)
    if isinstance(e, ast.Call) and isinstance(e.func, ast.Name) and e.func.id in ("list", "tuple") and len(e.args) == 1 and not e.keywords:
        return _sorted_source(fa, e.args[0], at, depth - 1)
    if isinstance(e, ast.Name):
        ds = fa.df.reaching(at, e.id)
        if len(ds) != 1 or ds[0].kind != "assign" or ds[0].value is None:
            return None
        d = ds[0]
        r = _sorted_source(fa, d.value, d.node, depth - 1)
        if r is not None:
            return r
        v = d.value
        if isinstance(v, ast.Call) and isinstance(v.func, ast.Name) and v.func.id == "list" and len(v.args) == 1 and not v.keywords:
            muts = [c for c in fa.calls() if isinstance(A.call_recv(c), ast.Name) and A.call_recv(c).id == e.id and A.call_attr(c) in _LIST_MUTATORS]
            stores = [x for x in A.walk_body(fa.node) if isinstance(x, ast.Subscript) and isinstance(x.ctx, (ast.Store, ast.Del)) and isinstance(x.value, ast.Name) and x.value.id == e.id]
            if len(muts) == 1 and not stores and A.call_attr(muts[0]) == "sort" and not muts[0].args and fa.nodes(muts[0]) \
                    and at not in fa.nodes(muts[0]) and fa.cfg.must_pass(fa.nodes(muts[0]), at) and fa.cfg.must_pass([d.node], fa.nodes(muts[0])[0]):
                return (muts[0], v.args[0], d.node)
        return None
    if isinstance(e, ast.Attribute) and isinstance(e.value, ast.Name) and e.value.id == "self":
        asg = [s_ for s_ in fa.stmts(ast.Assign) if fa.nodes(s_) and any(A.dotted(t) == "self." + e.attr for t in s_.targets)]
        if len(asg) == 1 and at not in fa.nodes(asg[0]) and fa.cfg.must_pass(fa.nodes(asg[0]), at):
            r = _sorted_source(fa, asg[0].value, fa.nodes(asg[0])[0], depth - 1)
            if r is not None:
                return r
            v = asg[0].value
            if isinstance(v, ast.Call) and isinstance(v.func, ast.Name) and v.func.id == "list" and len(v.args) == 1 and not v.keywords:
                # a list copy kept in the field and sorted in place there (its only change) before this point
                muts = [c for c in fa.calls() if A.call_recv(c) is not None and A.norm(A.call_recv(c)) == "self." + e.attr and A.call_attr(c) in _LIST_MUTATORS]
                stores = [x for x in A.walk_body(fa.node) if isinstance(x, ast.Subscript) and isinstance(x.ctx, (ast.Store, ast.Del)) and A.norm(x.value) == "self." + e.attr]
                if len(muts) == 1 and not stores and A.call_attr(muts[0]) == "sort" and not muts[0].args and not muts[0].keywords and fa.nodes(muts[0]) \
                        and at not in fa.nodes(muts[0]) and fa.cfg.must_pass(fa.nodes(muts[0]), at) and fa.cfg.must_pass(fa.nodes(asg[0]), fa.nodes(muts[0])[0]):
                    return (muts[0], v.args[0], fa.nodes(asg[0])[0])
    return None


def _digest_feed(fa):
    """Where the per-rule pieces enter the version digest, whatever the spelling: (loop) a `for` whose body calls
    `<hasher>.update(piece)`, or (join) `<hasher>.update(sep.join(<pieces>))` / `hashlib.sha256(sep.join(<pieces>))` where
    <pieces> is a comprehension or a list filled by one filtering loop.  Returns {kind, site (loop / join call), stmt, iter,
    iter_at, var, piece, spec?, separated?}, or None when there is not exactly one such place."""
    found = []
    for n in fa.cfg.nodes:
        if n.kind == "for" and n.id in fa.cfg.reachable_nodes() and isinstance(n.ast.target, ast.Name):
            ups = [c for c in A.calls_in(n.ast) if A.call_attr(c) == "update" and isinstance(A.call_recv(c), ast.Name) and c.args]
            if ups and not any(_joined(fa, c.args[0], fa.nodes(c)[0]) for c in ups if fa.nodes(c)):
                found.append({"kind": "loop", "site": n.ast, "stmt": ups[0], "iter": n.ast.iter, "iter_at": n.id, "var": n.ast.target.id, "piece": ups[0].args[0]})
    for c in fa.calls():
        if not (c.args and fa.nodes(c) and (A.call_dotted(c) in ("hashlib.sha256", "sha256") or (A.call_attr(c) == "update" and isinstance(A.call_recv(c), ast.Name)))):
            continue
        j = _joined(fa, c.args[0], fa.nodes(c)[0])
        if j is not None:
            (jc, spec) = j
            found.append({"kind": "join", "site": jc, "stmt": c, "iter": spec["iter"], "iter_at": spec["iter_at"], "var": spec["var"], "piece": spec["elt"], "spec": spec,
                          "separated": not (isinstance(A.call_recv(jc), ast.Constant) and A.call_recv(jc).value in (b"", ""))})
    return found[0] if len(found) == 1 else None


def _joined(fa, expr, at):
    """(join call, collection spec) when `expr` is, through temporaries and .encode(), `<sep>.join(<a collection built from one iteration>)`."""
    for x in _flow(fa, expr, at).values():
        if isinstance(x, ast.Call) and A.call_attr(x) == "join" and len(x.args) == 1 and A.call_recv(x) is not None:
            st = fa.stmt_of(x)
            nodes = fa.nodes(st) if st is not None else []
            spec = _collection_spec(fa, x.args[0], nodes[0] if nodes else at)
            if spec is not None:
                return (x, spec)
    return None


def _every_iteration_passes(fa, head, nodes):
    """Does every iteration of the loop headed by CFG node `head` execute one of `nodes` (before it comes back to the head
    or leaves the loop in any way but an exception)?"""
    starts = [d for (d, l) in fa.cfg.succ[head] if l == "T"]
    nodes = set(nodes)
    if not nodes or not starts:
        return False
    left = {d for (d, l) in fa.cfg.succ[head] if l != "T" and l != "exc"}
    r = fa.cfg.reach(starts, removed=nodes, edge_ok=lambda s_, d_, l_: l_ != "exc")
    body = fa.cfg.reach(starts, removed={head}, edge_ok=lambda s_, d_, l_: l_ != "exc")
    return head not in r and fa.cfg.exit not in r and not (r & left) and bool(nodes & body)


def _copied_params(fa, expr, at, _seen=None):
    """Parameters whose value can reach `expr` by plain copying (names, conditional expressions,
    `or` / `and`), i.e. without passing through a call."""
    seen = _seen if _seen is not None else set()
    out = set()
    if isinstance(expr, ast.IfExp):
        return _copied_params(fa, expr.body, at, seen) | _copied_params(fa, expr.orelse, at, seen)
    if isinstance(expr, ast.BoolOp):
        for v in expr.values:
            out |= _copied_params(fa, v, at, seen)
        return out
    if isinstance(expr, ast.Name):
        for d in fa.df.reaching(at, expr.id):
            if (d.node, d.name) in seen:
                continue
            seen.add((d.node, d.name))
            if d.value is None:
                if expr.id in fa.fi.params:
                    out.add(expr.id)
            else:
                out |= _copied_params(fa, d.value, d.node, seen)
    return out


def check_digest_consumes_rules(ck, R):
    ck.rule(R, "the version digest consumes every collected rule: the iterated collection is the set filled by the "
               "traversal, filtered only by `hash is None`; the returned version is that digest", 4)
    fa = FA(ck, MF + "._recompute_version")
    coll = fa.one([c for c in fa.calls("collect_transitive_dependencies")], "collect_transitive_dependencies call")
    res = _call_arg(ck, coll, CH + ".MementoFunctionHashRule.collect_transitive_dependencies", "result")
    ck.need(isinstance(res, ast.Name), "_recompute_version: result= is not a local set")
    loops = [n for n in fa.cfg.nodes if n.kind == "for" and any(A.call_attr(c) == "compute_hash" for c in A.calls_in(n.ast))]
    lp = fa.one(loops, "loop over hash rules")
    feed = _digest_feed(fa)
    ck.need(feed is not None, "_recompute_version: expected one place that feeds the rule hashes to the digest (a loop updating a hasher, or a hasher over a join of the pieces)")

    def all_sorted(it, at):
        """is the iterated collection exactly the result set, sorted (sorted(<set>), or a list copy of it sorted in place;
        through aliases / self._hash_rules)?"""
        r_ = _sorted_source(fa, it, at)
        if r_ is None:
            return False
        (_call, src, src_at) = r_
        if not isinstance(src, ast.Name):
            return False
        if src.id == res.id:
            return True
        ds = fa.df.reaching(src_at, src.id)
        return len(ds) == 1 and ds[0].value is not None and A.norm(ds[0].value) == res.id

    ok = all_sorted(lp.ast.iter, lp.id) and all_sorted(feed["iter"], feed["iter_at"])
    ck.ob(R, fa.key(lp.ast, "all-rules"), ok, "the digest loop iterates sorted(<all collected rules>)" if ok else
          "the digest loop does not iterate exactly the collected rule set (filtered, truncated or another collection)", fa.where(lp.ast))
    # the hash of a rule: compute_hash() itself, or a field of the rule that the (unconditional, never abandoned) loop
    # over all rules assigns from compute_hash()
    lv = lp.ast.target.id if isinstance(lp.ast.target, ast.Name) else None
    same_loop = feed["kind"] == "loop" and feed["site"] is lp.ast
    hash_attrs = set()
    for s_ in A.walk_local(lp.ast):
        if isinstance(s_, ast.Assign) and "call:compute_hash" in fa.deps(s_.value):
            for t in s_.targets:
                if isinstance(t, ast.Attribute) and isinstance(t.value, ast.Name) and t.value.id == lv:
                    if same_loop or _every_iteration_passes(fa, lp.id, fa.nodes(s_)):
                        hash_attrs.add(t.attr)
    fv = feed["var"]
    piece = feed["piece"]

    def is_hash(e):
        try:
            e = fa.expand(e, fa.nodes(e)[0]) if fa.nodes(e) else e   # a temporary (walrus, alias) that holds the rule's hash field
        except AnalysisError:
            pass
        return (same_loop and "call:compute_hash" in fa.deps(piece)) or any(isinstance(x, ast.Call) and A.call_attr(x) == "compute_hash" and A.norm(A.call_recv(x)) == fv for x in ast.walk(e)) \
            or any(isinstance(x, ast.Attribute) and x.attr in hash_attrs and isinstance(x.value, ast.Name) and x.value.id == fv for x in ast.walk(e))

    okh = True
    if feed["kind"] == "loop":
        fl = feed["site"]
        ups = [c for c in A.calls_in(fl) if A.call_attr(c) == "update"]
        okh = len(ups) == 1 and (same_loop or fa.cfg.must_pass([lp.id], feed["iter_at"]))
        if okh:
            # texts of `<the rule's hash> is None` as FA.conditions spells it (locals expanded)
            none_lits = {"%s.%s is None" % (fv, f_) for f_ in hash_attrs}
            for c_ in [c_ for c_ in A.calls_in(fl) if A.call_attr(c_) == "compute_hash"]:
                none_lits.add(fa.xnorm(c_, fa.nodes(c_)[0]) + " is None")
            # decided on PATH CONDITIONS: the update is reached exactly when the hash is not None (whether written
            # as `if h is not None: update`, `if h is None: continue`, or nested), and an iteration is abandoned
            # early only when the hash is None; the loop is never left early
            cu = _conditions(fa, ups[0])
            okh = cu is not None and len(cu) == 1 and len(next(iter(cu))) == 1 and all(_no_walrus(l[0]) in none_lits and l[1] is False for l in next(iter(cu)))
            for s_ in A.walk_local(fl):
                if isinstance(s_, (ast.Break, ast.Return)):
                    okh = False
                if isinstance(s_, ast.Continue):
                    cc = _conditions(fa, s_)
                    okh = okh and cc is not None and all(any(_no_walrus(l[0]) in none_lits and l[1] is True for l in conj) for conj in cc)
    else:
        # the pieces are collected (comprehension / filling loop) and digested at once: the only filter is `hash is None`,
        # and the collection is made after every rule was given its hash
        want = [{("_c0.%s is None" % f_, False)} for f_ in hash_attrs] + [{("_c0.compute_hash() is None", False)}]
        okh = _spec_literals(fa, feed["spec"]) in want and fa.cfg.must_pass([lp.id], feed["iter_at"])
    okh = okh and is_hash(piece)
    ck.ob(R, fa.key(lp.ast, "only-none-filter"), okh, "every non-None rule hash updates the digest" if okh else
          "a rule's hash can be skipped for a reason other than being None (or the digest is fed something else)", fa.where(lp.ast))
    # the fold is injective: pieces are concatenated into one digest, so either every piece has a
    # fixed width, or a delimiter / length goes in with each piece.  A piece that is a caller-chosen
    # string (an explicit version, a supplied code hash) has no fixed width.
    ups = [feed["stmt"]]
    if True:
        delimited = any(isinstance(x, ast.BinOp) for x in ast.walk(piece)) or "format" in A.norm(piece) \
            or isinstance(piece, ast.JoinedStr) or any(isinstance(x, ast.JoinedStr) for x in ast.walk(piece)) or feed.get("separated", False)
        init = FA(ck, MF + ".__init__")
        free = []
        for cls in ck.repo.subclasses(ck.repo.cls(CH + ".HashRule")):
            cf = ck.repo.try_func(cls.qual + ".compute_hash")
            if cf is None:
                continue
            cfa = FA(ck, cf)
            for r in [r_ for r_ in cfa.returns() if r_.value is not None and cfa.nodes(r_)]:
                # attributes of the tracked function that can be returned (through temporaries or not)
                for at in [x for x in _flow(cfa, r.value).values() if isinstance(x, ast.Attribute) and A.norm(x.value).endswith("memento_fn")]:
                    asg = [st for st in init.stmts(ast.Assign) if any(A.norm(t) == "self." + at.attr for t in st.targets)]
                    for st in asg:
                        ps = sorted(_copied_params(init, st.value, init.nodes(st)[0]))
                        if ps and at.attr not in [f[0] for f in free]:
                            free.append((at.attr, ps, cls.name, st.lineno))
        # canonical order: the order in which the constructor assigns the fields
        free.sort(key=lambda f: f[3])
        okf = delimited or not free
        ck.ob(R, fa.key(None, "fold-injective:" + ",".join(f[0] for f in free)), okf,
              "rule hashes are folded with a delimiter" if delimited else "every folded piece has a fixed width" if okf else
              "rule hashes are concatenated into the digest with nothing between them, and %s are caller-chosen strings of any length: "
              "moving a character between the explicit versions of two dependencies ('1','23' -> '12','3') leaves the caller's version "
              "unchanged, so it serves a result computed by the earlier edition"
              % ", ".join("%s.compute_hash's memento_fn.%s (constructor %s)" % (f[2], f[0], "/".join(f[1])) for f in free), fa.where(ups[0]))
    rets = fa.returns()
    okr = len(rets) == 1 and "call:hexdigest" in fa.deps(rets[0].value) and "call:sha256" in fa.deps(rets[0].value)
    ck.ob(R, fa.key(None, "returns-digest"), okr, "the version is the digest" if okr else "the returned version does not derive from the digest", fa.where())
    root = fa.one(fa.calls("MementoFunctionHashRule"), "self rule")
    MRI = CH + ".MementoFunctionHashRule.__init__"
    CTD = CH + ".MementoFunctionHashRule.collect_transitive_dependencies"
    okroot = A.norm(_call_arg(ck, root, MRI, "obj")) == "self" and A.norm(_call_arg(ck, root, MRI, "first_level")) == "True" and A.norm(_call_arg(ck, coll, CTD, "root_fn")) == "self"
    ck.ob(R, fa.key(root, "self-rule-root"), okroot, "the traversal starts at the function's own rule" if okroot else
          "the traversal does not start from the function's own rule (obj=self, first_level=True, root_fn=self)", fa.where(root))


def check_recompute_from_scratch(ck, R):
    """A recomputation of the version is a computation FROM SCRATCH: what is digested for a rule is the value that rule's
    compute_hash() returns in this very recomputation, on every path.  A value remembered from an earlier evaluation (a
    table shared between functions, the rule's own field as it was) is only as fresh as whatever invalidates it; the
    generation counter does not: it advances when a scan notices a change, not when the change happens."""
    ck.rule(R, "a recomputation is from scratch: the hash digested for a rule is what its compute_hash() returns in this very "
               "recomputation, on every path", 1)
    fa = FA(ck, MF + "._recompute_version")
    feed = _digest_feed(fa)
    ck.need(feed is not None, "_recompute_version: expected one place that feeds the rule hashes to the digest (a loop updating a hasher, or a hasher over a join of the pieces)")
    fv, piece = feed["var"], feed["piece"]
    feed_nodes = fa.nodes(piece) or [feed["iter_at"]]
    loops = [n for n in fa.cfg.nodes if n.kind == "for" and isinstance(n.ast.target, ast.Name) and n.id in fa.cfg.reachable_nodes()]
    loop_vars = {n.ast.target.id for n in loops}

    def computed_now(e):
        """does the value of `e` come from <rule>.compute_hash() of a rule the function is iterating over?"""
        return any(isinstance(x, ast.Call) and A.call_attr(x) == "compute_hash" and isinstance(A.call_recv(x), ast.Name) and A.call_recv(x).id in loop_vars
                   for x in ast.walk(e))

    def alternatives(e, at, depth=4):
        """_alternatives, with `a or b` / `a and b` giving each operand that can be the result"""
        out = []
        for (x, a_) in _alternatives(fa, e, at):
            if isinstance(x, ast.BoolOp) and depth > 0:
                for v in x.values:
                    out += alternatives(v, a_, depth - 1)
            else:
                out.append((x, a_))
        return out

    def assigned_before(asg_nodes, at, read):
        """is the rule's field assigned in this recomputation before it is read at `at`: earlier in the same iteration when the read
        is in a loop over the rules that assigns it, else by a loop over the same collection that assigns it in every iteration"""
        lp_ = fa.enclosing(read, (ast.For, ast.AsyncFor)) if hasattr(read, "lineno") and fa.pm.get(read) is not None else None
        while lp_ is not None and not (isinstance(lp_.target, ast.Name) and fa.nodes(lp_) and set(asg_nodes) & fa.cfg.reach([fa.nodes(lp_)[0]], removed=(), include_start=False)
                                       and any(fa.inside(fa.cfg.node(i).ast, lp_) for i in asg_nodes)):
            lp_ = fa.enclosing(lp_, (ast.For, ast.AsyncFor))
        if lp_ is not None:
            head = fa.nodes(lp_)[0]
            return fa.cfg.must_pass(asg_nodes, at, start=head, edge_ok=lambda s_, d_, l_, head=head: d_ != head)
        same = [n.id for n in loops if fa.xnorm(n.ast.iter, n.id) == fa.xnorm(feed["iter"], feed["iter_at"])]
        return any(_every_iteration_passes(fa, h_, asg_nodes) and fa.cfg.must_pass([h_], at) for h_ in same)

    stale = []

    def origin(e, at, read, depth=5):
        """follow one thing read for the piece back to where its value was made; records what is not made by compute_hash() now"""
        for (x, a_) in alternatives(e, at):
            if computed_now(x):
                continue
            if isinstance(x, ast.Attribute) and isinstance(x.value, ast.Name) and (x.value.id in loop_vars or x.value.id == fv) and depth > 0:
                asg = [s_ for s_ in fa.stmts(ast.Assign) if fa.nodes(s_) and any(isinstance(t, ast.Attribute) and t.attr == x.attr and isinstance(t.value, ast.Name)
                                                                                 and t.value.id in loop_vars for t in s_.targets)]
                if not asg:
                    stale.append((x, "`%s`, which this recomputation never assigns" % A.norm(x)))
                    continue
                if not assigned_before(fa.nodes_all(asg), a_, x if fa.pm.get(x) is not None else read):
                    stale.append((x, "`%s` as it was before this recomputation (on some path it is read before being assigned)" % A.norm(x)))
                    continue
                for s_ in asg:
                    origin(s_.value, fa.nodes(s_)[0], s_.value, depth - 1)
                continue
            stale.append((x, "`%s`%s" % (A.short(x, 50), (" (= `%s`)" % fa.xnorm(x, a_)[:90]) if fa.xnorm(x, a_) != A.norm(x) else "")))

    n_read = 0
    for x in ast.walk(piece):
        if isinstance(x, ast.Attribute) and isinstance(x.value, ast.Name) and x.value.id == fv and isinstance(x.ctx, ast.Load) \
                and not (isinstance(fa.pm.get(x), ast.Call) and fa.pm.get(x).func is x):
            n_read += 1
            for at in feed_nodes:
                origin(x, at, x)
        elif isinstance(x, ast.Name) and isinstance(x.ctx, ast.Load) and x.id != fv and fa.df.is_local(x.id) and x.id not in fa.fi.params:
            n_read += 1
            for at in feed_nodes:
                origin(x, at, x)
        elif isinstance(x, ast.Call) and A.call_attr(x) == "compute_hash":
            n_read += 1
    ck.need(n_read > 0, "_recompute_version: what is digested for a rule (`%s`) reads neither the rule nor a local" % A.short(piece, 50))
    ok = not stale
    ck.ob(R, fa.key(feed["stmt"], "hash-computed-now"), ok, "every rule's hash is computed in the recomputation that digests it" if ok else
          "_recompute_version can digest for a rule %s instead of what rule.compute_hash() returns now: a value remembered from an earlier evaluation "
          "(per generation, per rule key ...) is stale as soon as a tracked variable is re-bound or a helper redefined - nothing advances the generation "
          "until a scan notices - so a function that recomputes without having scanned adopts the old hash, and its freshly collected rules then "
          "report 'unchanged' for ever" % stale[0][1] if stale else "", fa.where(stale[0][0] if stale and hasattr(stale[0][0], "lineno") else feed["stmt"]))
    check_no_remembered_hash_inputs(ck, R)


_TABLE_WRITERS = {"setdefault", "update", "add", "append", "extend", "insert", "appendleft", "__setitem__"}
_TABLE_READERS = {"get", "pop", "setdefault", "__getitem__"}


def _slice_at(fa, seeds, control_dependence=True, stmts=()):
    """_backward_slice that also remembers WHERE each node is evaluated: {id(node): (node, CFG node or None)}.  The bodies of
    nested functions are not entered; what a called nested function reads from this function is represented by a read of that
    variable at the place where the nested function is defined."""
    out, seen_defs, seen_ctl, seen_fn = {}, set(), set(), set()
    work = list(seeds)
    mutations = {}
    for st in fa.stmts():
        if isinstance(st, (ast.If, ast.While, ast.For, ast.AsyncFor, ast.Try, ast.With, ast.AsyncWith)) or not fa.nodes(st):
            continue
        for x in A.walk_local(st):
            if isinstance(x, ast.Call) and isinstance(x.func, ast.Attribute) and isinstance(x.func.value, ast.Name):
                mutations.setdefault(x.func.value.id, []).append((st, list(x.args) + [k.value for k in x.keywords]))
            if isinstance(x, (ast.Subscript, ast.Attribute)) and isinstance(x.ctx, ast.Store) and getattr(st, "value", None) is not None:
                r_ = x
                while isinstance(r_, (ast.Subscript, ast.Attribute)):
                    r_ = r_.value
                if isinstance(r_, ast.Name) and r_.id != "self":
                    mutations.setdefault(r_.id, []).append((st, [st.value] + ([x.slice] if isinstance(x, ast.Subscript) else [])))

    def control(st):
        if not control_dependence:
            return
        cur = st
        while cur is not None and cur is not fa.node:
            par = fa.pm.get(cur)
            if isinstance(par, (ast.If, ast.While)) and id(par) not in seen_ctl and cur is not par.test:
                seen_ctl.add(id(par))
                for i in fa.nodes(par.test)[:1]:
                    work.append((par.test, i))
            elif isinstance(par, (ast.For, ast.AsyncFor)) and id(par) not in seen_ctl and cur is not par.iter:
                seen_ctl.add(id(par))
                for i in fa.nodes(par)[:1]:
                    work.append((par.iter, i))
            cur = par

    for (e0, at0) in seeds:
        st0 = fa.stmt_of(e0) if fa.pm.get(e0) is not None else None
        if st0 is not None:
            control(st0)
    for st0 in stmts:
        control(st0)
    while work:
        (e, at) = work.pop()
        if e is None:
            continue
        for n in A.walk_local(e):
            out.setdefault(id(n), (n, at))
            if isinstance(n, ast.Name) and isinstance(n.ctx, ast.Load) and at is not None:
                for d in fa.df.reaching(at, n.id):
                    if (d.node, d.name) in seen_defs:
                        continue
                    seen_defs.add((d.node, d.name))
                    if d.value is not None:
                        work.append((d.value, d.node))
                    if d.stmt is not None:
                        control(d.stmt)
                for (st, exprs) in mutations.get(n.id, []) if fa.df.is_local(n.id) else []:
                    if ("mut", id(st), n.id) in seen_defs:
                        continue
                    seen_defs.add(("mut", id(st), n.id))
                    for x in exprs:
                        work.append((x, fa.nodes(st)[0]))
                    control(st)
            if isinstance(n, ast.Call) and isinstance(n.func, ast.Name) and n.func.id in fa.fi.nested and n.func.id not in seen_fn:
                seen_fn.add(n.func.id)
                sub = fa.fi.nested[n.func.id].node
                a_ = sub.args
                own = {x.arg for x in a_.posonlyargs + a_.args + a_.kwonlyargs} | ({a_.vararg.arg} if a_.vararg else set()) | ({a_.kwarg.arg} if a_.kwarg else set())
                own |= {x.id for b_ in sub.body for x in ast.walk(b_) if isinstance(x, ast.Name) and isinstance(x.ctx, ast.Store)}
                names = sorted({x.id for b_ in sub.body for x in ast.walk(b_) if isinstance(x, ast.Name) and isinstance(x.ctx, ast.Load) and x.id not in own and fa.df.is_local(x.id)})
                for nm in names:
                    for i in fa.nodes(sub)[:1]:
                        work.append((ast.copy_location(ast.Name(id=nm, ctx=ast.Load()), sub), i))
                control(sub)
    return out


def _shared_tables(mod):
    """Module-level names and class-level attributes of `mod` that functions of the module write into (subscript store, adding
    method, `global` re-binding): {designator text ('T' / 'Class.T'): [(FuncInfo, statement or call, key, value)]}.  Tables that are only filled
    while the module is imported (strategy lists) are constants as far as a running program is concerned."""
    class_names = set(mod.classes)
    out = {}

    def designator(fi, e):
        if isinstance(e, ast.Name) and e.id in mod.assigns:
            cur = fi
            while cur is not None:
                a_ = cur.node.args
                if e.id in cur.params or any(isinstance(x, ast.Name) and isinstance(x.ctx, ast.Store) and x.id == e.id for x in A.walk_body(cur.node)) \
                        and not any(isinstance(x, ast.Global) and e.id in x.names for x in A.walk_body(cur.node)):
                    return None
                cur = cur.parent
            return e.id
        if isinstance(e, ast.Attribute) and isinstance(e.value, ast.Name):
            if e.value.id in class_names:
                return "%s.%s" % (e.value.id, e.attr)
            if e.value.id == "cls" and fi.cls is not None:
                return "%s.%s" % (fi.cls.name, e.attr)
        return None

    def read_key(fi, e):
        """`T[K]` / `T.get(K ...)` / `T.setdefault(K, ...)` on a shared table -> (table, K)"""
        if isinstance(e, ast.Subscript) and designator(fi, e.value):
            return (designator(fi, e.value), e.slice)
        if isinstance(e, ast.Call) and A.call_attr(e) in _TABLE_READERS and A.call_recv(e) is not None and e.args and designator(fi, A.call_recv(e)):
            return (designator(fi, A.call_recv(e)), e.args[0])
        return None

    def parse(node, outer_key=None):
        """(key, value) of a store statement / writer call; (None, None) when it is not of a form that is understood"""
        k = v = None
        if isinstance(node, (ast.Assign, ast.AnnAssign, ast.AugAssign)):
            tg = next((t for t in (node.targets if isinstance(node, ast.Assign) else [node.target]) if isinstance(t, ast.Subscript)), None)
            if tg is not None and node.value is not None:
                k, v = tg.slice, node.value
        elif isinstance(node, ast.Call) and A.call_attr(node) in ("setdefault", "__setitem__") and len(node.args) == 2:
            k, v = node.args
        if k is not None and outer_key is not None:
            k = ast.copy_location(ast.Tuple(elts=[outer_key, k], ctx=ast.Load()), k)
        return k, v

    for fi in mod.all_funcs():
        # sub-tables: a local that holds an entry of a shared table (`per_code = T.setdefault(code, {})`) - what is stored through
        # it is stored in the table, under the pair of keys
        entry = {}
        for st in A.walk_body(fi.node):
            if isinstance(st, ast.Assign) and len(st.targets) == 1 and isinstance(st.targets[0], ast.Name) and read_key(fi, st.value):
                entry[st.targets[0].id] = read_key(fi, st.value)
        for st in A.walk_body(fi.node):
            if not isinstance(st, ast.stmt):
                continue
            if isinstance(st, (ast.Assign, ast.AugAssign, ast.AnnAssign)):
                tgs = st.targets if isinstance(st, ast.Assign) else [st.target]
                for t in tgs:
                    if isinstance(t, ast.Subscript):
                        d = designator(fi, t.value)
                        if d:
                            out.setdefault(d, []).append((fi, st) + parse(st))
                        elif isinstance(t.value, ast.Name) and t.value.id in entry:
                            out.setdefault(entry[t.value.id][0], []).append((fi, st) + parse(st, entry[t.value.id][1]))
                    elif isinstance(t, ast.Name) and any(isinstance(x, ast.Global) and t.id in x.names for x in A.walk_body(fi.node)) and t.id in mod.assigns:
                        out.setdefault(t.id, []).append((fi, st, None, None))
            if isinstance(st, (ast.Expr, ast.Assign, ast.AnnAssign, ast.AugAssign, ast.Return)):
                for c in A.walk_local(st):
                    if isinstance(c, ast.Call) and A.call_attr(c) in _TABLE_WRITERS and A.call_recv(c) is not None:
                        d = designator(fi, A.call_recv(c))
                        if d:
                            out.setdefault(d, []).append((fi, c) + parse(c))
                        elif isinstance(A.call_recv(c), ast.Name) and A.call_recv(c).id in entry:
                            out.setdefault(entry[A.call_recv(c).id][0], []).append((fi, c) + parse(c, entry[A.call_recv(c).id][1]))
    return out, designator


def _table_reads(fa, expr, at, designator, tables):
    """Reads of a shared table that the value of `expr` is copied from: [(table, key expression or None, the read, CFG node)]"""
    got = []
    for (n, a_) in _slice_at(fa, [(expr, at)], control_dependence=False).values():
        if isinstance(n, ast.Subscript) and isinstance(n.ctx, ast.Load):
            d = designator(fa.fi, n.value)
            if d in tables:
                got.append((d, n.slice, n, a_))
        elif isinstance(n, ast.Call) and A.call_recv(n) is not None and A.call_attr(n) in _TABLE_READERS:
            d = designator(fa.fi, A.call_recv(n))
            if d in tables:
                got.append((d, n.args[0] if n.args else None, n, a_))
    # a table handed on as a whole (`for v in T.values()`, `dict(T)`)
    for (n, a_) in _slice_at(fa, [(expr, at)], control_dependence=False).values():
        if isinstance(n, (ast.Name, ast.Attribute)) and isinstance(getattr(n, "ctx", None), ast.Load) and designator(fa.fi, n) in tables:
            par = fa.pm.get(n)
            if not ((isinstance(par, ast.Subscript) and par.value is n) or (isinstance(par, ast.Attribute) and par.value is n and isinstance(fa.pm.get(par), ast.Call)
                                                                            and fa.pm.get(par).func is par and par.attr in _TABLE_READERS)):
                got.append((designator(fa.fi, n), None, n, a_))
    return got


def _access(n):
    """`X.a` / getattr(X, 'a'[, d]) / hasattr(X, 'a') with X a plain name -> (X, 'a'), else None"""
    if isinstance(n, ast.Attribute) and isinstance(n.ctx, ast.Load) and isinstance(n.value, ast.Name):
        return (n.value, n.attr)
    if isinstance(n, ast.Call) and isinstance(n.func, ast.Name) and n.func.id in ("getattr", "hasattr") and len(n.args) >= 2 and isinstance(n.args[0], ast.Name) and A.const_str(n.args[1]):
        return (n.args[0], A.const_str(n.args[1]))
    return None


def _uncovered_inputs(fa, value, key, at, anchor=None):
    """What the value stored in a memo table depends on that the key it is stored under does not determine: reads of the function's
    parameters (whole, or one attribute of them; followed through local copies) in the backward slice of `value` (data and control)
    that are neither the very reads the key is computed from, nor reads of the same thing of the same variable, nor reads of an
    object the key contains as a whole.  [(description, node)]"""
    st_ = [x for x in [fa.stmt_of(anchor) if anchor is not None and not isinstance(anchor, ast.stmt) else anchor] if x is not None]
    sv = _slice_at(fa, [(value, at)], control_dependence=True, stmts=st_)
    sk = _slice_at(fa, [(key, at)], control_dependence=True, stmts=st_)
    skd = _slice_at(fa, [(key, at)], control_dependence=False)
    pm = fa.pm

    def is_subject(nm):
        par = pm.get(nm)
        if isinstance(par, ast.Attribute) and par.value is nm:
            return True
        return isinstance(par, ast.Call) and isinstance(par.func, ast.Name) and par.func.id in ("getattr", "hasattr", "isinstance", "callable", "type", "id") and par.args and par.args[0] is nm

    whole_in_key = [(n, a_) for (n, a_) in skd.values() if isinstance(n, ast.Name) and isinstance(n.ctx, ast.Load) and a_ is not None and (pm.get(n) is None or not is_subject(n))]
    key_reads = [(n, a_) for (n, a_) in sk.values() if a_ is not None and (_access(n) is not None or isinstance(n, ast.Name))]

    def same_var(name, a1, a2):
        if not fa.df.is_local(name):
            return True   # a variable of an enclosing function / a global: one binding as far as this function can tell
        return a1 is not None and a2 is not None and fa.df.same_defs(name, a1, a2)

    busy = set()

    def name_covered(name, a_):
        """the object held by `name` at `a_` is determined by the key: the key contains it as a whole, or it is a local copy / a part of covered things"""
        if any(m.id == name and same_var(name, am, a_) for (m, am) in whole_in_key):
            return True
        if not fa.df.is_local(name) or a_ is None:
            return False
        ds = fa.df.reaching(a_, name)
        if not ds or any(d.kind == "param" for d in ds):
            return False
        for d in ds:
            if (d.node, d.name) in busy or d.value is None:
                continue
            busy.add((d.node, d.name))
            try:
                if not expr_covered(d.value, d.node):
                    return False
            finally:
                busy.discard((d.node, d.name))
        return True

    def read_covered(n, a_):
        if id(n) in sk:
            return True
        acc = _access(n)
        if acc is not None:
            subj, attr = acc
            if any(_access(m) is not None and _access(m)[1] == attr and _access(m)[0].id == subj.id and same_var(subj.id, am, a_) for (m, am) in key_reads):
                return True
            return name_covered(subj.id, a_)
        return name_covered(n.id, a_)

    def expr_covered(e, a_):
        done = set()
        for x in A.walk_local(e):
            acc = _access(x)
            if acc is not None and (fa.df.is_local(acc[0].id)):
                done.add(id(acc[0]))
                if not read_covered(x, a_):
                    return False
        for x in A.walk_local(e):
            if isinstance(x, ast.Name) and isinstance(x.ctx, ast.Load) and id(x) not in done and fa.df.is_local(x.id) and not read_covered(x, a_):
                return False
        return True

    def param_like(name, a_):
        """does `name` hold (on some path) what the caller handed in - a parameter of this function or a variable of an enclosing one?"""
        if not fa.df.is_local(name):
            cur = fa.fi.parent
            while cur is not None:
                if name in cur.params or any(isinstance(x, ast.Name) and isinstance(x.ctx, ast.Store) and x.id == name for x in A.walk_body(cur.node)):
                    return True
                cur = cur.parent
            return False
        return a_ is not None and any(d.kind == "param" for d in fa.df.reaching(a_, name))

    bad = []
    subjects = set()
    # state of the object the method belongs to: `self.a.b` read for the value is determined by the key when the key contains
    # `self`, `self.a` or `self.a.b` itself
    key_chains = {A.dotted(m) for (m, _am) in skd.values() if isinstance(m, ast.Attribute) and A.dotted(m) and not (isinstance(pm.get(m), ast.Attribute) and pm.get(m).value is m)}
    key_self = any(m.id == "self" for (m, _am) in whole_in_key)
    for (n, a_) in sv.values():
        if isinstance(n, ast.Attribute) and isinstance(n.ctx, ast.Load) and (A.dotted(n) or "").startswith("self.") and "self" in fa.fi.params:
            par = pm.get(n)
            if (isinstance(par, ast.Attribute) and par.value is n) or (isinstance(par, ast.Call) and par.func is n):
                continue
            chain = A.dotted(n)
            parts = chain.split(".")
            if id(n) in sk or key_self or any(".".join(parts[:k_]) in key_chains for k_ in range(2, len(parts) + 1)):
                continue
            bad.append(("`%s`" % chain, n))
    for (n, a_) in sv.values():
        acc = _access(n)
        if acc is not None:
            subjects.add(id(acc[0]))
            root = acc[0].id
            if root in ("self", "cls") or not (fa.df.is_local(root) or param_like(root, a_)):
                continue
            if not read_covered(n, a_):
                bad.append(("`%s` of `%s`" % (acc[1], root), n))
    for (n, a_) in sv.values():
        if isinstance(n, ast.Name) and isinstance(n.ctx, ast.Load) and id(n) not in subjects and n.id not in ("self", "cls") and param_like(n.id, a_):
            par = pm.get(n)
            if par is not None and is_subject(n):
                continue   # only its kind is looked at
            if not read_covered(n, a_):
                bad.append(("`%s`%s" % (n.id, (" (handed to `%s`)" % A.short(par.func, 30)) if isinstance(par, ast.Call) and n in par.args else ""), n))
    return bad


def check_no_remembered_hash_inputs(ck, R):
    """Second half of "from scratch": the functions that turn the program into hashes and rule sets (the whole of code_hash.py)
    answer from what they are GIVEN.  Where one of them returns a value remembered in a table shared between calls, the key the
    value was stored under has to determine everything the value was computed from - otherwise another function (equal code,
    other defaults / captured values; same name, re-defined) is answered with its predecessor's value, in this process only."""
    mod = ck.repo.module(CH)
    tables, designator = _shared_tables(mod)
    n_ob = 0
    for fi in sorted(mod.all_funcs(), key=lambda f: f.qual):
        if not any(isinstance(x, (ast.Name, ast.Attribute)) and designator(fi, x) in tables for x in A.walk_body(fi.node)):
            continue
        # (memo tables are commonly read under `try: ... except KeyError`: decided on the CFG where a subscript may raise)
        fa = FA(ck, fi, exc_mode="all")
        reads = []
        for r in fa.returns():
            if r.value is not None and fa.nodes(r):
                reads += _table_reads(fa, r.value, fa.nodes(r)[0], designator, tables)
        for t in sorted({t for (t, _k, _n, _a) in reads}):
            first = next(x for x in reads if x[0] == t)
            stores = []
            for (gfi, st, k_, v_) in tables[t]:
                g = fa if gfi is fi else FA(ck, gfi, exc_mode="all")
                if not g.nodes(st):
                    continue
                if k_ is None:
                    raise AnalysisError("%s: `%s` writes the shared table `%s`, which %s answers from, in a way that is not understood (expected "
                                        "`table[key] = value` / `table.setdefault(key, value)`)" % (gfi.qual, A.short(st, 60), t, fi.name))
                stores.append((g, st, k_, v_))
            n_ob += 1
            if first[1] is None:
                ck.ob(R, fa.key(None, "remembered:" + t), False, "%s hands on the shared table `%s` as a whole: values computed for other arguments (and for earlier "
                      "editions of the program) come with it" % (fi.name, t), fa.where(first[2]))
                continue
            bad = []
            for (g, st, k, v) in stores:
                for (what, n) in _uncovered_inputs(g, v, k, g.nodes(st)[0], st):
                    bad.append((g, st, k, what, n))
            ok = not bad
            ck.ob(R, fa.key(None, "remembered:" + t), ok,
                  "what %s answers from `%s` is stored under a key that determines everything it was computed from" % (fi.name, t) if ok else
                  "%s can answer with a value remembered in `%s`, and `%s` stores it under the key `%s`, which does not determine %s that the value is computed from: "
                  "another function with an equal key (closures of one factory share their code object; a re-executed definition that only changes a default value) is "
                  "answered with the hash of its predecessor - did_change fires and the version is recomputed, but to the old value, while a fresh process computes "
                  "the new one" % (fi.name, t, bad[0][0].fi.name, A.short(bad[0][2], 50), ", ".join(dict.fromkeys(b[3] for b in bad[:4]))) if bad else "",
                  fa.where(first[2]))
    return n_ob


# --------------------------------------------------------------------------------- C01.R4
def _set_additions(fa, res):
    """Every place where elements are added to the set held by parameter / local `res`: [(AST node of the addition, [element
    expressions] or None when the elements cannot be listed)] - `res.add(x)`, `res.update([x, y])` / `res.update({x})`,
    `res |= {x}` alike."""
    out = []
    for c in fa.calls():
        if A.norm(A.call_recv(c)) != res:
            continue
        if A.call_attr(c) == "add" and len(c.args) == 1:
            out.append((c, [c.args[0]]))
        elif A.call_attr(c) == "update":
            elts = []
            for a_ in c.args:
                if isinstance(a_, (ast.List, ast.Set, ast.Tuple)) and not any(isinstance(x, ast.Starred) for x in a_.elts):
                    elts += a_.elts
                else:
                    elts = None
                    break
            out.append((c, elts))
    for st in fa.stmts(ast.AugAssign):
        if isinstance(st.target, ast.Name) and st.target.id == res and isinstance(st.op, ast.BitOr):
            v = st.value
            out.append((st, list(v.elts) if isinstance(v, (ast.Set, ast.List, ast.Tuple)) and not any(isinstance(x, ast.Starred) for x in v.elts) else None))
    return out


def _orderless(e):
    """`e` without the wrappers that only fix an order or make a copy (sorted / list / tuple / set / frozenset / reversed / iter
    of one collection): the same elements are iterated"""
    while isinstance(e, ast.Call) and isinstance(e.func, ast.Name) and e.func.id in ("sorted", "list", "tuple", "set", "frozenset", "reversed", "iter") \
            and len(e.args) == 1 and not isinstance(e.args[0], ast.Starred):
        e = e.args[0]
    return e


def check_descent_complete(ck, R):
    ck.rule(R, "transitive descent is complete: memento rules visit required and detected dependencies, plain-function "
               "rules every dotted name; every resolved rule is descended into; the only pruning is 'already collected', "
               "the blacklist, and package scope for plain functions", 8)
    VD = CH + ".HashRule._visit_dependency"
    m = FA(ck, CH + ".MementoFunctionHashRule.collect_transitive_dependencies")
    lnode = {id(x.ast): x.id for x in m.cfg.nodes if x.kind == "for"}

    def visits(fx):
        """(call, innermost loop, what that loop may iterate) for every _visit_dependency call whose symbol= is the loop variable."""
        ln = {id(x.ast): x.id for x in fx.cfg.nodes if x.kind == "for"}
        out = []
        for c in fx.calls("_visit_dependency"):
            l = fx.enclosing(c, (ast.For, ast.AsyncFor))
            sym = _call_arg(ck, c, VD, "symbol")
            if l is None or id(l) not in ln or sym is None or not isinstance(l.target, ast.Name) or A.norm(sym) != l.target.id:
                out.append((c, l, set()))
                continue
            srcs = set()
            for (e_, a_) in _alternatives(fx, _orderless(l.iter), ln[id(l)]):
                srcs.add(fx.xnorm(_orderless(e_), a_))
            out.append((c, l, srcs))
        return out

    mv = visits(m)
    del lnode
    for need in ("self.memento_fn.required_dependencies", "self.memento_fn.detected_dependencies"):
        ok = any(need in srcs for (c, l, srcs) in mv)
        ck.ob(R, m.key(None, need.split(".")[2]), ok, "%s are visited" % need.split(".")[2] if ok else
              "a memento rule no longer visits %s: changes beneath them do not change the version" % need.split(".")[2], m.where())
    for (c, l, srcs) in mv:
        at_ = m.nodes(c)[0]
        a_res, a_src, a_fl = _call_arg(ck, c, VD, "result"), _call_arg(ck, c, VD, "src_fn"), _call_arg(ck, c, VD, "first_level")
        okv = bool(srcs) and a_res is not None and A.norm(a_res) == "result" \
            and a_src is not None and m.xnorm(a_src, at_) == "self.memento_fn.src_fn" \
            and a_fl is not None and m.xnorm(a_fl, at_) in ("self.memento_fn is root_fn", "root_fn is self.memento_fn")
        for src in sorted(srcs) or ["?"]:
            ck.ob(R, m.key(None, "visit-args:" + src.split(".")[-1]), okv, "each dependency symbol is resolved in the function's own globals, first_level iff root" if okv else
                  "_visit_dependency is not called with (result, src_fn=memento_fn.src_fn, symbol=<dep>, first_level=memento_fn is root_fn)", m.where(c))
    # pruning of memento rules: only `self in result`.  Decided on PATH CONDITIONS: the rule joins the set, and
    # every dependency is visited, exactly when the rule was not collected before (guard clause, nesting and
    # merged tests alike); the visiting loops are never left early
    adds = [c for (c, el) in _set_additions(m, "result") if el is not None and [A.norm(a) for a in el] == ["self"]]
    want_m = {("self in result", False)}
    okp = bool(adds) and all(_single_conj(_conditions(m, c)) == want_m for c in adds + [c for (c, l, s_) in mv])
    okp = okp and not any(isinstance(x, (ast.Break, ast.Return, ast.Continue)) for (c, l, s_) in mv if l is not None
                          for lo in [l] + [p_ for p_ in m.stmts((ast.For, ast.While)) if m.inside(l, p_)] for x in A.walk_local(lo))
    ck.ob(R, m.key(None, "pruning"), okp, "memento rules are pruned only when already collected (never by package)" if okp else
          "a memento rule can be dropped for a reason other than 'already collected': cross-package memento dependencies stop versioning", m.where())
    n = FA(ck, CH + ".NonMementoFunctionHashRule.collect_transitive_dependencies")
    nv = visits(n)
    okn = len(nv) == 1 and nv[0][2] == {"list_dotted_names(self.src_fn)"}
    ck.ob(R, n.key(None, "dotted-names"), okn, "plain functions are descended through every dotted name of their source" if okn else
          "a plain-function rule no longer visits list_dotted_names(src_fn)", n.where())
    nadds = [c for (c, el) in _set_additions(n, "result") if el is not None and [A.norm(a) for a in el] == ["self"]]
    seen_lits = set()
    okt = True
    for c in nadds + [c for (c, l, s_) in nv]:
        lits = _single_conj(_conditions(n, c))
        if lits is None:
            okt = False
            seen_lits.add("<several path classes>")
            continue
        seen_lits |= {("" if pol else "not ") + "(" + txt + ")" for (txt, pol) in lits}
        scope = {l_ for l_ in lits if l_[1] is True and l_[0].endswith("getmodule(self.src_fn).__package__ in package_scope")}
        okt = okt and ("self in result", False) in lits and not (lits - {("self in result", False)} - scope)
    okt = okt and bool(nadds)
    ck.ob(R, n.key(None, "pruning"), okt, "plain functions are pruned only when collected already or outside the package scope" if okt else
          "plain-function pruning conditions changed: %s" % sorted(seen_lits), n.where())
    okadd = bool(nadds)
    ck.ob(R, n.key(None, "adds-self"), okadd, "the plain-function rule joins the rule set" if okadd else "the plain-function rule no longer adds itself", n.where())
    g = FA(ck, CH + ".GlobalVariableHashRule.collect_transitive_dependencies")
    gres = g.fi.params[1] if len(g.fi.params) > 1 else "result"
    gadds = [c for (c, el) in _set_additions(g, gres) if el is not None and "self" in [A.norm(a) for a in el]]
    # on every path to the normal exit the rule has joined the set
    okg = bool(gadds) and g.cfg.path(g.cfg.entry, g.cfg.exit, removed=set(g.nodes_all(gadds)), edge_ok=lambda s_, d_, l_: l_ != "exc") is None
    ck.ob(R, g.key(None, "adds-self"), okg, "variable rules always join the rule set" if okg else "a variable rule can be left out of the rule set", g.where())
    # the traversal's parameters other than the accumulator are read-only (mutating the shared
    # scope / blacklist makes the rule set depend on the visiting order of a set)
    for q in [c.qual + ".collect_transitive_dependencies" for c in hash_rule_classes(ck)] + [fx_.fi for fx_ in _visit_unit(ck)]:
        f = ck.repo.try_func(q) if isinstance(q, str) else q
        if f is None:
            continue
        fx = FA(ck, f)
        bad = [c for c in fx.calls() if isinstance(c.func, ast.Attribute) and isinstance(c.func.value, ast.Name)
               and c.func.value.id in ("package_scope", "blacklist", "root_fn") and c.func.attr in ("add", "update", "append", "remove", "discard", "extend", "clear", "pop", "insert")]
        bad += [s_ for s_ in fx.stmts((ast.AugAssign,)) if isinstance(s_.target, ast.Name) and s_.target.id in ("package_scope", "blacklist")]
        ck.ob(R, fx.key(None, "params-read-only"), not bad, "scope and blacklist are only read" if not bad else
              "`%s` mutates a traversal parameter shared by the whole descent: whether a helper gets a rule then depends on whether it is "
              "visited before or after (set iteration order, i.e. the hash seed)" % A.short(bad[0], 60), fx.where(bad[0] if bad else None))
    # _visit_dependency (with the helpers it may have been split into): every resolved rule is descended into
    # before returning.  A helper may instead hand the rule back to its caller, which then has to descend.
    unit = _visit_unit(ck)
    v = unit[0]
    helper_names = {fx.fi.name for fx in unit[1:]}
    # the function that offers a symbol to the rule strategies, found by WHAT IT DOES (it calls try_resolve): the function nested in
    # _visit_dependency, or a method of the class that _visit_dependency was split into (the blacklist is then one of its parameters)
    def _calls_try_resolve(fi_):
        return any(A.call_attr(c) == "try_resolve" for c in A.body_calls(fi_.node))

    rs = None
    for fx in unit:
        rs = rs or fx.fi.nested.get("resolve_symbol")
    rs_by_name = rs is not None
    if rs is None:
        cands = [n_ for fx in unit for n_ in fx.fi.nested.values() if _calls_try_resolve(n_)] + [fx.fi for fx in unit[1:] if _calls_try_resolve(fx.fi)]
        ck.need(len(cands) == 1, "_visit_dependency: expected one function (nested in it, or a method of HashRule it calls) that offers the symbol to the rule "
                                 "strategies (calls try_resolve), found %d" % len(cands))
        rs = cands[0]
    n_tests = 0
    for fx in unit:
        colls = fx.nodes_all(fx.calls("collect_transitive_dependencies"))
        rule_tests = []
        for x in fx.cfg.nodes:
            if x.kind == "test" and isinstance(x.ast, ast.Compare) and len(x.ast.ops) == 1 and isinstance(x.ast.ops[0], (ast.IsNot, ast.Is)) \
                    and A.is_none(x.ast.comparators[0]) and isinstance(x.ast.left, ast.Name) and x.id in fx.cfg.reachable_nodes():
                d_ = fx.df.deps(x.ast.left, x.id)
                if ("call:" + rs.name) in d_ or any(("call:" + h_) in d_ for h_ in helper_names):
                    rule_tests.append(x)
        n_tests += len(rule_tests)
        for t in rule_tests:
            some = "T" if isinstance(t.ast.ops[0], ast.IsNot) else "F"
            starts = [d for (d, l) in fx.cfg.succ[t.id] if l == some]
            handed_back = []
            if fx is not v:
                # `return <the tested rule>`: the caller gets it
                handed_back = [i_ for r_ in fx.returns() if isinstance(r_.value, ast.Name) and r_.value.id == t.ast.left.id
                               for i_ in fx.nodes(r_) if fx.df.same_defs(t.ast.left.id, t.id, i_)]
            live = fx.cfg.reach(starts, removed=set(colls) | set(handed_back))
            ok = fx.cfg.exit not in live
            ck.ob(R, fx.key(t.ast, "descend-before-return"), ok, "a resolved rule is descended into before returning" if ok else
                  "a resolved rule can be dropped without collect_transitive_dependencies: its subtree does not version the caller", fx.where(t.ast))
        # a rule handed back by a helper must be looked at: after the call, the exit is reached only through
        # the descent or through the 'no rule' outcome of a test on the result
        for c in [c for c in fx.calls() if A.call_attr(c) in helper_names]:
            hfa = [h_ for h_ in unit if h_.fi.name == A.call_attr(c)][0]
            if not any(r_.value is not None and not A.is_none(r_.value) for r_ in hfa.returns()):
                continue
            none_edges = {(t.id, "F" if isinstance(t.ast.ops[0], ast.IsNot) else "T") for t in rule_tests}
            live = fx.cfg.reach(fx.nodes(c), removed=colls, edge_ok=lambda s_, d_, l_: (s_, l_) not in none_edges, include_start=False)
            ok = fx.cfg.exit not in live
            ck.ob(R, fx.key(c, "descend-before-return"), ok, "the rule found by %s is descended into" % A.call_attr(c) if ok else
                  "the rule found by %s can be dropped without collect_transitive_dependencies" % A.call_attr(c), fx.where(c))
        for c in fx.calls("collect_transitive_dependencies"):
            okc = A.norm(A.kwarg(c, "result")) == "result" and A.norm(A.kwarg(c, "root_fn")) == "root_fn" and A.norm(A.kwarg(c, "package_scope")) == "package_scope"
            ck.ob(R, fx.key(c, "args"), okc, "the same result set / root / scope are passed down" if okc else
                  "the descent does not pass down (result, root_fn, package_scope)", fx.where(c))
    ck.need(n_tests >= 2, "_visit_dependency: `if rule is not None` sites not found")
    # the function that offers a symbol to the rule strategies, found by WHAT IT DOES (it calls try_resolve): the function nested in
    # _visit_dependency, or a method of the class that _visit_dependency was split into (the blacklist is then one of its parameters)
    BL = "blacklist"
    if not rs_by_name:
        if rs.parent is None:
            # which parameter receives the blacklist: what the call sites in the unit bind the traversal's blacklist to
            got = set()
            for fx in unit:
                for c in fx.calls(rs.name):
                    ps = [p_ for p_ in rs.params if not (p_ in ("self", "cls") and not rs.is_static)]
                    for i_, p_ in enumerate(ps):
                        a_ = A.arg_or_kw(c, i_, p_)
                        if a_ is not None and fx.nodes(c) and fx.xnorm(a_, fx.nodes(c)[0]) == "blacklist":
                            got.add(p_)
            ck.need(len(got) == 1, "%s: the parameter that receives the blacklist could not be determined" % rs.qual)
            BL = next(iter(got))
    rsa = FA(ck, rs)
    # every decision resolve_symbol takes is either "is the object (identically) one of the blacklist" or
    # "did this strategy resolve it": each branch test is classified by what it compares, whatever the loop /
    # any() / result-variable spelling
    tests = []
    params = set(rsa.fi.params)
    for_nodes = {id(x.ast): x.id for x in rsa.cfg.nodes if x.kind == "for"}

    def over_blacklist(name, at):
        """Is `name` a loop variable ranging over the blacklist?"""
        return any(d.kind == "for" and d.value is not None and rsa.xnorm(d.value, d.node) == BL for d in rsa.df.reaching(at, name))

    def classify(t_, at):
        if isinstance(t_, ast.UnaryOp) and isinstance(t_.op, ast.Not):
            return classify(t_.operand, at)
        if isinstance(t_, ast.Compare) and len(t_.ops) == 1 and isinstance(t_.ops[0], (ast.IsNot, ast.Is)) and A.is_none(t_.comparators[0]) \
                and "call:try_resolve" in rsa.df.deps(t_.left, at):
            return "<try_resolve result> is not None"
        if isinstance(t_, ast.Call) and A.norm(t_.func) == "any" and len(t_.args) == 1 and isinstance(t_.args[0], (ast.GeneratorExp, ast.ListComp)) \
                and len(t_.args[0].generators) == 1 and isinstance(t_.args[0].generators[0].target, ast.Name) and not t_.args[0].generators[0].ifs \
                and rsa.xnorm(t_.args[0].generators[0].iter, at) == BL and isinstance(t_.args[0].elt, ast.Compare) and len(t_.args[0].elt.ops) == 1 \
                and isinstance(t_.args[0].elt.ops[0], ast.Is) and {A.norm(t_.args[0].elt.left), A.norm(t_.args[0].elt.comparators[0])} - {t_.args[0].generators[0].target.id} \
                <= params and len({A.norm(t_.args[0].elt.left), A.norm(t_.args[0].elt.comparators[0])}) == 2:
            return "<blacklist identity>"
        if isinstance(t_, ast.Compare) and len(t_.ops) == 1 and isinstance(t_.ops[0], (ast.Is, ast.IsNot)) \
                and isinstance(t_.left, ast.Name) and isinstance(t_.comparators[0], ast.Name):
            a_, b_ = t_.left.id, t_.comparators[0].id
            if (over_blacklist(a_, at) and b_ in params) or (over_blacklist(b_, at) and a_ in params):
                return "<blacklist identity>"
        return A.norm(t_)

    # decided on the PATH CLASSES of resolve_symbol: the literals of the branch tests taken on the way to the exit, result flags
    # (`blacklisted = True ... if not blacklisted`) read as the condition that set them
    rs_paths = _exit_paths(rsa)
    ck.need(rs_paths is not None, "resolve_symbol: too many paths")
    sites = _literal_sites(rsa)
    for text in sorted({t for (_p, lits) in rs_paths for t in lits}):
        (e_, at_) = sites.get(text, (_parse_lit(text), None))
        if e_ is None:
            tests.append(text)
        elif at_ is None:
            # a literal made up on the path: judged by its text alone
            names = {x.id for x in ast.walk(e_) if isinstance(x, ast.Name)}
            loops_bl = {x.ast.target.id for x in rsa.cfg.nodes if x.kind == "for" and isinstance(x.ast.target, ast.Name) and rsa.xnorm(x.ast.iter, x.id) == BL}
            if isinstance(e_, ast.Compare) and len(e_.ops) == 1 and isinstance(e_.ops[0], ast.Is) and A.is_none(e_.comparators[0]) \
                    and any(isinstance(x, ast.Call) and A.call_attr(x) == "try_resolve" for x in ast.walk(e_.left)):
                tests.append("<try_resolve result> is not None")
            elif isinstance(e_, ast.Compare) and len(e_.ops) == 1 and isinstance(e_.ops[0], ast.Is) and len(names) == 2 and names & loops_bl and names & params:
                tests.append("<blacklist identity>")
            else:
                tests.append(text)
        else:
            tests.append(classify(e_, at_))
    okb = set(tests) <= {"<blacklist identity>", "<try_resolve result> is not None"}
    # every strategy is asked: one loop, or one comprehension / generator, over HashRule.all_rules that calls try_resolve
    lp = [x for x in rsa.cfg.nodes if x.kind == "for" and any(rsa.enclosing(c, (ast.For, ast.AsyncFor)) is x.ast for c in rsa.calls("try_resolve"))]
    scans = [(x.ast.iter, x.id) for x in lp]
    for st_ in rsa.stmts():
        for c_ in (A.walk_local(st_) if rsa.nodes(st_) and not isinstance(st_, (ast.If, ast.For, ast.While, ast.Try, ast.With)) else []):
            if isinstance(c_, (ast.GeneratorExp, ast.ListComp)) and len(c_.generators) == 1 and any(isinstance(t, ast.Call) and A.call_attr(t) == "try_resolve" for t in ast.walk(c_)):
                scans.append((c_.generators[0].iter, rsa.nodes(st_)[0]))
    others = [x for x in rsa.cfg.nodes if x.kind == "for" and x not in lp and rsa.xnorm(x.ast.iter, x.id) != BL]
    from_strategy = any(r_.value is not None and rsa.nodes(r_) and "call:try_resolve" in rsa.df.deps(r_.value, rsa.nodes(r_)[0]) for r_ in rsa.returns())
    okb = okb and len(scans) == 1 and rsa.xnorm(scans[0][0], scans[0][1]) == "HashRule.all_rules" and not others and not rsa.stmts(ast.While) and from_strategy
    ck.ob(R, rsa.key(None, "blacklist-by-identity"), okb, "symbols are excluded only by blacklist identity; all rule strategies are tried" if okb else
          "resolve_symbol excludes symbols by something other than blacklist identity, or does not try every strategy: %s" % tests, rsa.where())
    # rule strategies registered
    mod = ck.repo.module(CH)
    reg = None
    for st in mod.tree.body:
        if isinstance(st, ast.Assign) and A.norm(st.targets[0]) == "HashRule.all_rules" and isinstance(st.value, ast.List):
            reg = [A.norm(e) for e in st.value.elts]
    want = {"MementoFunctionHashRule", "NonMementoFunctionHashRule", "GlobalVariableHashRule"}
    okr = reg is not None and set(reg) == want and reg.index("MementoFunctionHashRule") < reg.index("NonMementoFunctionHashRule") < reg.index("GlobalVariableHashRule")
    ck.ob(R, CH + "::all_rules", okr, "strategies registered: memento, plain function, variable (in that order)" if okr else
          "HashRule.all_rules is %s: a kind of dependency is never recognised (or a memento function is taken for a plain one)" % reg, mod.relpath)


# --------------------------------------------------------------------------------- C01.R6
def check_enforcement(ck, R):
    ck.rule(R, "dependency enforcement dominates dispatch: call and call_batch validate the caller's declared closure "
               "before dispatching; the validation can only be skipped without a calling frame or when the caller "
               "declares its version", 5)
    # The two entry points are resolved the way the interpreter resolves them on a MementoFunction (its own method, else
    # the nearest base class's), and followed through `super().<entry>(...)` / `self.<entry>(...)`: wherever the call is
    # handed to the runner machinery (the point from which a STORED result can come back), the validation has
    # been passed on every path - in that function or in one of the overrides that led to it.
    mf_cls = ck.repo.cls(MF)
    mro = ck.repo.mro(mf_cls)
    ENTRIES = ("call", "call_batch")
    RUN = ("memento_run_batch", "memento_run_local", "batch_run")
    for name in ENTRIES:
        seen, bare, n_run = set(), [], [0]

        def walk(start, meth):
            idx = next((i_ for i_ in range(start, len(mro)) if meth in mro[i_].methods), None)
            if idx is None or mro[idx].methods[meth].qual in seen:
                return
            seen.add(mro[idx].methods[meth].qual)
            fx = FA(ck, mro[idx].methods[meth])
            val = fx.nodes_all([c for c in fx.calls("_validate_dependency") if A.norm(A.call_recv(c)) == "self"])
            for c in fx.calls():
                rc, nm = A.call_recv(c), A.call_attr(c)
                if isinstance(rc, ast.Name) and rc.id != "self" and fx.nodes(c):
                    rc = fx.expand(rc, fx.nodes(c)[0])   # `base = super(...)` ... `base.call(...)`
                via_super = nm in ENTRIES and isinstance(rc, ast.Call) and A.call_attr(rc) == "super"
                via_self = nm in ENTRIES and isinstance(rc, ast.Name) and rc.id == "self"
                if not (via_super or via_self or nm in RUN) or not fx.nodes(c):
                    continue
                if val and all(fx.cfg.must_pass(val, i_) for i_ in fx.nodes(c)):
                    n_run[0] += 1
                    continue
                n_run[0] += nm in RUN
                if nm in RUN:
                    bare.append((fx, c))
                else:
                    walk(idx + 1 if via_super else 0, nm)

        walk(0, name)
        entry = ck.repo.find_method(mf_cls, name)
        ck.need(entry is not None and n_run[0] > 0, "MementoFunction.%s: no hand-over to the runner (memento_run_batch) found along its super() chain" % name)
        ok = not bare
        ck.ob(R, "%s.%s::validate-before-dispatch" % (MF, name), ok, "%s validates the dependency before dispatching" % name if ok else
              "MementoFunction.%s (%s) reaches `%s` in %s without having passed self._validate_dependency(): a callee whose result is already in the store is "
              "answered to a caller that never declared it, the caller is memoized under a version that does not cover the callee, and later edits of "
              "the callee never invalidate the caller" % (name, entry.qual, A.short(bare[0][1], 40), bare[0][0].qual) if bare else "", bare[0][0].where(bare[0][1]) if bare else A.loc(entry, entry.node))
    v = FA(ck, MF + "._validate_dependency")
    # everything below is decided on EXPANSIONS (locals replaced by what they were assigned), so
    # the names of the temporaries do not matter
    FRAME = "CallStack.get().get_calling_frame()"
    CALLER = FRAME + ".memento.invocation_metadata.fn_reference_with_args.fn_reference.memento_fn"
    # decided on PATH CONDITIONS (FA.conditions): the literals under which the raise is reached, with locals
    # expanded and negations / nesting / guard-clause style normalised away
    rs = [r for r in v.stmts(ast.Raise) if isinstance(r.exc, ast.Call) and A.call_attr(r.exc) == "UndeclaredDependencyError"]
    okr = len(rs) == 1
    valid = None
    conds = _conditions(v, rs[0]) if okr else None
    extra = []
    if okr and conds is not None and len(conds) == 1:
        lits = set(next(iter(conds)))
        want = {(FRAME + " is None", False), (CALLER + ".explicit_version is None", True)}
        same = sorted([CALLER + ".qualified_name_without_version", "self.qualified_name_without_version"])
        want.add(("%s == %s" % (same[0], same[1]), False))
        memb = [l for l in lits if l[0].startswith("self.fn_reference().qualified_name in ") and l[1] is False]
        # `not in A and not in B` (two guard clauses) is `not in A | B`: several membership tests are one valid set, provided each
        # of the sets is made of the caller's dependencies or of the function references among its arguments
        okr = want <= lits and (len(memb) == 1 or (len(memb) > 1 and _membership_sets_are_closure_or_arguments(v)))
        if memb:
            valid = memb[0][0].split(" in ", 1)[1]
        extra = sorted(lits - want - set(memb))
        okr = okr and not extra
    else:
        okr = False
    ck.ob(R, v.key(None, "raises-when-outside"), okr, "a callee outside the caller's closure (and not the caller itself) is refused, whenever there is an automatically versioned caller" if okr else
          "the undeclared-dependency error is not raised exactly when there is a caller without a declared version, the callee is not the caller itself and is outside "
          "the valid set%s" % ((": additional condition(s) %s" % extra) if extra else ""), v.where(rs[0]) if rs else v.where())
    okv = False
    oka = True
    foreign = []
    if valid is not None and rs:
        g = v.enclosing(rs[0], ast.If)
        dv = set()
        from types import SimpleNamespace as _NS
        # wherever the membership of the callee in the valid set is asked (a branch test, or a condition held in a local)
        sites = [_NS(ast=n.ast, id=n.id) for n in v.cfg.nodes if n.kind == "test"]
        sites += [_NS(ast=st_.value, id=v.nodes(st_)[0]) for st_ in v.stmts((ast.Assign, ast.AnnAssign)) if getattr(st_, "value", None) is not None and v.nodes(st_)]
        for n in sites:
            for x in ast.walk(n.ast):
                if isinstance(x, ast.Compare) and len(x.ops) == 1 and isinstance(x.ops[0], (ast.In, ast.NotIn)) \
                        and v.xnorm(x.left, n.id) == "self.fn_reference().qualified_name":
                    dv |= v.df.deps(x.comparators[0], n.id)
                    # ... and what is put into that set in place (a set filled by a loop, .update(...), |=)
                    for y in _backward_slice(v, [(x.comparators[0], n.id)], control_dependence=False, nested=False).values():
                        if isinstance(y, ast.Call) and A.call_attr(y):
                            dv.add("call:" + A.call_attr(y))
                            if A.call_attr(y) == "getattr" and len(y.args) >= 2 and A.const_str(y.args[1]):
                                dv.add("getattr:" + A.const_str(y.args[1]))
                        elif isinstance(y, ast.Attribute) and isinstance(y.ctx, ast.Load) and A.dotted(y):
                            dv.add("attr:" + A.dotted(y))
        okv = "call:transitive_memento_fn_dependencies" in dv and "call:dependencies" in dv and \
            any(d.endswith("memento_fn") and d.startswith(("attr:", "getattr:")) for d in dv)
        # what else may flow into the valid set: function references found among the caller's own arguments
        foreign = sorted(d for d in dv if d.startswith("call:") and d[5:] not in (
            "transitive_memento_fn_dependencies", "dependencies", "fn_reference", "_extract_fn_ref_args", "get_calling_frame", "get", "cast", "set", "isinstance",
            "values", "union", "add", "update", "items", "list", "tuple") and not d[5:].startswith("_") and d[5:] not in v.fi.nested)
        oka = not foreign
        del g
    ck.ob(R, v.key(None, "closure-source"), okv, "valid callees = the caller's transitive memento dependencies" if okv else
          "the set of valid callees is not built from the calling function's transitive memento dependencies", v.where())
    ck.ob(R, v.key(None, "only-arguments-added"), oka, "only function references passed as arguments extend the closure" if oka else
          "the valid set is extended by something other than function-reference arguments (%s)" % foreign if valid is not None and rs else "the valid set could not be identified", v.where())
    okf = okr
    ck.ob(R, v.key(None, "caller-from-stack"), okf, "the caller is the top frame of this thread's call stack" if okf else
          "the caller is not taken from CallStack.get().get_calling_frame()", v.where())


def _membership_sets_are_closure_or_arguments(v) -> bool:
    """Every set in which _validate_dependency looks the callee's own name up is derived (by value flow, in-place filling included)
    from `<caller>.dependencies().transitive_memento_fn_dependencies()` or from `_extract_fn_ref_args(<the caller's arguments>)`."""
    n_sites = 0
    for n in v.cfg.nodes:
        if n.kind != "test" and not (n.ast is not None and isinstance(n.ast, (ast.Assign, ast.AnnAssign))):
            continue
        for x in ast.walk(n.ast if n.kind == "test" else (n.ast.value or ast.Pass())):
            if isinstance(x, ast.Compare) and len(x.ops) == 1 and isinstance(x.ops[0], (ast.In, ast.NotIn)) \
                    and v.xnorm(x.left, n.id) == "self.fn_reference().qualified_name":
                n_sites += 1
                calls = {A.call_attr(y) for y in _backward_slice(v, [(x.comparators[0], n.id)], control_dependence=False, nested=False).values() if isinstance(y, ast.Call)}
                if not ({"transitive_memento_fn_dependencies", "dependencies"} <= calls or "_extract_fn_ref_args" in calls):
                    return False
    return n_sites > 0


# --------------------------------------------------------------------------------- C14.R3 (K1)
def _value_text(fa, v, at_ast):
    """Text of a value for an obligation key, independent of how it is spelt: locals replaced by what they were assigned
    (a temporary hoisted in front of the call reads like the expression in place; one assigned in both arms of an `if`, or
    re-assigned under `if not <itself>`, reads like the conditional expression it spells out), `x if x else y` read as `x or y`."""
    import copy
    ns = fa.nodes(at_ast)

    def value_of(name, at, depth):
        ds = [d for d in fa.df.reaching(at, name)]
        if depth <= 0 or not ds:
            return None
        if len(ds) == 1:
            d = ds[0]
            return subst(d.value, d.node, depth - 1) if d.kind == "assign" and d.value is not None else None
        if len(ds) == 2:
            for (a, b) in (ds, ds[::-1]):
                if a.kind != "assign" or a.value is None or a.stmt is None:
                    continue
                par = fa.pm.get(a.stmt)
                if not isinstance(par, ast.If) or not fa.nodes(par.test):
                    continue
                tn = fa.nodes(par.test)[0]
                if b.kind == "assign" and b.value is not None and b.stmt is not None and fa.pm.get(b.stmt) is par and a.stmt in par.body and b.stmt in par.orelse:
                    return ast.IfExp(test=subst(par.test, tn, depth - 1), body=subst(a.value, a.node, depth - 1), orelse=subst(b.value, b.node, depth - 1))
                if a.stmt in par.body and not par.orelse and {(x.node, x.name) for x in fa.df.reaching(tn, name)} == {(b.node, b.name)}:
                    old = ast.Name(id=name, ctx=ast.Load()) if b.kind == "param" else (subst(b.value, b.node, depth - 1) if b.kind == "assign" and b.value is not None else None)
                    if old is None:
                        continue
                    # `if T: name = new` after `name = old`  ==  new if T else old
                    return ast.IfExp(test=subst(par.test, tn, depth - 1), body=subst(a.value, a.node, depth - 1), orelse=old)
        return None

    def subst(e, at, depth):
        class S(ast.NodeTransformer):
            def visit_Name(self, n):
                if isinstance(n.ctx, ast.Load) and fa.df.is_local(n.id):
                    got = value_of(n.id, at, depth)
                    if got is not None:
                        return got
                return n

            def visit_Lambda(self, n):
                return n
        return S().visit(copy.deepcopy(e))

    class T(ast.NodeTransformer):
        def visit_IfExp(self, n):
            self.generic_visit(n)
            t_, b_, o_ = n.test, n.body, n.orelse
            if isinstance(t_, ast.UnaryOp) and isinstance(t_.op, ast.Not):
                t_, b_, o_ = t_.operand, o_, b_
            if A.norm(t_) == A.norm(b_):
                vals = [b_] + (list(o_.values) if isinstance(o_, ast.BoolOp) and isinstance(o_.op, ast.Or) else [o_])
                return ast.copy_location(ast.BoolOp(op=ast.Or(), values=vals), n)
            return n
    try:
        ex = subst(v, ns[0], 6) if ns else copy.deepcopy(v)
        return A.norm(ast.fix_missing_locations(T().visit(ex)))
    except RecursionError:
        return A.norm(v)


def check_version_taint(ck, R):
    ck.rule(R, "a computed version never becomes a declared version: no value derived from version() / "
               "_calculated_version / _recompute_version() flows into the `version=` parameter of the MementoFunction "
               "constructor (which switches dependency enforcement and recomputation off)", 2)
    sites = ck.cg.call_sites_of(lambda c, cands: A.call_attr(c) == "MementoFunction" and isinstance(c.func, ast.Name))
    n = 0
    for (fi, call, _) in sites:
        fa = FA(ck, fi)
        v = A.kwarg(call, "version")
        if v is None:
            continue
        n += 1
        d = fa.deps(v)
        tainted = [x for x in d if x in ("call:version", "attr:self._calculated_version", "call:_recompute_version")]
        # a computed version that is not refreshed first is additionally stale
        if "attr:self._calculated_version" in d:
            ck.ob(R, fa.qual + "::MementoFunction(version=)::unrefreshed", False,
                  "the clone's version is taken from self._calculated_version without going through version(): after a tracked variable changed, "
                  "a modifier clone created before the next query keeps the old version and serves old results", fa.where(call))
        ck.ob(R, fa.qual + "::MementoFunction(version=%s)" % _value_text(fa, v, call), not tainted,
              "the declared-version slot receives only a declared version" if not tainted else
              "the clone is constructed with version=<computed version> (%s): it counts as explicitly versioned, so dependency "
              "enforcement is skipped for calls it makes and its version is pinned when dependencies are redefined" % A.short(v, 50), fa.where(call))
    ck.need(n >= 2, "expected MementoFunction(...) constructions with version= in decorator and clone_with")
    # the switch is the attribute tested on the early-exit edge
    ini = FA(ck, MF + ".__init__")
    st = [s for s in ini.stmts(ast.Assign) if any(A.dotted(t) == "self.explicit_version" for t in s.targets)]
    ok = len(st) == 1 and A.norm(st[0].value) == "version"
    ck.ob(R, ini.key(None, "slot"), ok, "explicit_version is exactly the constructor's version parameter" if ok else
          "explicit_version is no longer assigned from the version parameter", ini.where())


# --------------------------------------------------------------------------------- C03
# types whose repr() is a function of the value alone (no hash-ordered iteration, no address)
CANONICAL_TEXT_TYPES = {"bool", "int", "float", "complex", "str", "bytes", "bytearray", "range", "type(None)", "NoneType",
                        "Decimal", "decimal.Decimal", "Fraction", "fractions.Fraction", "datetime.date", "datetime.datetime", "datetime.time",
                        "datetime.timedelta", "date", "datetime", "time", "timedelta"}
NAME_ATTRS = {"__name__", "__qualname__", "__module__", "qualified_name_without_version", "qualified_name"}
_TEXT_CALLS = {"repr", "str", "ascii", "format", "join", "hex", "hexdigest", "decode", "len", "chr", "oct", "bin"}


def _rendered_operands(fa):
    """(rendering node, operand) for every place where a value is turned into text by ITS OWN rendering: repr(x), str(x),
    ascii(x), format(x), '...'.format(x, k=y), f'{x}', '...' % (x, y)."""
    out = []
    for n in A.walk_body(fa.node):
        if isinstance(n, ast.Call) and isinstance(n.func, ast.Name) and n.func.id in ("repr", "str", "ascii", "format") and n.args:
            out.append((n, n.args[0]))
        elif isinstance(n, ast.Call) and isinstance(n.func, ast.Attribute) and n.func.attr in ("format", "format_map") \
                and (A.str_parts(n.func.value) is not None or isinstance(n.func.value, ast.Name)):
            out += [(n, a.value if isinstance(a, ast.Starred) else a) for a in n.args] + [(n, k.value) for k in n.keywords]
        elif isinstance(n, ast.JoinedStr):
            out += [(n, v.value) for v in n.values if isinstance(v, ast.FormattedValue)]
        elif isinstance(n, ast.BinOp) and isinstance(n.op, ast.Mod) and (isinstance(n.left, ast.JoinedStr) or A.const_str(n.left) is not None):
            out += [(n, x) for x in (n.right.elts if isinstance(n.right, ast.Tuple) else [n.right])]
    return out


def _bound_in_expression(fa, e):
    """Does `e` mention a variable bound by a comprehension / lambda around it (no branch test can speak about it)?"""
    names = {x.id for x in ast.walk(e) if isinstance(x, ast.Name)}
    cur = fa.pm.get(e)
    while cur is not None and not isinstance(cur, ast.stmt):
        if isinstance(cur, (ast.ListComp, ast.SetComp, ast.GeneratorExp, ast.DictComp)):
            for g in cur.generators:
                if names & {x.id for x in ast.walk(g.target) if isinstance(x, ast.Name)}:
                    return True
        if isinstance(cur, ast.Lambda) and names & {a.arg for a in cur.args.args + cur.args.kwonlyargs}:
            return True
        cur = fa.pm.get(cur)
    return False


def _text_is_canonical(fa, e, at, renderers, depth=5):
    """Is the text of `e` canonical by construction: a constant, a name-like attribute, the result of one of the
    renderers / of a text-producing call (judged at its own site), or built from such?"""
    if isinstance(e, ast.Constant) or isinstance(e, ast.JoinedStr):
        return True
    if isinstance(e, ast.Attribute):
        return e.attr in NAME_ATTRS
    if isinstance(e, ast.Call):
        nm = A.call_attr(e)
        return nm in renderers or nm in _TEXT_CALLS
    if isinstance(e, ast.IfExp):
        return _text_is_canonical(fa, e.body, at, renderers, depth) and _text_is_canonical(fa, e.orelse, at, renderers, depth)
    if isinstance(e, ast.BinOp) and isinstance(e.op, (ast.Add, ast.Mod)):
        return A.str_parts(e) is not None or (_text_is_canonical(fa, e.left, at, renderers, depth) and _text_is_canonical(fa, e.right, at, renderers, depth))
    if isinstance(e, ast.Name) and depth > 0 and _bound_in_expression(fa, e):
        # a variable of a comprehension: it holds the elements of what is iterated - canonical text if those elements were
        # made by a renderer (`pairs = sorted((render(k), render(v)) for ...)` ... `for (k, v) in pairs`)
        cur, gen = fa.pm.get(e), None
        while cur is not None and not isinstance(cur, ast.stmt) and gen is None:
            if isinstance(cur, (ast.ListComp, ast.SetComp, ast.GeneratorExp, ast.DictComp)):
                gen = next((g for g in cur.generators if e.id in {x.id for x in ast.walk(g.target) if isinstance(x, ast.Name)}), None)
            cur = fa.pm.get(cur)
        if gen is None:
            return False
        idx = None
        if isinstance(gen.target, (ast.Tuple, ast.List)):
            idx = next((i for i, x in enumerate(gen.target.elts) if isinstance(x, ast.Name) and x.id == e.id), None)
            if idx is None:
                return False
        it, it_at = gen.iter, at
        for _ in range(6):
            it = _orderless(it)
            if isinstance(it, ast.Name) and not _bound_in_expression(fa, it):
                ds = fa.df.reaching(it_at, it.id)
                if len(ds) == 1 and ds[0].kind == "assign" and ds[0].value is not None:
                    it, it_at = ds[0].value, ds[0].node
                    continue
            break
        if isinstance(it, ast.Call) and isinstance(it.func, ast.Name) and it.func.id == "map" and len(it.args) == 2 and idx is None:
            return isinstance(it.args[0], ast.Name) and it.args[0].id in renderers
        if isinstance(it, (ast.ListComp, ast.GeneratorExp, ast.SetComp)):
            elt = it.elt
            if idx is not None:
                if not (isinstance(elt, ast.Tuple) and idx < len(elt.elts)):
                    return False
                elt = elt.elts[idx]
            return _text_is_canonical(fa, elt, it_at, renderers, depth - 1)
        return False
    if isinstance(e, ast.Name) and depth > 0 and not _bound_in_expression(fa, e):
        ds = fa.df.reaching(at, e.id)
        if ds and any(d.kind == "aug" for d in ds):
            # text built up in steps (`s = <text>` ... `s += <text>`): canonical if every step is
            return all(d.kind in ("assign", "aug") and d.value is not None and (d.kind != "aug" or isinstance(d.stmt.op, ast.Add))
                       and _text_is_canonical(fa, d.value, d.node, renderers, depth - 1) for d in ds)
        alts_ = _alternatives(fa, e, at)
        if all(not (isinstance(x, ast.Name) and x.id == e.id) for (x, _a) in alts_):
            return all(_text_is_canonical(fa, x, a_, renderers, depth - 1) for (x, a_) in alts_)
    return False


def _scalar_type_literal(text, subject):
    """Does the (positive) literal say that `subject` is None / Ellipsis / of a type with canonical text?"""
    e = _parse_lit(text) if isinstance(text, str) else text
    if e is None:
        return False
    if isinstance(e, ast.BoolOp):
        # a disjunction taken true stays one literal: every alternative must say so; of a conjunction, one part
        return (all if isinstance(e.op, ast.Or) else any)(_scalar_type_literal(v, subject) for v in e.values)
    if isinstance(e, ast.Compare) and len(e.ops) == 1 and isinstance(e.ops[0], ast.Is) and A.norm(e.left) == subject:
        c = e.comparators[0]
        return (isinstance(c, ast.Constant) and (c.value is None or c.value is Ellipsis)) or A.norm(c) == "Ellipsis"
    it = A.isinstance_types(e)
    if it and it[0] == subject:
        return set(it[1]) <= CANONICAL_TEXT_TYPES
    if isinstance(e, ast.Compare) and len(e.ops) == 1 and isinstance(e.ops[0], (ast.Is, ast.Eq, ast.In)) and A.norm(e.left) == "type(%s)" % subject:
        c = e.comparators[0]
        return set(A.norm(x) for x in (c.elts if isinstance(c, (ast.Tuple, ast.List, ast.Set)) else [c])) <= CANONICAL_TEXT_TYPES
    return False


def _stable_repr_function(ck, name):
    """A module-level function of code_hash that renders the elements of a set in an order that does not depend on the hash seed:
    in the branch for sets, EVERY iteration over the object maps the elements through this very function and the resulting
    strings are sorted (by themselves: no key) before anything else reads them - `sorted(f(x) for x in o)`, `sorted(map(f, o))`,
    a list built by a comprehension or filled by an append loop and then sorted in place / handed to sorted()."""
    m = ck.repo.module(CH)
    fi = m.functions.get(name)
    if fi is None:
        return False
    fa = FA(ck, fi)
    param = fi.params[0] if fi.params else "o"

    def plain_sorted(call, arg):
        return isinstance(call, ast.Call) and isinstance(call.func, ast.Name) and call.func.id == "sorted" and call.args and call.args[0] is arg and not call.keywords

    def maps_through_self(elt, var):
        return isinstance(elt, ast.Call) and A.call_attr(elt) == name and len(elt.args) == 1 and not elt.keywords and isinstance(elt.args[0], ast.Name) and elt.args[0].id == var

    def sorted_before_read(lst, fill_stmts, scope):
        """the local list `lst` (filled by `fill_stmts` only) is sorted, by its elements themselves, before anything else reads it"""
        pm_ = A.parent_map(scope)
        sorts, reads = [], []
        for x in ast.walk(scope):
            if not (isinstance(x, ast.Name) and x.id == lst):
                continue
            if isinstance(x.ctx, ast.Store):
                if not any(x in ast.walk(f_) for f_ in fill_stmts):
                    return False   # given another value somewhere
                continue
            if any(x in ast.walk(f_) for f_ in fill_stmts):
                continue
            par = pm_.get(x)
            if isinstance(par, ast.Attribute) and par.value is x and isinstance(pm_.get(par), ast.Call) and pm_.get(par).func is par:
                c_ = pm_.get(par)
                if par.attr == "sort" and not c_.args and not c_.keywords:
                    sorts.append(c_)
                    continue
                if par.attr in _LIST_MUTATORS:
                    return False
            if plain_sorted(par, x):
                continue    # read through sorted(): the order it had does not matter
            reads.append(x)
        if not reads:
            return True
        sn = fa.nodes_all(sorts)
        return bool(sn) and all(fa.nodes(r_) and all(fa.cfg.must_pass(sn, i_) and i_ not in sn for i_ in fa.nodes(r_)) for r_ in reads)

    for i in [n for n in A.walk_body(fi.node) if isinstance(n, ast.If)]:
        it = A.isinstance_types(i.test)
        if not (it and "frozenset" in it[1]):
            continue
        # no fallback path that iterates in raw order (e.g. except TypeError: list(o))
        if any(isinstance(n, ast.Try) for st in i.body for n in ast.walk(st)):
            return False
        scope = ast.Module(body=list(i.body), type_ignores=[])
        pm = A.parent_map(scope)
        ok_any = False
        for n in ast.walk(scope):
            if not (isinstance(n, ast.Name) and n.id == param and isinstance(n.ctx, ast.Load)):
                continue
            par = pm.get(n)
            if isinstance(par, ast.Call) and A.call_attr(par) == "type":
                continue
            if isinstance(par, ast.comprehension) and par.iter is n:
                comp = pm.get(par)
                if isinstance(comp, (ast.ListComp, ast.GeneratorExp, ast.SetComp)) and len(comp.generators) == 1 and not par.ifs \
                        and isinstance(par.target, ast.Name) and maps_through_self(comp.elt, par.target.id):
                    outer = pm.get(comp)
                    if plain_sorted(outer, comp):
                        ok_any = True
                        continue
                    if isinstance(comp, ast.ListComp) and isinstance(outer, ast.Assign) and len(outer.targets) == 1 and isinstance(outer.targets[0], ast.Name) \
                            and sorted_before_read(outer.targets[0].id, [outer], scope):
                        ok_any = True
                        continue
                return False
            if isinstance(par, ast.Call) and isinstance(par.func, ast.Name) and par.func.id == "map" and len(par.args) == 2 and par.args[1] is n \
                    and isinstance(par.args[0], ast.Name) and par.args[0].id == name:
                outer = pm.get(par)
                if plain_sorted(outer, par):
                    ok_any = True
                    continue
                return False
            if isinstance(par, ast.For) and par.iter is n and isinstance(par.target, ast.Name) and not par.orelse and len(par.body) == 1:
                # for x in o: L.append(f(x)) - with L = [] before it and sorted before it is read
                b_ = par.body[0]
                c_ = b_.value if isinstance(b_, ast.Expr) else None
                if isinstance(c_, ast.Call) and A.call_attr(c_) == "append" and isinstance(A.call_recv(c_), ast.Name) and len(c_.args) == 1 and not c_.keywords \
                        and maps_through_self(c_.args[0], par.target.id):
                    lst = A.call_recv(c_).id
                    inits = [x for x in ast.walk(scope) if isinstance(x, ast.Assign) and len(x.targets) == 1 and isinstance(x.targets[0], ast.Name) and x.targets[0].id == lst]
                    if len(inits) == 1 and isinstance(inits[0].value, ast.List) and not inits[0].value.elts and fa.nodes(inits[0]) and fa.nodes(par) \
                            and all(fa.cfg.must_pass(fa.nodes(inits[0]), j_) for j_ in fa.nodes(par)) and sorted_before_read(lst, [inits[0], par], scope):
                        ok_any = True
                        continue
                return False
            return False
        return ok_any
    return False


def check_determinism_taint(ck, R):
    ck.rule(R, "determinism taint: no seed-, address-, time- or location-dependent text reaches a version digest; a "
               "constant is serialised with repr() only if set-valued constants are canonicalised first; dict-valued "
               "JSON feeding a digest is dumped with sorted keys", 8)
    sinks = 0
    for modname in ("code_hash", "memento", "configuration", "reference"):
        mod = ck.repo.module(modname)
        for fi in mod.all_funcs():
            cand = [c for c in A.body_calls(fi.node) if (A.call_attr(c) == "update" and isinstance(A.call_recv(c), ast.Name)) or A.call_dotted(c) == "hashlib.sha256"]
            if not cand:
                continue
            fa = FA(ck, fi)
            # a digest sink: hashlib.sha256(<data>) or <h>.update(<data>) where <h> was made by hashlib (whatever it is called)
            ups = [c for c in cand if A.call_dotted(c) == "hashlib.sha256" or "sha" in A.norm(A.call_recv(c))
                   or (fa.nodes(c) and any(x.startswith("callq:hashlib.") for x in fa.deps(A.call_recv(c), fa.nodes(c)[0])))]
            if not ups:
                continue
            for c in ups:
                if not c.args:
                    continue
                sinks += 1
                d = fa.deps(c.args[0])
                bad = sorted({x[5:] for x in d if x.startswith("call:") and x[5:] in NONDETERMINISTIC_CALLS} |
                             {x.split(".")[-1] for x in d if x.startswith("attr:") and x.split(".")[-1] in LOCATION_ATTRS})
                ck.ob(R, fa.key(c, "sink"), not bad, "digest input is free of nondeterministic sources" if not bad else
                      "digest input depends on %s: the same program gets different versions in different processes / locations" % bad, fa.where(c))
    # module-level ENVIRONMENT_HASH_BYTES
    cfgm = ck.repo.module("configuration")
    env = cfgm.assigns.get("ENVIRONMENT_HASH_BYTES")
    ck.need(env is not None, "configuration.ENVIRONMENT_HASH_BYTES not found")
    env = _module_expand(cfgm, env)
    opaque = sorted({c.func.id for c in ast.walk(env) if isinstance(c, ast.Call) and isinstance(c.func, ast.Name) and c.func.id in cfgm.functions})
    ck.need(not opaque, "configuration.ENVIRONMENT_HASH_BYTES is computed by %s, which the check cannot read as a single expression" % opaque)
    dumps = [c for c in ast.walk(env) if isinstance(c, ast.Call) and A.call_attr(c) == "dumps"]
    oke = len(dumps) == 1 and A.norm(A.kwarg(dumps[0], "sort_keys")) == "True" and not any(
        isinstance(c, ast.Call) and A.call_attr(c) in NONDETERMINISTIC_CALLS | {"platform", "version_info", "getcwd", "gethostname"} for c in ast.walk(env))
    names = {n.attr for n in ast.walk(env) if isinstance(n, ast.Attribute)} | set(A.names_in(env))
    oke = oke and not ({"sys", "os", "platform", "socket"} & names)
    ck.ob(R, "configuration::ENVIRONMENT_HASH_BYTES", oke, "the environment salt is a sorted-key JSON of declared constants" if oke else
          "ENVIRONMENT_HASH_BYTES depends on the machine / process or is dumped without sorted keys", cfgm.relpath)
    sinks += 1
    # constants: repr only after canonicalisation of sets
    unit = _CodeHasher(ck)
    outer = unit.outer
    entry_fas = [(FA(ck, unit.funcs[nm_]), prm) for nm_, prm in sorted(unit.entries.items())]
    for (h, obj) in entry_fas:
        for r in h.returns():
            v = r.value
            if isinstance(v, ast.Call) and A.call_attr(v) in ("repr", "str", "format") and v.args and A.norm(v.args[0]) == obj:
                ck.ob(R, h.key(r, "const-repr"), False,
                      "code constants are serialised with repr(): a frozenset constant (from `x in {...}`) prints in hash-seed order, "
                      "so the version differs between processes", h.where(r))
            elif isinstance(v, ast.Call) and isinstance(v.func, ast.Name) and v.args and A.norm(v.args[0]) == obj and A.call_attr(v) not in unit.entries:
                ok = _stable_repr_function(ck, v.func.id)
                ck.ob(R, h.key(r, "const-repr"), ok, "constants go through %s, which sorts set elements" % v.func.id if ok else
                      "constants are serialised by %s, which does not canonicalise set-valued constants" % v.func.id, h.where(r))
    # the renderers of hashed text are not memoised by equality: `(3, 1, 2) == (3.0, 1.0, 2.0)` and both are
    # tuples, so even a typed lru_cache (typed=True looks at the type of the argument itself only)
    # hands the text rendered for the first to the second; which of two such constants is rendered
    # first depends on definition / import order, i.e. on the process
    n_cached = 0
    mod_funcs = ck.repo.module(CH).functions
    roots = {A.call_attr(r.value) for (h, _o) in entry_fas for r in h.returns() if isinstance(r.value, ast.Call) and isinstance(r.value.func, ast.Name)} & set(mod_funcs)
    closure = set(roots) | {"fn_code_hash"}
    work = list(closure)
    while work:
        cur = mod_funcs.get(work.pop())
        if cur is None:
            continue
        for c in ast.walk(cur.node):
            if isinstance(c, ast.Call) and isinstance(c.func, ast.Name) and c.func.id in mod_funcs and c.func.id not in closure:
                closure.add(c.func.id)
                work.append(c.func.id)
    for fi in [f_ for f_ in ck.repo.module(CH).all_funcs() if f_.parent is None and f_.cls is None and f_.name in closure]:
        for dn in fi.node.decorator_list:
            txt = A.norm(dn)
            if "lru_cache" in txt or txt in ("functools.cache", "cache"):
                n_cached += 1
                ck.ob(R, fi.qual + "::renderer-not-memoised", False,
                      "%s is wrapped in `%s`: the cache identifies arguments by ==/hash, which conflates constants that differ only in the type of "
                      "their elements ((3, 1, 2) / (3.0, 1.0, 2.0), frozenset({1}) / frozenset({True})); the text hashed for one of them is the text "
                      "rendered for whichever was seen first, so a function's version depends on what else was hashed before it in that process"
                      % (fi.qual, A.short(dn, 50)), A.loc(fi, fi.node))
    ck.ob(R, CH + "::renderer-not-memoised::scan", True, "%d equality-keyed caches among the renderers of hashed text (%s)" % (n_cached, sorted(closure)), "")
    # inside those renderers an object's OWN text (repr / str / format of the object itself) is used only where a type
    # test on the path has established a type whose text is canonical; anything else goes through the renderer
    # recursively or is described by names
    n_sites = 0
    for fi in [f_ for f_ in ck.repo.module(CH).all_funcs() if f_.parent is None and f_.cls is None and f_.name in closure - {"fn_code_hash"} - set(unit.entries)]:
        fr = FA(ck, fi)
        for (site, operand) in _rendered_operands(fr):
            st = fr.stmt_of(site)
            if st is None or not fr.nodes(st):
                continue
            at = fr.nodes(st)[0]
            if _text_is_canonical(fr, operand, at, closure):
                continue
            n_sites += 1
            subject = fr.xnorm(operand, at) if not _bound_in_expression(fr, operand) else None
            conds = _conditions(fr, st) if subject is not None else None
            okg = conds is not None and bool(conds) and all(any(pol and _scalar_type_literal(txt, subject) for (txt, pol) in conj) for conj in conds)
            ck.ob(R, fr.key(st, "own-text-only-of-scalars:" + A.norm(operand)[:30]), okg,
                  "`%s` is rendered with its own text only where it is known to be a scalar" % A.short(operand, 30) if okg else
                  "`%s` puts the object's own text (`%s`) into the hashed rendering without a type test that makes that text canonical: the repr / str of an "
                  "arbitrary object (a dataclass or namedtuple holding a set, an object with the default repr) prints in hash-seed order or with a "
                  "memory address, so the code hash of a function with such a constant or default differs between processes"
                  % (A.short(site, 50), A.short(operand, 30)), fr.where(site))
    ck.ob(R, CH + "::own-text-only-of-scalars::scan", True, "%d renderings of an object's own text in the renderers of hashed text" % n_sites, "")
    # dict-valued dumps
    sv = FA(ck, CH + ".GlobalVariableHashRule._serialize_value")
    for c in sv.calls("dumps"):
        ok = A.norm(A.kwarg(c, "sort_keys")) == "True"
        ck.ob(R, sv.key(c, "sorted-keys"), ok, "tracked values are dumped with sorted keys" if ok else
              "a tracked dict value is dumped in insertion order: equal values give different versions", sv.where(c))
    # rule keys are symbolic
    for cls in hash_rule_classes(ck):
        ini = cls.methods.get("__init__")
        if ini is None:
            continue
        f2 = FA(ck, ini)
        sup = [c for c in f2.calls("__init__") if isinstance(A.call_recv(c), ast.Call) and A.call_attr(A.call_recv(c)) == "super"]
        for c in sup:
            k = A.kwarg(c, "key")
            if k is None:
                continue
            d = f2.deps(k)
            bad = sorted({x[5:] for x in d if x.startswith("call:") and x[5:] in NONDETERMINISTIC_CALLS | {"repr"}})
            ck.ob(R, f2.key(c, "rule-key"), not bad, "rule keys are symbolic names" if not bad else
                  "a rule key depends on %s: rule order (and the version) differs between processes" % bad, f2.where(c))
            # keys must be injective on what is tracked: __qualname__ is not unique (every lambda is
            # called '<lambda>'), so a key built from it must also carry the symbol it was reached by
            uses_qualname = any("__qualname__" in x for x in d)
            has_symbol = "param:symbol" in d
            okq = (not uses_qualname) or has_symbol
            ck.ob(R, f2.key(None, "rule-key-injective"), okq, "the rule key identifies one tracked object" if okq else
                  "the rule key is built from __qualname__ without the symbol: two module-level lambdas used by one function share the key "
                  "'...:<lambda>', only one of them (which one depends on the hash seed) is hashed, so the version differs between processes "
                  "and edits to the other are never seen", f2.where(c))
    # __qualname__ is not unique for lambdas ('<lambda>') nor for closures of one factory
    # ('make.<locals>.inner'): where a helper appends the symbol only conditionally, the condition
    # must cover both markers
    fnm = ck.repo.try_func(CH + ".NonMementoFunctionHashRule._function_name")
    if fnm is not None:
        f3 = FA(ck, fnm)
        # decided on PATH CLASSES: on every path to a return, and for every way a conditional expression on it can come out, the
        # returned name contains the symbol unless the path has established that the qualified name carries neither marker
        sym = f3.fi.params[1] if len(f3.fi.params) > 1 else "symbol"
        MARKERS = {"<lambda>", "<locals>"}
        p3 = _exit_paths(f3)
        ck.need(p3 is not None, "_function_name: too many paths")

        def absent(conj):
            """the markers a conjunction of literals says are NOT in the qualified name"""
            out_ = set()
            for (txt, pol) in conj:
                if pol:
                    continue
                e_ = _parse_lit(txt)
                if isinstance(e_, ast.Compare) and len(e_.ops) == 1 and isinstance(e_.ops[0], ast.In) and A.const_str(e_.left) in MARKERS \
                        and A.norm(e_.comparators[0]).endswith("__qualname__"):
                    out_.add(A.const_str(e_.left))
                if isinstance(e_, ast.Call) and A.norm(e_.func) == "any" and len(e_.args) == 1 and isinstance(e_.args[0], (ast.GeneratorExp, ast.ListComp)) \
                        and len(e_.args[0].generators) == 1 and not e_.args[0].generators[0].ifs:
                    g_, el_ = e_.args[0].generators[0], e_.args[0].elt
                    if isinstance(g_.iter, (ast.Tuple, ast.List, ast.Set)) and isinstance(g_.target, ast.Name) and isinstance(el_, ast.Compare) and len(el_.ops) == 1 \
                            and isinstance(el_.ops[0], ast.In) and A.norm(el_.left) == g_.target.id and A.norm(el_.comparators[0]).endswith("__qualname__"):
                        out_ |= {A.const_str(x) for x in g_.iter.elts if A.const_str(x)}
            return out_

        def ways(e_, pth, idx, depth=8):
            """[(extra literals, does the symbol flow in)] for the value of `e_` evaluated at position idx of the path"""
            nid = pth[idx]
            if depth <= 0:
                return [([], sym in A.names_in(e_))]
            if isinstance(e_, ast.IfExp):
                out_ = []
                for pol, arm in ((True, e_.body), (False, e_.orelse)):
                    for alt in f3._alts(e_.test, nid, pol):
                        out_ += [(alt + l_, h_) for (l_, h_) in ways(arm, pth, idx, depth - 1)]
                return out_
            if isinstance(e_, ast.Name):
                if not isinstance(e_.ctx, ast.Load):
                    return [([], False)]
                for k in range(idx - 1, -1, -1):
                    ds = [d for d in f3.df.gen.get(pth[k], []) if d.name == e_.id]
                    if not ds:
                        continue
                    d = ds[0]
                    if d.value is None:
                        return [([], False)]
                    cur = ways(d.value, pth, k, depth - 1)
                    if d.kind == "aug":
                        prev = ways(e_, pth, k, depth - 1)
                        return [(l1 + l2, h1 or h2) for (l1, h1) in prev for (l2, h2) in cur]
                    return cur
                return [([], e_.id == sym)]
            out_ = [([], False)]
            for ch in ast.iter_child_nodes(e_):
                if isinstance(ch, ast.expr) and any(isinstance(x, (ast.Name, ast.IfExp)) for x in ast.walk(ch)):
                    sub = ways(ch, pth, idx, depth - 1)
                    out_ = [(l1 + l2, h1 or h2) for (l1, h1) in out_ for (l2, h2) in sub][:64]
                elif isinstance(ch, ast.keyword) or isinstance(ch, ast.FormattedValue):
                    sub = ways(ch.value, pth, idx, depth - 1)
                    out_ = [(l1 + l2, h1 or h2) for (l1, h1) in out_ for (l2, h2) in sub][:64]
            return out_

        okm = bool(p3)
        n_with = 0
        for (pth, lits) in p3:
            ridx = next((k for k in range(len(pth) - 1, -1, -1) if isinstance(f3.cfg.node(pth[k]).ast, ast.Return)), None)
            if ridx is None or f3.cfg.node(pth[ridx]).ast.value is None:
                okm = False
                continue
            for (extra, has_sym) in ways(f3.cfg.node(pth[ridx]).ast.value, pth, ridx):
                conj = dict(lits)
                if any(conj.setdefault(t, p_) != p_ for (t, p_) in extra):
                    continue   # contradicts the path
                if has_sym:
                    n_with += 1
                elif not MARKERS <= absent(conj.items()):
                    okm = False
        okm = okm and n_with > 0
        ck.ob(R, f3.key(None, "non-unique-qualnames"), okm, "the symbol is appended for every function whose qualified name is not unique (<lambda>, <locals>)" if okm else
              "the symbol is appended to the rule key only for some non-unique qualified names: two closures made by one factory (or two lambdas) "
              "used by one function still share a key, so the version depends on the hash seed", f3.where())
    ck.need(sinks >= 4, "determinism taint: only %d digest sinks found" % sinks)


# what a module / the process looks like at one moment (as opposed to what a function IS)
_MOMENT_ATTRS = {"__globals__", "__dict__", "f_globals", "f_locals", "f_back", "f_builtins"}
_MOMENT_CALLS = {"globals", "vars", "locals", "dir", "getmembers", "get_registered_functions", "_getframe", "currentframe", "stack"}


def _moment_reads(nodes):
    """The places among `nodes` that look at the state of a module / of the process at the moment they run."""
    out = []
    for n in nodes:
        if isinstance(n, ast.Attribute) and isinstance(n.ctx, ast.Load) and (n.attr in _MOMENT_ATTRS or (n.attr == "modules" and A.norm(n.value) == "sys")):
            out.append(n)
        elif isinstance(n, ast.Call):
            nm = A.call_attr(n)
            if nm in ("getattr", "hasattr") and len(n.args) >= 2 and A.const_str(n.args[1]) in _MOMENT_ATTRS:
                out.append(n)
            elif nm in _MOMENT_CALLS:
                out.append(n)
    return sorted(out, key=lambda n: (getattr(n, "lineno", 0), getattr(n, "col_offset", 0)))


def check_definition_order_independence(ck, R):
    """What is recorded about a function at the moment it is DEFINED - the names its source refers to, its required names, its
    code hash - enters its version and must be a function of the function alone.  At that moment the module is half
    executed: its globals hold what stands above the definition and nothing of what stands below, other modules are
    imported or not.  Anything read from there (a `__globals__` table, `globals()`, `vars(module)`, `sys.modules`, the
    registry of functions) makes the same program text yield different versions for different definition / import orders."""
    ck.rule(R, "definition-order independence: the names, required names and code hash recorded when a function is defined are computed "
               "from the function itself, never from what its module's globals (or the process) hold at that moment", 3)
    sinks = []   # (FA, label, [(expr, node)], [stmts])
    ini = FA(ck, MF + ".__init__")
    for fld in ("detected_dependencies", "required_dependencies", "code_hash"):
        asg = [s_ for s_ in ini.stmts((ast.Assign, ast.AnnAssign, ast.AugAssign)) if ini.nodes(s_) and getattr(s_, "value", None) is not None
               and any(A.dotted(t) == "self." + fld for t in (s_.targets if isinstance(s_, ast.Assign) else [s_.target]))]
        ck.need(bool(asg), "MementoFunction.__init__: no assignment of self.%s" % fld)
        sinks.append((ini, "self." + fld, [(s_.value, ini.nodes(s_)[0]) for s_ in asg], asg))
    for q in (CH + ".list_dotted_names", CH + ".fn_code_hash"):
        fx = FA(ck, q)
        rets = [r for r in fx.returns() if r.value is not None and fx.nodes(r)]
        sinks.append((fx, "the value returned by %s" % fx.fi.name, [(r.value, fx.nodes(r)[0]) for r in rets], rets))
    for (fx, label, seeds, stmts_) in sinks:
        reads = _moment_reads(_backward_slice(fx, seeds, stmts_).values())
        ok = not reads
        ck.ob(R, fx.key(None, "definition-order:" + label.split(" ")[-1].replace("self.", "")), ok,
              "%s depends on the function alone" % label if ok else
              "%s depends on `%s`, i.e. on what a module's globals (or the process) hold at the moment the function is DEFINED: a module is half "
              "executed then - names defined below the function are not there yet - so the same program gets another version (and other dependencies) "
              "when its definitions are reordered or its modules imported in another order, and a second process re-executes what the first stored"
              % (label, A.short(reads[0], 60)), fx.where(reads[0]) if reads else fx.where())


def check_ordered_iteration(ck, R):
    ck.rule(R, "ordered iteration: every loop feeding a version digest iterates a sorted sequence or a tuple; hash rules "
               "are ordered, compared and hashed on the same key", 3)
    fa = FA(ck, MF + "._recompute_version")
    feed = _digest_feed(fa)
    ck.need(feed is not None, "_recompute_version: expected one place that feeds the rule hashes to the digest (a loop updating a hasher, or a hasher over a join of the pieces)")
    d = fa.df.deps(feed["iter"], feed["iter_at"])
    ok = "call:sorted" in d or _sorted_source(fa, feed["iter"], feed["iter_at"]) is not None
    site = feed["site"] if feed["kind"] == "loop" else fa.stmt_of(feed["site"])
    ck.ob(R, fa.key(site, "sorted"), ok, "rules are digested in sorted order" if ok else
          "the digest loop iterates an unordered set: the version depends on hash randomisation / definition order", fa.where(site))
    # the order must be total on the rule set: the rules' own ordering (on the unique key) or a
    # key function that includes that key
    base = ck.repo.cls(CH + ".HashRule")
    fields = {}
    for nm in ("__lt__", "__eq__", "__hash__"):
        m = base.methods.get(nm)
        ck.need(m is not None, "HashRule.%s not found" % nm)
        f2 = FA(ck, m)

        def read_fields(fx, depth=3):
            """the fields a method's result is computed from; an argument-less helper method of the class (a sort key) is read through"""
            out_ = set()
            for r in fx.returns():
                if r.value is None:
                    continue
                for n in (_flow(fx, r.value, fx.nodes(r)[0]).values() if fx.nodes(r) else ast.walk(r.value)):
                    if not isinstance(n, ast.Attribute):
                        continue
                    par = fx.pm.get(n)
                    if isinstance(par, ast.Call) and par.func is n:
                        if n.attr in base.methods and not par.args and not par.keywords and depth > 0:
                            out_ |= read_fields(FA(ck, base.methods[n.attr]), depth - 1)
                        continue
                    out_.add(n.attr)
            return out_

        fields[nm] = read_fields(f2)
    srt = [c for c in fa.calls("sorted")] + [c for c in fa.calls("sort")]
    ident = fields["__eq__"]
    for c in srt:
        k = A.kwarg(c, "key")
        okk = k is None
        used = set()
        if k is not None and isinstance(k, ast.Lambda):
            p0 = k.args.args[0].arg if k.args.args else None
            used = {n.attr for n in ast.walk(k.body) if isinstance(n, ast.Attribute) and isinstance(n.value, ast.Name) and n.value.id == p0}
            okk = bool(ident) and ident <= used
        okk = okk and A.kwarg(c, "reverse") is None
        ck.ob(R, fa.key(c, "total-order"), okk, "rules are ordered on the fields that identify them (%s)" % sorted(ident) if okk else
              "rules are sorted with `%s`, which does not cover the fields that tell two rules apart (%s): rules that tie keep the hash-seed "
              "dependent set order and the digest differs between processes" % (A.short(k, 60), sorted(ident - used) or sorted(ident)), fa.where(c))
    okf = fields["__lt__"] == fields["__eq__"] == fields["__hash__"] and "key" in fields["__eq__"]
    ck.ob(R, base.qual + "::order-on-key", okf, "__lt__/__eq__/__hash__ all use %s" % sorted(fields["__eq__"]) if okf else
          "HashRule ordering/equality/hash use different fields %s: sorted() is not a total order on the rule set" % fields, A.loc(base, base.node))
    for cls in hash_rule_classes(ck):
        over = [n for n in ("__lt__", "__eq__", "__hash__") if n in cls.methods]
        ck.ob(R, cls.qual + "::no-override", not over, "%s inherits the ordering" % cls.name if not over else
              "%s overrides %s" % (cls.name, over), A.loc(cls, cls.node))
    h = _CodeHasher(ck).dig
    comps = [n for n in A.walk_body(h.node) if isinstance(n, (ast.ListComp, ast.GeneratorExp, ast.SetComp))]
    okc = all(A.norm(c.generators[0].iter).endswith(".co_consts") for c in comps) and not any(isinstance(c, ast.SetComp) for c in comps)
    ck.ob(R, h.key(None, "consts-in-tuple-order"), okc, "constants are visited in their tuple order" if okc else
          "the code hasher iterates something unordered", h.where())


# --------------------------------------------------------------------------------- C13
def check_update_protocol(ck, R):
    ck.rule(R, "generation/cache protocol of the version updater: the cached version is kept only if the cache entry is "
               "of the current generation and no rule changed; a changed rule bumps the generation and recomputes; every "
               "recomputation stores a cache entry stamped with the current generation; every assignment of the "
               "calculated version refreshes the function reference; registration bumps the generation first", 7)
    fa = FA(ck, MF + "._update_dependencies")
    cfg = fa.cfg
    rec = fa.nodes_all(fa.calls("_recompute_version"))
    ck.need(rec, "_update_dependencies: _recompute_version call not found")
    # The protocol is decided on the PATH CLASSES of the function (_exit_paths): every acyclic path to the normal
    # exit with the branch literals taken on it (locals expanded, negations / nesting / guard clauses / boolean
    # flags normalised away), and the protocol events (recompute, bump, store) it passes, in order.
    GEN = "MementoFunction._global_fn_generation"
    CACHE = "MementoFunction._global_fn_version_cache"

    def cls_text(t):
        """the class-level generation counter and version cache under one designator, however the class is reached from a method
        (type(self).X, self.__class__.X, a read through the instance): reading them, and storing INTO the table, reaches the one
        object the class holds"""
        return re.sub(r"(?:\btype\(self\)|\bself\.__class__|\bself)\.(_global_fn_generation|_global_fn_version_cache)\b", r"MementoFunction.\1", t)

    paths = _exit_paths(fa)
    ck.need(paths is not None, "_update_dependencies: too many paths")
    paths = [(p_, {cls_text(t_): pol_ for t_, pol_ in lits_.items()}) for (p_, lits_) in paths]

    def changed_coll(e):
        """'exact' for `[r for r in self._hash_rules if r.did_change()]` (any comprehension kind / variable name),
        'partial' for another expression that asks did_change()."""
        if isinstance(e, (ast.ListComp, ast.GeneratorExp, ast.SetComp)) and len(e.generators) == 1:
            g_ = e.generators[0]
            if isinstance(g_.target, ast.Name) and A.norm(g_.iter) == "self._hash_rules" and A.norm(e.elt) == g_.target.id \
                    and [A.norm(c) for c in g_.ifs] == [g_.target.id + ".did_change()"]:
                return "exact"
        return "partial" if "did_change()" in A.norm(e) else None

    def classify(text):
        """(role, detail) of one literal."""
        if text == "self.explicit_version is None":
            return ("explicit", None)
        if text == "self._calculated_version is None":
            return ("has-version", None)
        e = _parse_lit(text)
        if e is None:
            return (None, None)
        if isinstance(e, ast.Attribute) and e.attr == "locked" and "get_cluster(" in text:
            return ("locked", None)
        if isinstance(e, ast.Compare) and len(e.ops) == 1:
            l_, r_ = A.norm(e.left), A.norm(e.comparators[0])
            for (a_, b_, flip) in ((l_, r_, False), (r_, l_, True)):
                if a_ == GEN and CACHE in b_ and isinstance((e.comparators[0] if not flip else e.left), ast.Attribute):
                    return ("generation", (type(e.ops[0]).__name__, (e.comparators[0] if not flip else e.left).attr))
            if isinstance(e.ops[0], ast.Eq) and {l_, r_} == {"self._calculated_version", "self._recompute_version()"}:
                return ("same-version", None)
            # emptiness of the changed-rule collection: len(C) > 0 / != 0 / >= 1 / == 0 / < 1, either operand order
            for (x_, y_, flip) in ((e.left, e.comparators[0], False), (e.comparators[0], e.left, True)):
                if isinstance(x_, ast.Call) and A.norm(x_.func) == "len" and len(x_.args) == 1 and (changed_coll(x_.args[0]) or _is_empty_container(x_.args[0])):
                    op = type(e.ops[0]).__name__
                    if flip:
                        op = {"Gt": "Lt", "Lt": "Gt", "GtE": "LtE", "LtE": "GtE"}.get(op, op)
                    k_ = A.norm(y_)
                    nonempty = {("Gt", "0"): True, ("GtE", "1"): True, ("NotEq", "0"): True, ("Eq", "0"): False, ("Lt", "1"): False, ("LtE", "0"): False}.get((op, k_))
                    if not changed_coll(x_.args[0]):
                        # the length of a collection that is empty on this path: the test is decided
                        return ("const", not nonempty) if nonempty is not None else (None, None)
                    return ("changed", (changed_coll(x_.args[0]), nonempty, A.norm_alpha(x_.args[0])))
        if isinstance(e, ast.Call) and A.norm(e.func) == "any" and len(e.args) == 1 and not e.keywords and isinstance(e.args[0], (ast.GeneratorExp, ast.ListComp)) \
                and len(e.args[0].generators) == 1:
            # any(r.did_change() for r in self._hash_rules): the same question, asked rule by rule
            g_ = e.args[0].generators[0]
            if isinstance(g_.target, ast.Name) and A.norm(g_.iter) == "self._hash_rules" and not g_.ifs and A.norm(e.args[0].elt) == g_.target.id + ".did_change()":
                return ("changed", ("exact", True, A.norm_alpha(e)))
        if changed_coll(e) is not None:
            return ("changed", (changed_coll(e), True, A.norm_alpha(e)))
        if _is_empty_container(e):
            return ("const", False)
        if "did_change()" in text:
            return ("changed", ("partial", None, text))
        return (None, None)

    roles = {}
    for (_p, lits) in paths:
        for t in lits:
            if t not in roles:
                roles[t] = classify(t)
    # one question, one literal: "is some rule of <collection> changed" however the emptiness test is spelt (len(C) > 0,
    # len(C) == 0, != 0, C itself ...), so that two tests of the same collection on one path agree; tests decided by an
    # empty literal drop out (and make the paths that contradict them infeasible)
    spelt = {}
    canon_paths = []
    for (pth, lits) in paths:
        nl, feasible = {}, True
        for t, pol in lits.items():
            ro, det = roles[t]
            if ro == "const":
                feasible = feasible and pol == det
                continue
            if ro == "changed" and det[1] is not None:
                key = "<some rule changed: %s>" % det[2]
                spelt.setdefault(key, []).append(t)
                roles.setdefault(key, ("changed", (det[0], True, det[2])))
                t, pol = key, (pol == det[1])
            if nl.get(t, pol) != pol:
                feasible = False
            nl[t] = pol
        if feasible:
            canon_paths.append((pth, nl))
    paths = canon_paths
    roles = {t: r_ for t, r_ in roles.items() if any(t in lits for (_p, lits) in paths)}
    by_role = {}
    for t, (ro, det) in roles.items():
        if ro is not None:
            by_role.setdefault(ro, []).append(t)
    ok_shape = all(len(by_role.get(ro, [])) == 1 for ro in ("explicit", "locked", "generation", "changed"))
    ck.ob(R, fa.key(None, "shape"), ok_shape, "explicit-version, locked-cluster, generation and changed-rule tests present" if ok_shape else
          "_update_dependencies no longer has exactly one explicit-version / locked / generation / changed-rules test (found %s)"
          % {ro: len(by_role.get(ro, [])) for ro in ("explicit", "locked", "generation", "changed")}, fa.where())
    if not ok_shape:
        return
    T_EXP, T_LOCK, T_GEN, T_CHG = (by_role[ro][0] for ro in ("explicit", "locked", "generation", "changed"))

    def test_node(text):
        """the branch test that contributes the literal (for the obligation's location)."""
        for n_ in cfg.nodes:
            if n_.kind == "test" and n_.id in cfg.reachable_nodes():
                for (txt, _pol) in fa._atoms(n_.ast, n_.id, True) + fa._atoms(n_.ast, n_.id, False):
                    if txt == text or txt in spelt.get(text, ()):
                        return n_.ast
        return None

    gt = test_node(T_GEN)
    gen_op, gen_field = roles[T_GEN][1]
    okeq = gen_op == "Eq"
    ck.ob(R, fa.key(gt, "generation-equal"), okeq, "the cache entry must be of exactly the current generation" if okeq else
          "the generation test is not an equality: an entry computed before newer definitions is trusted", fa.where(gt))
    ct = test_node(T_CHG)
    if ct is None:
        # the literal comes from a list filled by a loop / a flag: locate the test that reads that local
        acc_ = _accumulators(fa)
        for n_ in cfg.nodes:
            if ct is None and n_.kind == "test" and any(isinstance(x, ast.Name) and x.id in acc_ for x in ast.walk(n_.ast)):
                ct = n_.ast
    chg_kind, chg_nonempty = roles[T_CHG][1][0], roles[T_CHG][1][1]
    okct = chg_nonempty is not None
    ck.ob(R, fa.key(ct, "changed-test"), okct, "any changed rule counts" if okct else "the changed-rules test is not 'non-empty'", fa.where(ct))

    def changed(lits):
        """True / False / None: on this path some rule changed / no rule changed / not asked."""
        if T_CHG not in lits or chg_nonempty is None:
            return None
        return lits[T_CHG] == chg_nonempty

    def first(path, nodes, after=-1):
        for i_, x in enumerate(path):
            if i_ > after and x in nodes:
                return i_
        return None

    recs = set(rec)
    # (a) normal exits that keep the cached version: explicit version, locked cluster, or (current generation AND no rule changed)
    bad_a = None
    for (pth, lits) in paths:
        if first(pth, recs) is not None:
            continue
        if lits.get(T_EXP) is False or lits.get(T_LOCK) is True:
            continue
        if okeq and lits.get(T_GEN) is True and changed(lits) is False:
            continue
        bad_a = bad_a or (pth, lits)
    ok_a = bad_a is None and any(first(pth, recs) is None and lits.get(T_GEN) is True for (pth, lits) in paths)
    ck.ob(R, fa.key(None, "keep-cached-only-if-current"), ok_a,
          "the cached version is kept only for a current-generation entry with no changed rule" if ok_a else
          "the cached version can be kept without (entry of the current generation AND no rule changed)%s"
          % ((": path %s" % cfg.describe_path(bad_a[0])) if bad_a else ""), fa.where())
    # changed rules are computed from did_change over the current hash rules
    okcr = chg_kind == "exact"
    ck.ob(R, fa.key(ct, "all-rules-asked"), okcr, "every current hash rule is asked did_change()" if okcr else
          "changed_rules is not [rule for rule in self._hash_rules if rule.did_change()]", fa.where())
    # (b) changed => bump and recompute
    incs = set(fa.nodes_all(fa.calls("increment_global_fn_generation")))
    ok_b = bool(incs) and any(changed(lits) is True for (_p, lits) in paths)
    late = False
    for (pth, lits) in paths:
        if changed(lits) is True:
            i_inc = first(pth, incs)
            i_rec = first(pth, recs)
            if i_inc is None or i_rec is None or i_rec < i_inc:
                ok_b = False
                late = late or (i_inc is not None and i_rec is not None)
    ck.ob(R, fa.key(ct, "changed-bumps-and-recomputes"), ok_b, "a changed rule bumps the generation, then recomputes" if ok_b else
          "after a changed rule the updater recomputes BEFORE it bumps the generation (or bumps it only on some of those paths): while the recomputation "
          "is under way (the rule list already replaced by fresh rules, the calculated version and the reference not yet) every other caller still "
          "finds an entry of the current generation and no changed rule, keeps the old version and is served the result of the earlier edition" if late else
          "after a changed rule the updater can return without bumping the generation and recomputing", fa.where(ct))
    # (c) every path through recompute stores a current-generation cache entry
    def nt_fields(ctor):
        m_ = ck.repo.module("memento")
        v_ = m_.assigns.get(A.call_attr(ctor) or "")
        if isinstance(v_, ast.Call) and A.call_attr(v_) == "namedtuple" and len(v_.args) == 2 and isinstance(v_.args[1], (ast.List, ast.Tuple)):
            return [A.const_str(e) for e in v_.args[1].elts]
        if isinstance(v_, ast.Call) and A.call_attr(v_) == "namedtuple" and len(v_.args) == 2 and A.const_str(v_.args[1]):
            return A.const_str(v_.args[1]).replace(",", " ").split()
        c_ = m_.classes.get(A.call_attr(ctor) or "")
        if c_ is not None:
            # typing.NamedTuple / dataclass: the annotated class attributes, in order
            return [x.target.id for x in c_.node.body if isinstance(x, ast.AnnAssign) and isinstance(x.target, ast.Name)]
        return None

    # every way an entry is put into the version cache: cache[k] = v, cache.update({k: v}), cache.__setitem__(k, v)
    puts = []   # (statement, key expression, value expression)
    for s_ in fa.stmts((ast.Assign, ast.Expr)):
        if not fa.nodes(s_):
            continue
        at_ = fa.nodes(s_)[0]
        if isinstance(s_, ast.Assign):
            for t in s_.targets:
                if isinstance(t, ast.Subscript) and cls_text(fa.xnorm(t.value, at_)) == CACHE:
                    puts.append((s_, t.slice if len(s_.targets) == 1 else None, s_.value))
        elif isinstance(s_.value, ast.Call) and A.call_recv(s_.value) is not None and cls_text(fa.xnorm(A.call_recv(s_.value), at_)) == CACHE:
            c_ = s_.value
            if A.call_attr(c_) == "__setitem__" and len(c_.args) == 2:
                puts.append((s_, c_.args[0], c_.args[1]))
            elif A.call_attr(c_) == "update" and len(c_.args) == 1 and not c_.keywords:
                d_ = fa.expand(c_.args[0], at_)
                if isinstance(d_, ast.Dict) and len(d_.keys) == 1 and d_.keys[0] is not None:
                    puts.append((s_, d_.keys[0], d_.values[0]))
                else:
                    puts.append((s_, None, None))
            elif A.call_attr(c_) in ("update", "setdefault"):
                puts.append((s_, None, None))
    stores = [p_[0] for p_ in puts]
    ok_c = bool(stores)
    for (s_, key_, val_) in puts:
        at_ = fa.nodes(s_)[0]
        v = fa.expand(val_, at_) if val_ is not None else None
        flds = nt_fields(v) if isinstance(v, ast.Call) else None
        if flds is None and isinstance(v, ast.Call) and not v.args:
            flds = []  # all fields are named at the call: their order does not matter
        okv = flds is not None and key_ is not None
        if okv:
            bound = dict(zip(flds, v.args))
            bound.update({k.arg: k.value for k in v.keywords})
            okv = gen_field in bound and cls_text(fa.xnorm(bound[gen_field], at_)) == GEN \
                and any(f_ != gen_field and fa.xnorm(e_, at_) == "self._recompute_version()" for f_, e_ in bound.items()) \
                and fa.xnorm(key_, at_) == "self.qualified_name_without_version"
        ok_c = ok_c and okv
    sn = set(fa.nodes_all(stores))
    for (pth, lits) in paths:
        i_rec = first(pth, recs)
        if i_rec is not None and first(pth, sn, i_rec) is None:
            ok_c = False
    ck.ob(R, fa.key(stores[0] if stores else None, "cache-store"), ok_c, "each recomputation stores (current generation, version) under the function's name" if ok_c else
          "a recomputation can finish without storing a cache entry stamped with the current generation and the new version", fa.where())
    vdef = [s for s in fa.stmts(ast.Assign) if A.norm(s.value) == "self._recompute_version()"]
    ok_v = len(vdef) == 1 and len(fa.calls("_recompute_version")) == 1 and len(vdef[0].targets) == 1 and isinstance(vdef[0].targets[0], ast.Name)
    ck.ob(R, fa.key(None, "version-is-recomputed"), ok_v, "`version` is the freshly recomputed version" if ok_v else
          "`version` is not assigned from self._recompute_version() exactly once", fa.where())
    # (d) the reference for a version is in place BEFORE that version is published: every assignment to _calculated_version
    # has passed an _update_fn_reference call that was given the very value assigned.  (The other order leaves a window in
    # which another thread finds the new version, concludes the reference is current and addresses the old version's
    # entries - D50.)
    asg = [s for s in fa.stmts(ast.Assign) if any(A.dotted(t) == "self._calculated_version" for t in s.targets)]
    upd_calls = fa.calls("_update_fn_reference")
    ok_d = bool(asg)
    why_d = "the calculated version can change without rebuilding the function reference: calls keep addressing the old version's entries"
    for s in asg:
        for i in fa.nodes(s):
            same = [c for c in upd_calls if c.args and fa.nodes(c) and fa.xnorm(c.args[0], fa.nodes(c)[0]) == fa.xnorm(s.value, i)]
            before = fa.nodes_all(same)
            if not before or not cfg.must_pass(before, i):
                ok_d = False
                if fa.nodes_all(upd_calls) and cfg.exit not in cfg.reach([i], removed=fa.nodes_all(upd_calls), include_start=False):
                    why_d = ("the new version is stored before the reference for it is built: a second thread that recomputes the same version in "
                             "that window finds it in place, keeps the previous reference and is served the old edition's stored result")
    ck.ob(R, fa.key(None, "reference-refreshed"), ok_d, "the function reference is rebuilt, for the very version, before the calculated version is set" if ok_d else why_d, fa.where())
    # a version is only ever adopted from this instance's own evaluation of its rules: an instance
    # that never evaluated them (unregistered wrapper, fresh object) cannot vouch that nothing changed
    for s_ in asg:
        d_ = fa.deps(s_.value)
        own = "call:_recompute_version" in d_
        ck.ob(R, fa.key(s_, "version-from-own-evaluation"), own, "the calculated version comes from this instance's own recomputation" if own else
              "`%s` adopts a version from the shared cache without evaluating any rule: an unregistered wrapper (empty rule list) keeps that "
              "version for ever, also after a tracked variable changed" % A.short(s_, 60), fa.where(s_))
    # a recomputed version that differs from the calculated one is adopted: every path through the recomputation
    # either found them equal or assigns the calculated version (from the recomputation) afterwards
    asn = set(fa.nodes_all([s_ for s_ in asg if "call:_recompute_version" in fa.deps(s_.value)]))
    ok_n = len(by_role.get("same-version", [])) == 1 and bool(asn)
    for (pth, lits) in paths:
        i_rec = first(pth, recs)
        if i_rec is not None and ok_n and lits.get(by_role["same-version"][0]) is not True and first(pth, asn, i_rec) is None:
            ok_n = False
    ck.ob(R, fa.key(None, "adopts-new-version"), ok_n, "a differing recomputed version is adopted" if ok_n else
          "the updater does not compare the calculated version with the recomputed one", fa.where())
    # (e) locked-cluster early exit guarded by 'already has a calculated version'
    lt = test_node(T_LOCK)
    locked_paths = [(pth, lits) for (pth, lits) in paths if lits.get(T_LOCK) is True and first(pth, recs) is None]
    ok_e = bool(locked_paths) and all(lits.get("self._calculated_version is None") is False for (pth, lits) in locked_paths)
    ck.ob(R, fa.key(lt, "locked-needs-version"), ok_e, "a locked cluster freezes only an already calculated version" if ok_e else
          "the locked-cluster exit is not guarded by `self._calculated_version is not None`: a never-computed version stays None", fa.where(lt))
    # registration bumps the generation before registering
    ini = FA(ck, MF + ".__init__")
    inc = ini.nodes_all(ini.calls("increment_global_fn_generation"))
    reg = ini.nodes_all(ini.calls("register_function"))
    ok_r = bool(inc) and bool(reg) and all(ini.cfg.must_pass(inc, i) for i in reg)
    # (registering implies bumping is what must_pass says; the bump needs no particular guard of its own)
    ck.ob(R, ini.key(None, "registration-bumps"), ok_r, "defining a function bumps the generation before it is registered" if ok_r else
          "a newly defined function does not bump the global generation: other functions keep versions computed before it existed", ini.where())
    uf = FA(ck, MF + "._update_fn_reference")
    fr = uf.calls("FunctionReference")
    FRI = "reference.FunctionReference.__init__"

    def fr_arg(name):
        a_ = _call_arg(ck, fr[0], FRI, name)
        return uf.xnorm(a_, uf.nodes(fr[0])[0]) if a_ is not None and uf.nodes(fr[0]) else None

    vparam = [p_ for p_ in uf.fi.params if p_ != "self"]
    okf = len(fr) == 1 and len(vparam) == 1 and fr_arg("version") == vparam[0] and fr_arg("cluster_name") == "self.cluster_name" \
        and fr_arg("partial_args") == "self.partial_args" and fr_arg("partial_kwargs") == "self.partial_kwargs" \
        and any(A.dotted(t) == "self._fn_reference" for s_ in uf.stmts(ast.Assign) for t in s_.targets)
    ck.ob(R, uf.key(None, "reference-from-current-version"), okf, "the reference is rebuilt with the version it is handed and the partials" if okf else
          "_update_fn_reference does not rebuild FunctionReference(self, cluster, version=<the version handed in>, partials): asking "
          "self.version() here re-enters the updater while the new version is not in place yet", uf.where())
    # the explicit-version branch hands the declared version
    okx = all(c.args and fa.nodes(c) and fa.xnorm(c.args[0], fa.nodes(c)[0]) in ("self.explicit_version", fa.xnorm(a_.value, fa.nodes(a_)[0]))
              for c in upd_calls for a_ in (asg or [None]) if a_ is not None) if asg else False
    ck.ob(R, fa.key(None, "reference-for-declared-or-computed-version"), okx, "the reference is built for the declared version or the one just computed" if okx else
          "_update_fn_reference is handed something other than the declared version or the version being published", fa.where())
    vv = FA(ck, MF + ".version")
    # wherever the answer is read from the calculated version (directly in a return, or into a result variable
    # that is returned), that read comes after the refresh
    upd_n = vv.nodes_all(vv.calls("_update_dependencies"))
    reads = [(e, a) for r in vv.returns() if r.value is not None for i_ in vv.nodes(r) for (e, a) in _alternatives(vv, r.value, i_)
             if any(isinstance(x, ast.Attribute) and A.norm(x) == "self._calculated_version" for x in ast.walk(e))]
    okv = bool(upd_n) and bool(reads) and all(vv.cfg.must_pass(upd_n, a) for (e, a) in reads)
    ck.ob(R, vv.key(None, "version-refreshes"), okv, "version() refreshes before answering the calculated version" if okv else
          "version() can answer the calculated version without refreshing dependencies", vv.where())
    ig = FA(ck, MF + ".increment_global_fn_generation")
    oki = any(isinstance(s, ast.AugAssign) and isinstance(s.op, ast.Add) and A.norm(s.target).endswith("_global_fn_generation") and A.norm(s.value) == "1" for s in ig.stmts(ast.AugAssign))
    ck.ob(R, ig.key(None, "monotone"), oki, "the generation only grows" if oki else "increment_global_fn_generation does not add 1", ig.where())


_CLS_VIA_SELF = re.compile(r"(?:\btype\(self\)|\bself\.__class__)\.(\w+)\b")


def check_locked_freezes_last_definition(ck, R):
    """C03 (D55): what a locked cluster freezes is the version AS OF THE LAST FUNCTION DEFINITION.  The version of a function is
    first computed while the function is being registered, when the functions defined after it do not exist yet; a locked
    cluster that kept that version would make it depend on the order of the definitions.  Three parts, each decided by role:
      (1) the exit that keeps the version because the cluster is locked is reached only under a comparison that implies
          `stamp of this version >= generation of the last definition` (or >= the current generation, which is never smaller);
      (2) the generation of the last definition is recorded, from the current generation and after the bump, on every way to
          the registration of a function, and is never given another value;
      (3) the stamp is given the current generation on every path through the recomputation (after the last bump of that
          path), and elsewhere only where the version was confirmed for the current generation."""
    ck.rule(R, "a locked cluster freezes the version as of the last function definition: the locked early exit is taken only for a "
               "version stamped at or after the generation recorded when the last function was registered; that generation is recorded "
               "at registration; the stamp is set when the version is computed", 4)
    fa = FA(ck, MF + "._update_dependencies")
    cfg = fa.cfg
    recs = set(fa.nodes_all(fa.calls("_recompute_version")))
    ck.need(recs, "_update_dependencies: _recompute_version call not found")
    paths = _exit_paths(fa)
    ck.need(paths is not None, "_update_dependencies: too many paths")
    GEN = "MementoFunction._global_fn_generation"

    def cls_text(t):
        t = _CLS_VIA_SELF.sub(r"MementoFunction.\1", t)
        return re.sub(r"\bself\.(_global_fn_generation)\b", r"MementoFunction.\1", t)

    # class-level counters that registration sets from the current generation
    ini = FA(ck, MF + ".__init__")
    recorded = {}   # attribute -> [assignment statements in __init__]
    for s_ in ini.stmts(ast.Assign):
        if not ini.nodes(s_):
            continue
        at_ = ini.nodes(s_)[0]
        for t in s_.targets:
            if isinstance(t, ast.Attribute) and re.fullmatch(r"MementoFunction|type\(self\)|self\.__class__|cls", ini.xnorm(t.value, at_) or "") \
                    and cls_text(ini.xnorm(s_.value, at_)) == GEN:
                recorded.setdefault(t.attr, []).append(s_)

    # ... or that a method of the class called by the registration sets from it, on the conditions this very call satisfies
    # (`increment_global_fn_generation(reason, definition=True)`): the call stands for the assignment then
    recorded_by_call = {}   # attribute -> [(call in __init__, the bump happens inside the callee before the recording)]
    owner = ck.repo.cls(MF)
    for c in ini.calls():
        rc, nm = A.call_recv(c), A.call_attr(c)
        m = owner.methods.get(nm or "")
        if rc is None or m is None or nm == "__init__" or not ini.nodes(c) or \
                not re.fullmatch(r"MementoFunction|type\(self\)|self\.__class__|self|cls", ini.xnorm(rc, ini.nodes(c)[0]) or ""):
            continue
        fx = FA(ck, m)
        me = m.params[0] if m.params and not m.is_static else None

        def own(t, _me=me):
            return re.sub(r"\b%s\." % re.escape(_me), "MementoFunction.", cls_text(t)) if _me else cls_text(t)

        bumps = [b for b in fx.stmts(ast.AugAssign) if fx.nodes(b) and own(A.norm(b.target)) == GEN] + \
            [b for b in fx.calls("increment_global_fn_generation") if fx.nodes(b)]
        for s_ in fx.stmts(ast.Assign):
            if not fx.nodes(s_) or own(fx.xnorm(s_.value, fx.nodes(s_)[0])) != GEN:
                continue
            for t in s_.targets:
                if not (isinstance(t, ast.Attribute) and own(A.norm(t.value) + ".x") == "MementoFunction.x"):
                    continue
                dnf = fx.conditions(s_)
                if dnf is None:
                    continue
                holds = False
                for conj in dnf:
                    okc = True
                    for (txt, pol) in conj:
                        a_ = _call_arg(ck, c, m.qual, txt) if txt in m.params else None
                        okc = okc and isinstance(a_, ast.Constant) and bool(a_.value) == pol
                    holds = holds or okc
                if holds:
                    inside = bool(bumps) and all(fx.cfg.must_pass(fx.nodes_all(bumps), i) for i in fx.nodes(s_))
                    recorded_by_call.setdefault(t.attr, []).append((c, inside))
    for k_ in recorded_by_call:
        recorded.setdefault(k_, [])

    def is_locked(text):
        e = _parse_lit(text)
        return isinstance(e, ast.Attribute) and e.attr == "locked" and "get_cluster(" in text

    def stamp_relation(text, pol):
        """(stamp field, counter, operator as `stamp OP counter`) for a literal that compares a field of the instance with a
        class-level generation counter, read with the polarity it has on the path."""
        e = _parse_lit(cls_text(text))
        if not (isinstance(e, ast.Compare) and len(e.ops) == 1):
            return None
        l_, r_ = e.left, e.comparators[0]
        op = type(e.ops[0]).__name__

        def inst(x):
            return x.attr if isinstance(x, ast.Attribute) and isinstance(x.value, ast.Name) and x.value.id == "self" else None

        def counter(x):
            return x.attr if isinstance(x, ast.Attribute) and isinstance(x.value, ast.Name) and x.value.id == "MementoFunction" else None

        if inst(l_) and counter(r_):
            fld, cnt = inst(l_), counter(r_)
        elif inst(r_) and counter(l_):
            fld, cnt = inst(r_), counter(l_)
            op = {"Gt": "Lt", "Lt": "Gt", "GtE": "LtE", "LtE": "GtE"}.get(op, op)
        else:
            return None
        if not pol:
            op = {"Gt": "LtE", "LtE": "Gt", "Lt": "GtE", "GtE": "Lt", "Eq": "NotEq", "NotEq": "Eq"}.get(op)
        return (fld, cnt, op)

    def first(path, nodes, after=-1):
        for i_, x in enumerate(path):
            if i_ > after and x in nodes:
                return i_
        return None

    locked_paths = [(pth, lits) for (pth, lits) in paths if first(pth, recs) is None and any(is_locked(t) and pol for t, pol in lits.items())]
    ck.need(locked_paths, "_update_dependencies: no exit for a locked cluster found")
    lock_test = None
    for n_ in cfg.nodes:
        if lock_test is None and n_.kind == "test" and n_.id in cfg.reachable_nodes() and any(is_locked(t) for (t, _p) in fa._atoms(n_.ast, n_.id, True)):
            lock_test = n_.ast
    guards = set()
    unguarded = None
    for (pth, lits) in locked_paths:
        rel = [r for r in (stamp_relation(t, pol) for t, pol in lits.items()) if r is not None
               and r[2] in ("GtE", "Gt", "Eq") and (r[1] in recorded or "MementoFunction." + r[1] == GEN)]
        if rel:
            guards.update((r[0], r[1]) for r in rel)
        else:
            unguarded = unguarded or (pth, lits)
    ok1 = unguarded is None and len(guards) == 1
    if unguarded is not None:
        seen_rel = sorted({"self.%s %s MementoFunction.%s" % (r[0], r[2], r[1]) for (_p, lits) in locked_paths
                           for r in (stamp_relation(t, pol) for t, pol in lits.items()) if r is not None})
        why1 = ("the exit for a locked cluster is taken for ANY calculated version%s: the version computed while the function was being registered "
                "(before the functions defined after it existed) is frozen, so the same program gets different versions for different definition "
                "orders, and a function defined before its callee keeps rules without the callee%s"
                % ("" if not seen_rel else " (the comparison on the way there reads `%s`, which does not say the version is at least as recent as the last definition)" % "; ".join(seen_rel),
                   ": path %s" % cfg.describe_path(unguarded[0])))
    else:
        why1 = "the locked exit compares more than one stamp / counter pair: %s" % sorted(guards)
    ck.ob(R, fa.key(lock_test, "locked-exit-only-for-version-as-of-last-definition"), ok1,
          "the locked exit is taken only for a version stamped at or after the last definition" if ok1 else why1, fa.where(lock_test))
    if not ok1:
        return
    (stamp, counter_name) = next(iter(guards))
    # (2) the counter is recorded at registration
    if "MementoFunction." + counter_name != GEN:
        regs = ini.nodes_all(ini.calls("register_function"))
        incs = ini.nodes_all(ini.calls("increment_global_fn_generation"))
        by_call = recorded_by_call.get(counter_name, [])
        asn = ini.nodes_all(recorded.get(counter_name, [])) + ini.nodes_all([c for (c, _in) in by_call])
        bumped_inside = set(ini.nodes_all([c for (c, inside) in by_call if inside]))
        ok2 = bool(regs) and bool(asn) and all(ini.cfg.must_pass(asn, i) for i in regs) and bool(incs) \
            and all(a in bumped_inside or ini.cfg.must_pass(incs, a) for a in asn)
        # no bump between the recording and the registration
        if ok2:
            for a in asn:
                between = ini.cfg.reach([a], include_start=False)
                if any(i != a and i in between and any(r in ini.cfg.reach([i], include_start=False) for r in regs) for i in incs):
                    ok2 = False
        ck.ob(R, ini.key(None, "last-definition-recorded"), ok2, "registration records the generation of the definition, after the bump" if ok2 else
              "a function can be registered without `MementoFunction.%s` having been set to the generation of this definition (after the bump): "
              "the locked exit then takes versions computed before this function existed for current" % counter_name, ini.where())
        # nobody gives the counter another value
        mod = ck.repo.module("memento")
        for fi in mod.all_funcs():
            for s_ in ast.walk(fi.node):
                tg = s_.targets if isinstance(s_, ast.Assign) else [s_.target] if isinstance(s_, (ast.AugAssign, ast.AnnAssign)) else []
                for t in tg:
                    if isinstance(t, ast.Attribute) and t.attr == counter_name and _direct_parent_func_is(fi, s_):
                        me_ = fi.params[0] if fi.is_classmethod and fi.params else None

                        def own_(t_, _me=me_):
                            return re.sub(r"\b%s\." % re.escape(_me), "MementoFunction.", cls_text(t_)) if _me else cls_text(t_)

                        okw = isinstance(s_, ast.Assign) and own_(A.norm(s_.value)) == GEN or (fi.qual == MF + ".__init__" and s_ in recorded.get(counter_name, []))
                        if not okw:
                            fx = FA(ck, fi)
                            okw = isinstance(s_, ast.Assign) and bool(fx.nodes(s_)) and own_(fx.xnorm(s_.value, fx.nodes(s_)[0])) == GEN
                            ck.ob(R, fx.key(s_, "last-definition-only-from-generation"), okw, "the counter is set from the current generation" if okw else
                                  "`%s` gives the generation of the last definition a value other than the current generation: versions older than the "
                                  "last definition pass the locked exit" % A.short(s_, 60), fx.where(s_))
    # (3) the stamp
    stamp_asg = [s_ for s_ in fa.stmts(ast.Assign) if fa.nodes(s_) and any(A.dotted(t) == "self." + stamp for t in s_.targets)]
    cur = set()
    for s_ in stamp_asg:
        for i in fa.nodes(s_):
            if cls_text(fa.xnorm(s_.value, i)) == GEN:
                cur.add(i)
    incs_u = set(fa.nodes_all(fa.calls("increment_global_fn_generation")))
    bad3 = None
    for (pth, lits) in paths:
        i_rec = first(pth, recs)
        if i_rec is None:
            continue
        last_inc = max([k for k, x in enumerate(pth) if x in incs_u], default=-1)
        if first(pth, cur, last_inc) is None:
            bad3 = bad3 or pth
    ok3 = bool(cur) and bad3 is None
    ck.ob(R, fa.key(None, "stamp-set-when-computed"), ok3, "every recomputation stamps the version with the current generation" if ok3 else
          "a recomputed version is not stamped with the current generation (`self.%s`)%s: in a locked cluster the version is recomputed on every "
          "query, or - if the stamp keeps an earlier, larger value - a version older than the last definition is frozen"
          % (stamp, (": path %s" % cfg.describe_path(bad3)) if bad3 else ""), fa.where())
    # elsewhere the stamp is set only where the version was confirmed for the current generation
    gen_eq = [t for (_p, lits) in paths for t in lits
              if isinstance(_parse_lit(t), ast.Compare) and isinstance(_parse_lit(t).ops[0], ast.Eq) and GEN in cls_text(t) and "_global_fn_version_cache" in t]
    # the field of a cache entry that the generation test compares with the current generation
    gen_fields = set()
    for t in gen_eq:
        e_ = _parse_lit(cls_text(t))
        for side in (e_.left, e_.comparators[0]):
            if isinstance(side, ast.Attribute) and "_global_fn_version_cache" in A.norm(side):
                gen_fields.add(side.attr)

    def entry_generation(v_, at_):
        """`<the cache entry>.<generation field>`, the entry read from the version cache on the spot or through a local"""
        if not (isinstance(v_, ast.Attribute) and v_.attr in gen_fields):
            return False
        if isinstance(v_.value, ast.Name):
            return any(d.value is not None and "_global_fn_version_cache" in cls_text(fa.xnorm(d.value, d.node)) for d in fa.df.reaching(at_, v_.value.id))
        return "_global_fn_version_cache" in cls_text(fa.xnorm(v_.value, at_))

    for s_ in stamp_asg:
        ns = set(fa.nodes(s_))
        okc = True
        for (pth, lits) in paths:
            if not (ns & set(pth)) or first(pth, recs) is not None:
                continue
            at_ = next(i for i in pth if i in ns)
            val = cls_text(fa.xnorm(s_.value, at_))
            confirmed = any(lits.get(t) is True for t in gen_eq)
            if not (confirmed and (val == GEN or ("_global_fn_version_cache" in val and any(val in cls_text(t) for t in gen_eq)) or entry_generation(s_.value, at_))):
                okc = False
        ck.ob(R, fa.key(s_, "stamp-only-when-current"), okc, "the stamp is set where the version is computed or confirmed for the current generation" if okc else
              "`%s` stamps a version that was neither recomputed nor confirmed (cache entry of the current generation, no rule changed) on that "
              "path: a version from before the last definition passes the locked exit" % A.short(s_, 60), fa.where(s_))
    mod = ck.repo.module("memento")
    for fi in mod.all_funcs():
        if fi.qual == MF + "._update_dependencies":
            continue
        for s_ in ast.walk(fi.node):
            tg = s_.targets if isinstance(s_, ast.Assign) else [s_.target] if isinstance(s_, (ast.AugAssign, ast.AnnAssign)) else []
            for t in tg:
                if isinstance(t, ast.Attribute) and t.attr == stamp and _direct_parent_func_is(fi, s_):
                    v_ = getattr(s_, "value", None)
                    neg = isinstance(v_, ast.UnaryOp) and isinstance(v_.op, ast.USub) and isinstance(v_.operand, ast.Constant) and isinstance(v_.operand.value, int) and v_.operand.value > 0
                    fx = FA(ck, fi)
                    ck.ob(R, fx.key(s_, "stamp-written-by-updater-only"), neg and isinstance(s_, ast.Assign),
                          "the stamp is reset to 'never'" if neg else
                          "`%s` in %s sets the stamp of the calculated version outside the version updater: the locked exit trusts a stamp nobody vouches for"
                          % (A.short(s_, 60), fi.qual), fx.where(s_))


def _direct_parent_func_is(fi, stmt):
    """`stmt` belongs to `fi` itself and not to a function nested in it"""
    for n in ast.walk(fi.node):
        if n is not fi.node and isinstance(n, (ast.FunctionDef, ast.AsyncFunctionDef, ast.Lambda)):
            if any(x is stmt for x in ast.walk(n)):
                return False
    return True


def _rule_identity_fields(ck):
    base = ck.repo.cls(CH + ".HashRule")
    out = None
    for nm in ("__eq__", "__hash__"):
        m = base.methods.get(nm)
        ck.need(m is not None, "HashRule.%s not found" % nm)
        at = {n.attr for r in A.walk_body(m.node) if isinstance(r, ast.Return) and r.value is not None
              for n in ast.walk(r.value) if isinstance(n, ast.Attribute) and isinstance(n.value, ast.Name)}
        out = at if out is None else out & at
    return out or set()


def _key_expr(ck, cls):
    init = cls.methods.get("__init__")
    if init is None:
        return None, None
    fa = FA(ck, init)
    for c in fa.calls("__init__"):
        k = A.kwarg(c, "key") or (c.args[0] if c.args else None)
        if k is not None:
            return fa, k
    return fa, None


def _symbol_directly_in(k):
    """`symbol` is a direct operand of the key's format / concatenation (not handed to a helper that
    may or may not use it)."""
    if isinstance(k, ast.Call) and A.call_attr(k) == "format":
        return any(isinstance(a, ast.Name) and a.id == "symbol" for a in k.args)
    if isinstance(k, ast.JoinedStr):
        return any(isinstance(v, ast.FormattedValue) and A.norm(v.value) == "symbol" for v in k.values)
    if isinstance(k, ast.BinOp):
        return _symbol_directly_in(k.left) or _symbol_directly_in(k.right)
    return isinstance(k, ast.Name) and k.id == "symbol"


def check_bindings(ck, R):
    """A rule is reached through a SYMBOL and tracks the OBJECT behind it.  (1) every binding used by
    the function needs its own watcher: if two symbols bound to one object collapse into one rule,
    re-binding the other symbol is never noticed.  (2) which symbol is bound to which object is part
    of the digest: either the key orders by symbol, or the hashed piece depends on the symbol."""
    ident = _rule_identity_fields(ck)
    for cls in hash_rule_classes(ck):
        dc = cls.methods.get("did_change")
        if dc is None:
            continue
        uses_resolver = any(A.call_attr(c) in ("resolver", "ref_resolver") for c in A.body_calls(dc.node)) or \
            any(isinstance(n, ast.Attribute) and n.attr == "symbol" for n in ast.walk(dc.node))
        if not uses_resolver:
            continue
        fa, k = _key_expr(ck, cls)
        ck.need(k is not None, "%s: rule key expression not found" % cls.qual)
        by_symbol = _symbol_directly_in(k)
        ok1 = by_symbol or "symbol" in ident
        ck.ob(R, cls.qual + "::every-binding-watched", ok1,
              "rules of this kind are distinct per symbol (%s)" % ("key embeds the symbol" if by_symbol else "identity %s" % sorted(ident)) if ok1 else
              "%s rules are identified by `%s` (identity fields %s), which names the object and not the symbol: with `g2 = g` and a caller using both, "
              "one rule with one resolver survives in the rule set, so re-binding the other name in a running process is never noticed and the "
              "old result is served" % (cls.name, A.short(k, 70), sorted(ident)), fa.where(k))
        ch = cls.methods.get("compute_hash")
        const_none = ch is not None and all(isinstance(r.value, ast.Constant) and r.value.value is None for r in A.walk_body(ch.node) if isinstance(r, ast.Return) and r.value is not None)
        in_hash = ch is not None and any(isinstance(n, ast.Attribute) and n.attr == "symbol" for n in ast.walk(ch.node))
        ok2 = by_symbol or in_hash or const_none
        ck.ob(R, cls.qual + "::binding-in-digest", ok2,
              "the digest distinguishes which symbol is bound to which object" if ok2 else
              "%s: the rule key `%s` names the object reached and the hashed piece (compute_hash) does not depend on the symbol, so the version covers "
              "only the SET of objects reached, not which name is bound to which: swapping two aliases (a = g; b = h -> a = h; b = g) leaves the "
              "version unchanged and the stored result is served" % (cls.name, A.short(k, 70)), fa.where(k))


_NARROWING_CALLS = {"len", "type", "bool", "callable", "isinstance", "issubclass", "hasattr", "str", "repr"}


def _literal_sites(fa):
    """literal text -> (expression, CFG node) for every expression of the function that can become a literal of a path"""
    out = {}
    for st in fa.stmts():
        ns = fa.nodes(st)
        if not ns:
            continue
        roots = [st.test] if isinstance(st, (ast.If, ast.While)) else [st.iter] if isinstance(st, (ast.For, ast.AsyncFor)) else \
            [] if isinstance(st, (ast.Try, ast.With, ast.FunctionDef, ast.AsyncFunctionDef, ast.ClassDef)) else [st]
        for rt in roots:
            for x in A.walk_local(rt):
                if isinstance(x, (ast.Compare, ast.Call, ast.Name, ast.Attribute, ast.Subscript)) and not isinstance(getattr(x, "ctx", None), (ast.Store, ast.Del)):
                    try:
                        out.setdefault(fa._literal(x, ns[0], True)[0], (x, ns[0]))
                    except AnalysisError:
                        pass
    return out


def _access_paths(fa, e, at, _seen=None, depth=12):
    """How the fresh resolution of a rule's symbol (`self.resolver()` / `self.ref_resolver()`) and the state the rule captured
    (`self.<field>`) reach the value of `e`: a set of (root, path, frozen) with root 'fresh' or 'cap:<field>' and path the
    attribute names / '[]' / '<fn>()' steps that NARROW the object on the way (frozen: falsy, True, or the name of the function
    the object was handed to as a whole).  Looking through decorator wrappers
    (`.__wrapped__`) is not a step; a call that transforms the value as a whole freezes the path (what is done to its result
    says nothing about parts of the object).  Locals are followed to every definition that reaches them."""
    seen = _seen if _seen is not None else set()
    out = set()
    if e is None or depth <= 0:
        return out

    def ext(ps, step):
        return {(r_, p_ if fz or step == "__wrapped__" else p_ + (step,), fz) for (r_, p_, fz) in ps}

    def rec(x, a_=at):
        return _access_paths(fa, x, a_, seen, depth - 1)

    if isinstance(e, ast.Call):
        nm, rc = A.call_attr(e), A.call_recv(e)
        if nm in ("resolver", "ref_resolver") and isinstance(rc, ast.Name) and rc.id == "self":
            return {("fresh", (), False)}
        if nm == "getattr" and isinstance(e.func, ast.Name) and len(e.args) >= 2 and A.const_str(e.args[1]) is not None:
            return ext(rec(e.args[0]), A.const_str(e.args[1]))
        if isinstance(e.func, ast.Name) and nm in _NARROWING_CALLS and e.args:
            return {(r_, p_, _f or True) for (r_, p_, _f) in ext(rec(e.args[0]), nm + "()")}
        if isinstance(e.func, ast.Name) and nm == "id" and len(e.args) == 1 and not e.keywords:
            return rec(e.args[0])       # equal ids <=> the same object: neither a step nor a transformation
        # the frozen mark of a value handed to a call as a whole is the name of the (innermost) function it went through
        for x in list(e.args) + [k.value for k in e.keywords] + ([rc] if rc is not None else []):
            out |= {(r_, p_, _f or nm or True) for (r_, p_, _f) in rec(x.value if isinstance(x, ast.Starred) else x)}
        return out
    if isinstance(e, ast.Attribute):
        if isinstance(e.value, ast.Name) and e.value.id == "self":
            return {("cap:" + e.attr, (), False)}
        return ext(rec(e.value), e.attr)
    if isinstance(e, ast.Subscript):
        return ext(rec(e.value), "[]")
    if isinstance(e, ast.Name):
        if at is None or not isinstance(e.ctx, ast.Load):
            return out
        for d in fa.df.reaching(at, e.id):
            if d.value is None or d.kind not in ("assign", "aug") or (d.node, d.name) in seen:
                continue
            seen.add((d.node, d.name))
            out |= rec(d.value, d.node)
        return out
    if isinstance(e, ast.IfExp):
        return rec(e.body) | rec(e.orelse)
    if isinstance(e, (ast.Lambda, ast.ListComp, ast.SetComp, ast.DictComp, ast.GeneratorExp)):
        # what is computed element by element: everything read inside counts, as a transformed value
        for ch in ast.iter_child_nodes(e):
            for x in ast.walk(ch):
                if isinstance(x, (ast.Call, ast.Attribute, ast.Name)):
                    out |= {(r_, p_, _f or True) for (r_, p_, _f) in _access_paths(fa, x, at, seen, 2)}
        return out
    for ch in ast.iter_child_nodes(e):
        if isinstance(ch, ast.expr):
            out |= rec(ch)
    return out


def _hashed_paths(ck, cls, with_transform=False):
    """What compute_hash reads of the state the rule captured: {(field, path)}; empty when the rule contributes nothing."""
    m = cls.methods.get("compute_hash")
    out = set()
    if m is None:
        return out
    fa = FA(ck, m)
    for r in fa.returns():
        if r.value is None or A.is_none(r.value) or not fa.nodes(r):
            continue
        for (root, path, fz) in _access_paths(fa, r.value, fa.nodes(r)[0]):
            if root.startswith("cap:"):
                out.add((root[4:], path, fz) if with_transform else (root[4:], path))
    return out


def _descended_paths(ck, cls):
    """What the rule reads of the state it captured when it collects the rules below it (collect_transitive_dependencies):
    {(field, path, frozen)} with `frozen` the function the object is handed to as a whole.  The rules of the names used by a
    function, the table those names are looked up in and the scope test are all derived from the captured object here, so
    they are part of what 'unchanged' vouches for, exactly as the hashed piece is."""
    m = cls.methods.get("collect_transitive_dependencies")
    out = set()
    if m is None:
        return out
    fa = FA(ck, m)
    for st in fa.stmts():
        ns = fa.nodes(st)
        if not ns:
            continue
        if isinstance(st, (ast.Assign, ast.AnnAssign)) and all(isinstance(t, ast.Name) for t in (st.targets if isinstance(st, ast.Assign) else [st.target])):
            continue    # a local: judged where it is used
        roots = [st.test] if isinstance(st, (ast.If, ast.While)) else [st.iter] if isinstance(st, (ast.For, ast.AsyncFor)) else \
            [i.context_expr for i in st.items] if isinstance(st, (ast.With, ast.AsyncWith)) else \
            [] if isinstance(st, (ast.Try, ast.FunctionDef, ast.AsyncFunctionDef, ast.ClassDef)) else \
            [x for x in ast.iter_child_nodes(st) if isinstance(x, ast.expr)]
        for rt in roots:
            for (root, path, fz) in _access_paths(fa, rt, ns[0]):
                if root.startswith("cap:"):
                    out.add((root[4:], path, fz))
    return out


def _without_bool(e):
    """`bool(E)` as an answer / a test is `E` (a copy is made when something is taken out)"""
    if e is None or not any(isinstance(x, ast.Call) and isinstance(x.func, ast.Name) and x.func.id == "bool" for x in ast.walk(e)):
        return e
    import copy

    class T(ast.NodeTransformer):
        def visit_Call(self, n):
            self.generic_visit(n)
            if isinstance(n.func, ast.Name) and n.func.id == "bool" and len(n.args) == 1 and not n.keywords and not isinstance(n.args[0], ast.Starred) \
                    and isinstance(n.args[0], (ast.Compare, ast.BoolOp, ast.UnaryOp, ast.IfExp)):
                return n.args[0]
            return n
    return ast.fix_missing_locations(T().visit(copy.deepcopy(e)))


def _prune_constant_literals(ways):
    """A constant among the literals of a way (`False if same else True`): the way is impossible when the constant would have to
    come out the other way, and says nothing more when it comes out as it must."""
    out = []
    for w in ways:
        keep = []
        for (t, pol) in w:
            c = _parse_lit(t)
            if isinstance(c, ast.Constant) and (isinstance(c.value, (bool, int, str)) or c.value is None):
                if bool(c.value) != pol:
                    keep = None
                    break
                continue
            keep.append((t, pol))
        if keep is not None:
            out.append(keep)
    return out


def _fmt_path(field, path):
    return "self." + field + "".join(("." + s_ if not s_.endswith(("()", "]")) else " -> " + s_) for s_ in path)


def check_did_change(ck, R):
    ck.rule(R, "change detection is real: each did_change compares a fresh resolution (or a fresh presence test) with "
               "state captured when the rule was built, and answers 'unchanged' only when that comparison covers everything "
               "the rule's hash is computed from", 4)
    want = {
        "MementoFunctionHashRule": ("memento_fn",),
        "NonMementoFunctionHashRule": ("src_fn",),
        "GlobalVariableHashRule": ("last_value",),
        "UndefinedSymbolHashRule": ("ref", "attr_name"),
        "UnhashedSymbolHashRule": ("ref",),
    }
    for cls in hash_rule_classes(ck):
        m = cls.methods.get("did_change")
        ck.need(m is not None, "%s.did_change not found" % cls.qual)
        fa = FA(ck, m)
        cfg = fa.cfg
        captured = want.get(cls.name, ())
        presence = cls.name == "UndefinedSymbolHashRule"
        watch_only = _is_watch_only(cls)
        # the answer False without a comparison is allowed only when nothing is tracked
        allowed_false_guard = {"GlobalVariableHashRule": (("self.last_value is None", True),)}.get(cls.name, ())
        hashed = _hashed_paths(ck, cls)
        # everything the rule derives from the state it captured: the hashed piece and the rules below it
        derived = {d_ for d_ in _hashed_paths(ck, cls, True) | _descended_paths(ck, cls) if d_[0] in captured}

        def covers(e_, d_):
            """does equality of access `e_` (one side of the comparison) vouch for the derived use `d_`?  A part compared
            directly vouches for everything read below it; a value compared only as seen through a function (`f(new) == f(old)`)
            vouches for `f(old)` and nothing else."""
            (r_, p_, z_), (_fl, q_, dz_) = e_, d_
            if isinstance(z_, str) and r_ != "fresh":
                return dz_ == z_ and q_ == p_
            return q_[:len(p_)] == p_

        paths = _exit_paths(fa)
        ck.need(paths is not None, "%s.did_change: too many paths" % cls.qual)
        # The function is judged on its PATH CLASSES: every acyclic path to the normal exit with the literals of the branch
        # tests taken on it (locals expanded, negations / nesting / guard clauses / result flags normalised away) and the
        # value returned at its end - a constant, or an expression split into the ways it can come out false.

        where_lit = _literal_sites(fa)

        def strategy_scan(x, at):
            """does expression `x` ask the rule strategies (HashRule.all_rules) whether they can hash the fresh object?"""
            for c in ast.walk(x):
                if isinstance(c, (ast.GeneratorExp, ast.ListComp, ast.SetComp)) and len(c.generators) == 1 \
                        and fa.xnorm(c.generators[0].iter, at).endswith("HashRule.all_rules"):
                    for t in ast.walk(c):
                        if isinstance(t, ast.Call) and A.call_attr(t) == "try_resolve" and any(
                                r_ == "fresh" for a_ in list(t.args) + [k.value for k in t.keywords] for (r_, _p, _f) in _access_paths(fa, a_, at)):
                            return True
            return False

        lit_info = {}

        def info(text):
            """what one literal says: {'kind': 'cmp' | 'presence' | 'scan' | 'strategy-none' | None, ...}"""
            if text in lit_info:
                return lit_info[text]
            (e, at) = where_lit.get(text, (_parse_lit(text), None))
            res = {"kind": None}
            if isinstance(e, ast.Compare) and len(e.ops) == 1:
                lp_, rp_ = _access_paths(fa, e.left, at), _access_paths(fa, e.comparators[0], at)
                op = e.ops[0]
                if isinstance(op, (ast.Is, ast.IsNot, ast.Eq, ast.NotEq)):
                    for (a_, b_) in ((lp_, rp_), (rp_, lp_)):
                        fr = {x for x in a_ if x[0] == "fresh"}
                        cp = {x for x in b_ if x[0].startswith("cap:") and x[0][4:] in captured}
                        if fr and cp:
                            narrow = sorted({p_ + ((z_ + "()",) if isinstance(z_, str) and r_ != "fresh" else ()) for (r_, p_, z_) in fr | cp
                                             if any(not covers((r_, p_, z_), d_) for d_ in derived)})
                            missing = sorted({_fmt_path(d_[0], d_[1]) + (" (handed to %s)" % d_[2] if isinstance(d_[2], str) else "")
                                              for d_ in derived for e_ in fr | cp if not covers(e_, d_)})
                            res = {"kind": "cmp", "covering": not narrow, "narrow": narrow, "missing": missing}
                            break
                    if res["kind"] is None and A.is_none(e.comparators[0]) and isinstance(op, (ast.Is, ast.IsNot)):
                        fl = _flow(fa, e.left, at) if at is not None else {id(x): x for x in ast.walk(e.left)}
                        if any(isinstance(x, ast.Call) and A.call_attr(x) == "try_resolve" for x in fl.values()):
                            res = {"kind": "strategy-none"}
                if isinstance(op, (ast.In, ast.NotIn)) and presence:
                    sides = lp_ | rp_
                    if any(r_ in ("cap:symbol", "cap:attr_name") for (r_, _p, _f) in lp_) and any(r_ in ("fresh", "cap:ref") for (r_, _p, _f) in rp_):
                        res = {"kind": "presence"}
                    del sides
                if res["kind"] is None and presence and isinstance(op, (ast.Is, ast.IsNot)):
                    # getattr(<object>, <name>, SENTINEL) is SENTINEL: the attribute is absent
                    for (g_, s_) in ((e.left, e.comparators[0]), (e.comparators[0], e.left)):
                        if isinstance(g_, ast.Call) and isinstance(g_.func, ast.Name) and g_.func.id == "getattr" and len(g_.args) == 3 and not g_.keywords \
                                and isinstance(s_, (ast.Name, ast.Attribute)) and A.norm(g_.args[2]) == A.norm(s_) \
                                and any(r_ in ("fresh", "cap:ref") for (r_, _p, _f) in _access_paths(fa, g_.args[0], at)) \
                                and any(r_ in ("cap:symbol", "cap:attr_name") for (r_, _p, _f) in _access_paths(fa, g_.args[1], at)):
                            canon = _parse_lit(text)    # the polarity of a literal refers to its canonical text
                            c_op = canon.ops[0] if isinstance(canon, ast.Compare) and len(canon.ops) == 1 else op
                            res = {"kind": "absence" if isinstance(c_op, ast.Is) else "presence"}
            elif isinstance(e, ast.Call) and A.call_attr(e) == "hasattr" and isinstance(e.func, ast.Name) and len(e.args) == 2 and presence:
                if any(r_ in ("fresh", "cap:ref") for (r_, _p, _f) in _access_paths(fa, e.args[0], at)) \
                        and any(r_ in ("cap:symbol", "cap:attr_name") for (r_, _p, _f) in _access_paths(fa, e.args[1], at)):
                    res = {"kind": "presence"}
            if res["kind"] is None and e is not None and at is not None and strategy_scan(e, at):
                res = {"kind": "scan"}
            lit_info[text] = res
            return res

        def returned(pth):
            """(return statement, value expression or None, CFG node at which it is evaluated) at the end of a path"""
            ret = next((cfg.node(i).ast for i in reversed(pth) if isinstance(cfg.node(i).ast, ast.Return)), None)
            if ret is None or ret.value is None:
                return (ret, None, None)
            val, vnode = ret.value, next(i for i in reversed(pth) if cfg.node(i).ast is ret)
            limit = len(pth)
            for _ in range(6):
                if not isinstance(val, ast.Name):
                    break
                hit = None
                for k in range(limit - 1, -1, -1):
                    ds = [d for d in fa.df.gen.get(pth[k], []) if d.name == val.id]
                    if ds:
                        hit = (k, ds[0])
                        break
                if hit is None or hit[1].kind != "assign" or hit[1].value is None:
                    break
                val, vnode, limit = hit[1].value, pth[hit[0]], hit[0]
            return (ret, val, vnode)

        scan_loops = set()
        for n_ in cfg.nodes:
            if n_.kind == "for" and n_.id in cfg.reachable_nodes() and fa.xnorm(n_.ast.iter, n_.id).endswith("HashRule.all_rules"):
                if any(isinstance(t, ast.Call) and A.call_attr(t) == "try_resolve" and fa.nodes(t) and any(
                        r_ == "fresh" for a_ in list(t.args) + [k.value for k in t.keywords] for (r_, _p, _f) in _access_paths(fa, a_, fa.nodes(t)[0]))
                       for t in A.calls_in(n_.ast)):
                    scan_loops.add(n_.id)

        n_compared = 0          # ways (either answer) that were decided by the comparison
        bad = {}                # id(return stmt) -> (return stmt, [reasons], constant?)
        for (pth, lits) in paths:
            (ret, val, vnode) = returned(pth)
            val = _without_bool(val)
            if isinstance(val, ast.Constant) and val.value is not None:
                ways = None if bool(val.value) else [[]]
            elif val is None or A.is_none(val):
                ways = [[]]
            else:
                try:
                    ways = _prune_constant_literals(fa._alts(val, vnode, False))
                except AnalysisError:
                    ways = [[(A.norm(val), False)]]
            base_cmp = [t for t in lits if info(t)["kind"] in ("cmp", "presence", "absence")]
            if ways is None:
                n_compared += bool(base_cmp)
                continue  # "changed" without looking costs a recomputation, never a stale version
            for w in ways:
                conj = dict(lits)
                if any(conj.setdefault(t, p_) != p_ for (t, p_) in w):
                    continue
                kinds = {t: info(t) for t in conj}
                cmps = [t for t in conj if kinds[t]["kind"] == "cmp"]
                ok_way = any((t, p_) in allowed_false_guard for t, p_ in conj.items())
                ok_way = ok_way or any(conj[t] is True and kinds[t]["covering"] for t in cmps)
                if presence:
                    ok_way = ok_way or any((kinds[t]["kind"] == "presence" and conj[t] is False) or (kinds[t]["kind"] == "absence" and conj[t] is True) for t in conj)
                if watch_only and not ok_way:
                    # nothing is hashed for the symbol itself: once the comparison has said "bound to another object", the answer
                    # may be narrowed to "and some strategy can hash it now" - asked of the fresh object, of every strategy
                    asked = any(kinds[t]["kind"] == "scan" for t in conj) or bool(scan_loops & set(pth))
                    ok_way = any(conj[t] is False for t in cmps) and asked and not any(kinds[t]["kind"] == "strategy-none" and conj[t] is False for t in conj)
                if ok_way:
                    n_compared += 1
                    continue
                narrow = sorted({p_ for t in cmps if conj[t] is True for p_ in kinds[t]["narrow"]})
                extra = sorted({("" if p_ else "not ") + t for t, p_ in conj.items() if (t, p_) not in allowed_false_guard and kinds[t]["kind"] is None})
                key_node = ret if ret is not None else fa.node
                ent = bad.setdefault(id(key_node), (ret, [], []))
                if narrow:
                    ent[1].append("narrow:" + "; ".join("".join("." + s_ for s_ in p_) for p_ in narrow))
                else:
                    ent[1].append("; ".join(extra)[:80] if extra else "no guard")
                ent[2].append(not conj)
        for r in fa.returns():
            if r.value is None or not fa.nodes(r) or not (isinstance(r.value, ast.Constant) or isinstance(r.value, ast.Name)) or id(r) in bad:
                continue
            if isinstance(r.value, ast.Constant) and r.value.value is False:
                ck.ob(R, fa.key(r, "no-shortcut"), True, "False is answered without comparing only when nothing is tracked", fa.where(r))
        why = ""
        for (ret, reasons, unguarded) in bad.values():
            narrow = [x for x in reasons if x.startswith("narrow:")]
            if narrow:
                ck.ob(R, fa.key(ret, "compares-what-is-hashed"), False,
                      "%s.did_change answers 'unchanged' when only `%s` of the freshly resolved object equals that of the captured one, but the rule's hash "
                      "(compute_hash) is computed from %s and the rules below it (collect_transitive_dependencies: the names it uses, the table "
                      "they are resolved in, its scope) from %s: an object that differs elsewhere (default values, captured closure constants, "
                      "another attribute, the module whose globals it reads) gets a different hash or different dependencies, yet no recomputation "
                      "is asked for and results of the earlier edition are served"
                      % (cls.name, narrow[0][7:], ", ".join(sorted(_fmt_path(f_, q_) for (f_, q_) in hashed)) or "nothing",
                         ", ".join(sorted({_fmt_path(f_, q_) + (" (handed to %s)" % z_ if isinstance(z_, str) else "") for (f_, q_, z_) in _descended_paths(ck, cls) if f_ in captured})) or "nothing"),
                      fa.where(ret))
                why = why or "compares only a part (%s) of what the rule hashes and descends from" % narrow[0][7:]
            rest = [x for x in reasons if not x.startswith("narrow:")]
            if rest:
                ck.ob(R, fa.key(ret, "no-shortcut"), False,
                      "%s.did_change answers False early under `%s`: a value changed without re-binding the name (list.append, dict[k] = v) or "
                      "an equal-looking replacement is never noticed" % (cls.name, rest[0]), fa.where(ret))
                if any(unguarded):
                    why = why or "returns the constant False"
        # the overall verdict, with the most specific reason
        any_fresh = any(r_ == "fresh" for st in fa.stmts() if fa.nodes(st) for x in A.walk_local(st) if isinstance(x, ast.Call)
                        for (r_, _p, _f) in _access_paths(fa, x, None))
        any_real = any(i_["kind"] in ("cmp", "presence", "absence") for i_ in lit_info.values())
        ok = not bad and n_compared > 0
        if not ok and not why:
            why = ("does not re-resolve the symbol" if not (any_fresh or (presence and any_real)) else
                   "does not compare with the captured %s (a type test alone cannot see that the name now designates a different object)" % "/".join(captured) if not any_real else
                   "returns a constant" if not bad else "can answer 'unchanged' without the comparison having said so")
        ck.ob(R, fa.key(None), ok, "%s.did_change compares a fresh resolution with the captured %s" % (cls.name, "/".join(captured)) if ok else
              "%s.did_change %s" % (cls.name, why), fa.where())


def check_every_symbol_watched(ck, R):
    """Whatever a referenced symbol resolves to, some rule watches it, so that re-binding it is noticed: every
    normal exit of _visit_dependency (for a symbol that is not required) follows the addition of a rule
    (result.add / collect_transitive_dependencies), except the exits for a function without globals and for
    black-listed objects."""
    v = FA(ck, CH + ".HashRule._visit_dependency")
    unit_ = _visit_unit(ck)
    helpers_ = {u.fi.name: u for u in unit_[1:]}

    # exits that are allowed to add nothing: `if not hasattr(src_fn, '__globals__'): return`
    def about_globals(fx, if_):
        """is the test of this `if` about the function having a globals table (spelt on the spot or through a local)?"""
        ns_ = fx.nodes(if_.test)
        t = fx.expand(if_.test, ns_[0]) if ns_ else if_.test
        while isinstance(t, ast.UnaryOp) and isinstance(t.op, ast.Not):
            t = t.operand

        def globals_read(x):
            return (isinstance(x, ast.Attribute) and x.attr == "__globals__") or \
                (isinstance(x, ast.Call) and A.call_attr(x) == "getattr" and len(x.args) >= 2 and A.const_str(x.args[1]) == "__globals__")

        if isinstance(t, ast.Call) and A.call_attr(t) == "hasattr" and len(t.args) == 2 and A.const_str(t.args[1]) == "__globals__":
            return True
        return isinstance(t, ast.Compare) and len(t.ops) == 1 and isinstance(t.ops[0], (ast.Is, ast.IsNot)) and A.is_none(t.comparators[0]) and globals_read(t.left)

    def silent_path(fx, res, depth=0):
        """a way through `fx` (the visit, or a method of the class it was split into) from entry to normal exit on which no rule
        is added to the result set `res`: neither directly, nor by a rule's own descent, nor by a part of the visit that itself
        adds a rule on every way through it.  None when there is no such way."""
        adds_ = fx.nodes_all([c for (c, _el) in _set_additions(fx, res)] + fx.calls("collect_transitive_dependencies"))
        for c in fx.calls():
            hx = helpers_.get(A.call_attr(c) or "")
            rc = A.call_recv(c)
            if hx is None or hx is fx or depth > 3 or not fx.nodes(c) or not (isinstance(rc, ast.Name) and rc.id in ("HashRule", "cls", "self")):
                continue
            ps = [p_ for p_ in hx.fi.params if not (p_ in ("self", "cls") and not hx.fi.is_static)]
            hres = [p_ for i_, p_ in enumerate(ps) for a_ in [A.arg_or_kw(c, i_, p_)] if a_ is not None and fx.xnorm(a_, fx.nodes(c)[0]) == res]
            if len(hres) == 1 and silent_path(hx, hres[0], depth + 1) is None:
                adds_ = adds_ + fx.nodes(c)
        allowed_ = [n.id for n in fx.cfg.nodes if n.kind == "stmt" and isinstance(n.ast, ast.Return) and fx.enclosing(n.ast, ast.If) is not None
                    and about_globals(fx, fx.enclosing(n.ast, ast.If))]
        return fx.cfg.path(fx.cfg.entry, fx.cfg.exit, removed=set(adds_) | set(allowed_))

    p = silent_path(v, "result")
    ok = p is None
    ck.ob(R, v.key(None, "every-symbol-watched"), ok, "every exit adds a rule for the symbol" if ok else
          "_visit_dependency can finish without adding any rule for a symbol that resolves to an object no strategy matches (functools.partial, a class, "
          "an arbitrary instance): nothing watches that symbol, so re-binding it later to a function or a value keeps the cached version "
          "(path %s)" % v.cfg.describe_path(p), v.where())
    # the rule left for an attribute that is missing on an object is identified by the whole dotted name: the same attribute
    # can be missing on several objects (Left.scale, Right.scale), and rules with one key and symbol are one element of the
    # result set - the second one would be dropped and defining its attribute later would never be noticed (D49)
    for u in _visit_unit(ck):
        for c in u.calls("UndefinedSymbolHashRule"):
            if not u.nodes(c):
                continue
            at = u.nodes(c)[0]
            flag = A.kwarg(c, "ref_is_global_table") or (c.args[4] if len(c.args) > 4 else None)
            if flag is None or A.norm(u.expand(flag, at)) != "False":
                continue   # the rule for a name missing in the globals table: a global name is unique by itself
            sym = A.kwarg(c, "symbol") or (c.args[2] if len(c.args) > 2 else None)
            e = u.expand(sym, at) if sym is not None else None
            bare = e is None or (isinstance(e, ast.Subscript) and not isinstance(e.slice, ast.Slice))
            builds = e is not None and any(isinstance(x, (ast.BinOp, ast.JoinedStr)) or (isinstance(x, ast.Call) and A.call_attr(x) in ("join", "format")) for x in ast.walk(e))
            accumulated = set()
            for st in u.stmts((ast.AugAssign, ast.Assign)):
                tg = [st.target] if isinstance(st, ast.AugAssign) else st.targets
                for t in tg:
                    if isinstance(t, ast.Name) and (isinstance(st, ast.AugAssign) or any(isinstance(x, ast.Name) and x.id == t.id for x in ast.walk(st.value))) \
                            and u.enclosing(st, (ast.For, ast.While)) is not None:
                        accumulated.add(t.id)
            raw = sym if sym is not None else None
            uses_prefix = raw is not None and (any(isinstance(x, ast.Name) and x.id in accumulated for x in ast.walk(raw))
                                               or any(isinstance(x, ast.Subscript) and isinstance(x.slice, ast.Slice) for x in ast.walk(e if e is not None else raw)))
            ok = (not bare) and (builds or uses_prefix) and uses_prefix
            ck.ob(R, u.key(c, "undefined-attribute-named-in-full"), ok, "the rule for a missing attribute is identified by the whole dotted name" if ok else
                  "the rule for an attribute that is missing on an object is identified by the bare attribute name (`%s`): two dotted names of one "
                  "function that miss the same attribute on different objects are one rule, the set keeps the first, and defining the attribute "
                  "later on the other object is never noticed" % A.short(sym, 40), u.where(c))
    # a rule found by a strategy is handed the result set through collect_transitive_dependencies: on every normal exit
    # it has added a rule for its symbol (itself, or a watch-only stand-in when it is out of scope), unless it found
    # itself accounted for already
    n = 0
    for cls in hash_rule_classes(ck):
        if "try_resolve" not in cls.methods:
            continue  # built directly by _visit_dependency, which adds them itself
        m = cls.methods.get("collect_transitive_dependencies")
        if m is None:
            continue
        n += 1
        fa = FA(ck, m)
        res = fa.fi.params[1] if len(fa.fi.params) > 1 else "result"
        adds = fa.nodes_all([c for (c, _el) in _set_additions(fa, res)])
        # the way out on which the rule found itself accounted for already (`self in result`) needs no addition, whatever
        # the shape of the test (guard clause with an early return, or the rest of the body nested under its negation)
        from .cache_model import branch_filter
        accounted = branch_filter(fa, lambda t, pol, res=res: pol and t == "self in %s" % res)
        p2 = fa.cfg.path(fa.cfg.entry, fa.cfg.exit, removed=set(adds), edge_ok=accounted)
        ok2 = p2 is None
        ck.ob(R, fa.key(None, "adds-a-rule-on-every-exit"), ok2, "every exit of %s.collect_transitive_dependencies leaves a rule for the symbol" % cls.name if ok2 else
              "%s.collect_transitive_dependencies can return without adding any rule for its symbol (a function outside the package scope, ...): "
              "nothing watches that symbol, so re-binding it later to something hashable keeps the cached version (path %s)" % (cls.name, fa.cfg.describe_path(p2)), fa.where())
    ck.need(n >= 3, "expected at least 3 strategy rule classes with collect_transitive_dependencies, found %d" % n)


def _closures_denoted(fa, expr, at, depth=6, _via=()):
    """The nested functions / lambdas of `fa`'s function that `expr` (evaluated at CFG node `at`) may denote, followed through
    local aliases and conditional expressions: a list of (closure AST, CFG node where it is created, nodes of the aliasing
    assignments it came through)."""
    if depth <= 0 or expr is None:
        return []
    if isinstance(expr, ast.Lambda):
        return [(expr, at, _via)]
    if isinstance(expr, ast.Call) and A.call_attr(expr) == "partial" and expr.args:
        # functools.partial binds the ARGUMENTS now; what the function itself reads from the enclosing scope stays late-bound
        return _closures_denoted(fa, expr.args[0], at, depth - 1, _via)
    if isinstance(expr, ast.IfExp):
        return _closures_denoted(fa, expr.body, at, depth - 1, _via) + _closures_denoted(fa, expr.orelse, at, depth - 1, _via)
    if isinstance(expr, ast.BoolOp):
        return [c for v in expr.values for c in _closures_denoted(fa, v, at, depth - 1, _via)]
    if isinstance(expr, ast.Name):
        out = []
        for d in fa.df.reaching(at, expr.id):
            if d.kind == "def" and isinstance(d.stmt, (ast.FunctionDef, ast.AsyncFunctionDef)):
                out.append((d.stmt, d.node, _via))
            elif d.kind == "assign" and d.value is not None:
                out += _closures_denoted(fa, d.value, d.node, depth - 1, _via + (d.node,))
        return out
    return []


def _closure_reads(fa, closure, _seen=None):
    """Names of the enclosing function's scope that the closure reads when it is CALLED (default values are evaluated when
    it is made and are not among them), including what the sibling nested functions it calls read."""
    seen = _seen if _seen is not None else set()
    if id(closure) in seen:
        return set()
    seen.add(id(closure))
    a_ = closure.args
    own = {x.arg for x in a_.posonlyargs + a_.args + a_.kwonlyargs} | ({a_.vararg.arg} if a_.vararg else set()) | ({a_.kwarg.arg} if a_.kwarg else set())
    body = closure.body if isinstance(closure.body, list) else [closure.body]
    loads = set()
    for b_ in body:
        for n in ast.walk(b_):
            if isinstance(n, ast.Name):
                if isinstance(n.ctx, ast.Load):
                    loads.add(n.id)
                else:
                    own.add(n.id)
            elif isinstance(n, (ast.FunctionDef, ast.AsyncFunctionDef)):
                own.add(n.name)
            elif isinstance(n, ast.arg):
                own.add(n.arg)
    free = {x for x in loads - own if fa.df.is_local(x)}
    for x in list(free):
        sib = fa.fi.nested.get(x)
        if sib is not None and sib.node is not closure:
            free |= _closure_reads(fa, sib.node, seen)
    return free


def _defs_by_name(fx):
    out = {}
    for nid, ds in fx.df.gen.items():
        for d in ds:
            out.setdefault(d.name, set()).add(nid)
    return out


def _rebound_after_made(fx, node, dn, uses):
    """Late binding: a closure reads its free variables when it is CALLED (by did_change, long after the function that made
    it returned).  So none of them may be re-bound (a) between the making of the closure and a place where it is handed
    out, nor (b) after it was handed out, unless on a path where the receiver gave nothing back (`<result> is None`).
    `uses` = [(site AST, CFG node, alias assignment nodes, the expression that denotes the closure there)].
    Returns (variable, CFG node of the re-binding, description) or None."""
    defs_of = _defs_by_name(fx)
    live = fx.cfg.reachable_nodes()
    is_def = not isinstance(node, ast.Lambda)
    for x in sorted(_closure_reads(fx, node)):
        xs = defs_of.get(x, set()) & live
        if not xs:
            continue
        for (c, un, via, arg) in uses:
            arg_names = {a_.id for a_ in ast.walk(arg) if isinstance(a_, ast.Name)}
            killers = ({dn} | {nid for nm_ in arg_names | ({node.name} if is_def else set()) for nid in defs_of.get(nm_, set())}) - set(via)
            if is_def or via:
                after_make = fx.cfg.reach([dn], removed=killers, include_start=False)
                for X in sorted(xs & after_make):
                    if X not in via and un in fx.cfg.reach([X], removed=killers - {X}, include_start=True):
                        return (x, X, "between the making of the closure and `%s`" % A.short(c, 50))
            if isinstance(c, ast.Return):
                continue
            st = fx.stmt_of(c)
            none_edges = set()
            if isinstance(st, ast.Assign) and len(st.targets) == 1 and isinstance(st.targets[0], ast.Name):
                r_ = st.targets[0].id
                for t in fx.cfg.nodes:
                    if t.kind == "test" and isinstance(t.ast, ast.Compare) and len(t.ast.ops) == 1 and isinstance(t.ast.ops[0], (ast.Is, ast.IsNot)) \
                            and A.is_none(t.ast.comparators[0]) and isinstance(t.ast.left, ast.Name) and t.ast.left.id == r_ \
                            and {d.node for d in fx.df.reaching(t.id, r_)} == {un}:
                        none_edges.add((t.id, "T" if isinstance(t.ast.ops[0], ast.Is) else "F"))
            after_use = fx.cfg.reach([un], edge_ok=lambda s_, d_, l_: (s_, l_) not in none_edges, include_start=False)
            for X in sorted(xs & after_use):
                return (x, X, "after the closure was handed to `%s`" % A.short(c, 50))
    return None


def _none_for_missing(node):
    """Places in a resolver body that answer None for a name that is not there."""
    nones = []
    for x in ast.walk(node):
        if isinstance(x, ast.IfExp) and A.is_none(x.orelse) and isinstance(x.test, ast.Compare) and isinstance(x.test.ops[0], ast.In):
            nones.append(x)
        if isinstance(x, ast.Call) and A.call_attr(x) == "getattr" and len(x.args) == 3 and A.is_none(x.args[2]):
            nones.append(x)
        if isinstance(x, ast.Call) and A.call_attr(x) == "get" and isinstance(A.call_recv(x), ast.Name) and not x.keywords \
                and (len(x.args) == 1 or (len(x.args) == 2 and A.is_none(x.args[1]))):
            nones.append(x)
    return nones


def _closure_factory(ck, v, call):
    """The function of this package that `call` invokes, when that function RETURNS one of its nested functions / lambdas
    (a resolver factory): (FA of the factory, [(closure, creation node, [return uses])]) or None."""
    f = call.func
    fi = None
    if isinstance(f, ast.Name):
        kinds = {d.kind for ds in v.df.gen.values() for d in ds if d.name == f.id}
        if f.id in v.fi.params or kinds - {"def"}:
            return None  # a local variable of that name
        fi = v.fi.nested.get(f.id) if kinds else ck.repo.module(CH).functions.get(f.id)
    elif isinstance(f, ast.Attribute) and isinstance(f.value, ast.Name) and f.value.id in ("HashRule", "cls", "self"):
        fi = ck.repo.find_method(ck.repo.cls(CH + ".HashRule"), f.attr)
    if fi is None or fi.node is v.node:
        return None
    fx = FA(ck, fi)
    made = {}
    for r in fx.returns():
        if r.value is None:
            continue
        for rn in fx.nodes(r):
            for (cl, dn, via) in _closures_denoted(fx, r.value, rn):
                made.setdefault(id(cl), (cl, dn, []))[2].append((r, rn, via, r.value))
    return (fx, list(made.values())) if made else None


def check_resolver_closures(ck, R):
    ck.rule(R, "resolvers re-resolve from the root: a function handed out as a rule's resolver closes over the global table "
               "and name parts only, never over an object obtained by evaluating the dotted chain, and over nothing that is "
               "re-bound after it was handed out", 2)
    n_res = 0
    LATE = ("the resolver reads `%s` from the enclosing scope when it is called, and `%s` is re-bound (line %s) %s: the rule that keeps this resolver "
            "walks the path of a LATER step (late binding), e.g. an undefined-symbol rule asks the wrong object whether the attribute appeared, "
            "so a later definition of the symbol never changes the version")
    NONE_MSG = ("`%s`: the resolver answers None for a name that no longer exists, the same as for a name bound to None: deleting a tracked variable "
                "whose value is None leaves the cached version in place although a fresh computation sees an undefined symbol")

    def line_of(fx, nid):
        a_ = fx.cfg.node(nid).ast
        return getattr(a_, "lineno", "?")

    for v in _visit_unit(ck):
        # the closures that are handed out: nested functions / lambdas passed as an argument of some call of the visit,
        # directly, through a local alias, or made by a factory function called for the purpose
        handed = {}    # id(closure) -> (closure, creation node, [(use call, use node, alias nodes, argument)])
        factories = {}  # id(factory call) -> (factory call, its node)
        partials = {}   # id(partial(<module function>, ...) call) -> (call, its node)
        for c in v.calls():
            for un in v.nodes(c):
                for arg in list(c.args) + [k.value for k in c.keywords]:
                    arg = arg.value if isinstance(arg, ast.Starred) else arg
                    for (cl, dn, via) in _closures_denoted(v, arg, un):
                        handed.setdefault(id(cl), (cl, dn, []))[2].append((c, un, via, arg))
                    for (e, a_) in _alternatives(v, arg, un):
                        if isinstance(e, ast.Call) and e is not arg and _closure_factory(ck, v, e) is not None:
                            factories.setdefault(id(e), (e, a_))
                        if isinstance(e, ast.Call) and A.call_attr(e) == "partial" and e.args and not _closures_denoted(v, e.args[0], a_):
                            partials.setdefault(id(e), (e, a_))
                    if isinstance(arg, ast.Call) and _closure_factory(ck, v, arg) is not None:
                        factories.setdefault(id(arg), (arg, un))
        # names derived from evaluation: assigned from a call of such a closure, a getattr() or a subscript of the global table
        derived = set()
        changed = True
        assigns = [(s, t.id) for s in v.stmts(ast.Assign) for t in s.targets if isinstance(t, ast.Name)]

        def reads_globals(e):
            return any((isinstance(x, ast.Attribute) and x.attr == "__globals__") or
                       (isinstance(x, ast.Call) and A.call_attr(x) == "getattr" and len(x.args) >= 2 and A.const_str(x.args[1]) == "__globals__") for x in ast.walk(e))

        # the locals that hold the globals table of the function (the ROOT every resolution starts from), whatever they are called
        tables = {"global_table"} | {name for (s_, name) in assigns if reads_globals(s_.value)}

        def calls_resolver(n, at):
            if not isinstance(n.func, ast.Name):
                return False
            if any(id(cl) in handed for (cl, _d, _v) in _closures_denoted(v, n.func, at)):
                return True
            return any(isinstance(e, ast.Call) and (id(e) in factories or id(e) in partials) for (e, _a) in _alternatives(v, n.func, at))

        while changed:
            changed = False
            for (s, name) in assigns:
                if name in derived or not v.nodes(s):
                    continue
                val = s.value
                is_eval = False
                for n in ast.walk(val):
                    if isinstance(n, ast.Call) and ((A.call_attr(n) in ("getattr",) and not reads_globals(n)) or (isinstance(n.func, ast.Name) and n.func.id.startswith("resolver")) or A.call_attr(n) == "memento_fn_resolver"):
                        is_eval = True
                    if isinstance(n, ast.Call) and calls_resolver(n, v.nodes(s)[0]):
                        is_eval = True
                    if isinstance(n, ast.Subscript) and (A.norm(n.value) in tables or v.xnorm(n.value, v.nodes(s)[0]).endswith(".__globals__")):
                        is_eval = True
                    if isinstance(n, ast.Call) and A.call_attr(n) == "get" and isinstance(A.call_recv(n), ast.Name) and A.call_recv(n).id in tables:
                        is_eval = True
                    if isinstance(n, ast.Name) and n.id in derived:
                        is_eval = True
                if is_eval:
                    derived.add(name)
                    changed = True
        bodies = {}
        for (node, dn, uses) in sorted(handed.values(), key=lambda h: getattr(h[0], "lineno", 0)):
            n_res += 1
            is_def = not isinstance(node, ast.Lambda)
            label = "def %s@%s" % (node.name, "loop" if v.enclosing(node, ast.For) is not None else "top") if is_def else "lambda %s" % A.short(node.body, 40)
            free = _closure_reads(v, node)
            bad = sorted(free & derived)
            ck.ob(R, "%s::%s" % (v.qual, label), not bad,
                  "resolver re-resolves from the global table" if not bad else
                  "resolver closes over %s, an object obtained while evaluating the chain: when an intermediate object is replaced "
                  "(class re-executed, module attribute rebound) the rule keeps looking at the old object and did_change never fires" % bad,
                  A.loc(v.fi, node))
            late = _rebound_after_made(v, node, dn, uses)
            ck.ob(R, "%s::%s::bound-when-made" % (v.qual, label), late is None,
                  "what the resolver reads from the enclosing scope is never re-bound once it is made" if late is None else
                  LATE % (late[0], late[0], line_of(v, late[1]), late[2]), A.loc(v.fi, node))
            if is_def:
                bodies[id(node)] = node
                for x in free:
                    sib = v.fi.nested.get(x)
                    if sib is not None:
                        bodies.setdefault(id(sib.node), sib.node)
        # a resolver tells "the name is gone" apart from "the name is bound to None": None is a legal tracked value, so a
        # resolver that answers None for a missing name makes the deletion of a None-valued variable invisible
        for node in sorted(bodies.values(), key=lambda n_: n_.lineno):
            nones = _none_for_missing(node)
            ck.ob(R, "%s::def %s@%s::missing-is-not-none" % (v.qual, node.name, "loop" if v.enclosing(node, ast.For) is not None else "top"), not nones,
                  "a missing name resolves to a sentinel of its own" if not nones else NONE_MSG % A.short(nones[0], 60), A.loc(v.fi, nones[0] if nones else node))
        # resolvers made by a factory: the arguments are evaluated when the factory is called, so the closure is judged
        # inside the factory (what it reads there is not re-bound) and by what is passed in (no object obtained by
        # evaluating the chain)
        for (fc, fat) in sorted(factories.values(), key=lambda f_: getattr(f_[0], "lineno", 0)):
            (fx, made) = _closure_factory(ck, v, fc)
            where_ = "loop" if v.enclosing(fc, ast.For) is not None else "top"
            for (node, dn, uses) in made:
                n_res += 1
                label = "%s(...)@%s" % (fx.fi.name, where_)
                free = _closure_reads(fx, node)
                ps = [p_ for p_ in fx.fi.params if not (p_ in ("self", "cls") and not fx.fi.is_static)]
                bad = set()
                for x in free:
                    if x in ps:
                        a_ = A.arg_or_kw(fc, ps.index(x), x)
                        if a_ is not None:
                            bad |= {n_.id for n_ in ast.walk(a_) if isinstance(n_, ast.Name)} & derived
                bad = sorted(bad)
                ck.ob(R, "%s::%s" % (v.qual, label), not bad,
                      "resolver re-resolves from the global table" if not bad else
                      "the resolver made by %s closes over %s, an object obtained while evaluating the chain: when an intermediate object is replaced "
                      "(class re-executed, module attribute rebound) the rule keeps looking at the old object and did_change never fires" % (fx.fi.name, bad),
                      A.loc(v.fi, fc))
                late = _rebound_after_made(fx, node, dn, uses)
                ck.ob(R, "%s::%s::bound-when-made" % (v.qual, label), late is None,
                      "what the resolver reads from the enclosing scope is never re-bound once it is made" if late is None else
                      LATE % (late[0], late[0], line_of(fx, late[1]), late[2]), A.loc(fx.fi, node))
                if not isinstance(node, ast.Lambda):
                    nones = _none_for_missing(node)
                    ck.ob(R, "%s::%s::missing-is-not-none" % (v.qual, label), not nones,
                          "a missing name resolves to a sentinel of its own" if not nones else NONE_MSG % A.short(nones[0], 60), A.loc(fx.fi, nones[0] if nones else node))
        # a module-level function with its arguments bound by functools.partial: nothing is late-bound; what is bound
        # must not be an object obtained by evaluating the chain
        for (pc, pat) in sorted(partials.values(), key=lambda f_: getattr(f_[0], "lineno", 0)):
            n_res += 1
            pname = A.norm(pc.args[0])
            where_ = "loop" if v.enclosing(pc, ast.For) is not None else "top"
            bad = sorted({n_.id for a_ in list(pc.args[1:]) + [k.value for k in pc.keywords] for n_ in ast.walk(a_) if isinstance(n_, ast.Name)} & derived)
            ck.ob(R, "%s::partial %s@%s" % (v.qual, pname, where_), not bad,
                  "resolver re-resolves from the global table" if not bad else
                  "the resolver `%s` is bound to %s, an object obtained while evaluating the chain: when an intermediate object is replaced "
                  "(class re-executed, module attribute rebound) the rule keeps looking at the old object and did_change never fires" % (A.short(pc, 50), bad), A.loc(v.fi, pc))
            pf = ck.repo.module(CH).functions.get(pname) if isinstance(pc.args[0], ast.Name) and not v.df.is_local(pname) else None
            if pf is not None:
                nones = _none_for_missing(pf.node)
                ck.ob(R, "%s::partial %s@%s::missing-is-not-none" % (v.qual, pname, where_), not nones,
                      "a missing name resolves to a sentinel of its own" if not nones else NONE_MSG % A.short(nones[0], 60), A.loc(pf, nones[0] if nones else pf.node))
        # rules that watch for a symbol to appear must also look it up from the root each time
        for c in v.calls("UndefinedSymbolHashRule"):
            base = c.args[0] if c.args else A.kwarg(c, "ref")
            rr = A.kwarg(c, "ref_resolver")
            pinned = isinstance(base, ast.Name) and base.id in derived and rr is None
            ck.ob(R, v.key(c, "undefined-symbol-base"), not pinned, "the undefined-symbol rule re-resolves the object it watches" if not pinned else
                  "the undefined-symbol rule is given `%s`, an object obtained while evaluating the chain, and no resolver: after `helper = other` the rule "
                  "still asks the OLD object whether the attribute appeared, so the version never changes" % base.id, v.where(c))
    ck.need(n_res >= 2, "_visit_dependency: resolver closures not found")


def check_field_call_lint(ck, R):
    ck.rule(R, "field-call lint: a namedtuple field that every constructor site binds to a non-callable is never called", 1)
    n = 0
    for m in ck.repo.modules.values():
        nts = {}
        for name, v in m.assigns.items():
            if isinstance(v, ast.Call) and A.call_attr(v) == "namedtuple" and len(v.args) == 2 and isinstance(v.args[1], (ast.List, ast.Tuple)):
                nts[name] = [A.const_str(e) for e in v.args[1].elts]
        if not nts:
            continue
        for fi in m.all_funcs():
            fa = None
            for c in A.body_calls(fi.node):
                f = c.func
                if isinstance(f, ast.Attribute) and isinstance(f.value, ast.Name):
                    # is the receiver typed as one of the namedtuples?
                    for ntname, fields in nts.items():
                        if f.attr in fields:
                            tt = None
                            for s in A.walk_body(fi.node):
                                if isinstance(s, ast.Assign) and any(isinstance(t, ast.Name) and t.id == f.value.id for t in s.targets):
                                    if s.type_comment and ntname in s.type_comment:
                                        tt = ntname
                                    if isinstance(s.value, ast.Call) and A.call_attr(s.value) == ntname:
                                        tt = ntname
                                    if isinstance(s.value, ast.Subscript) and "cache" in A.norm(s.value.value).lower() and ntname.lower().find("cacheentry") >= 0:
                                        tt = tt or ntname
                            if tt:
                                n += 1
                                ck.ob(R, "%s::%s" % (fi.qual, A.short(c, 50)), False,
                                      "%s.%s is a plain value (%s field) but is called: TypeError at run time on this path" % (f.value.id, f.attr, ntname), A.loc(fi, c))
    ck.ob(R, "namedtuple-fields", True, "namedtuple fields scanned in all modules", "")


# --------------------------------------------------------------------------------- C14
def _names_loaded_as_globals(fa, e) -> bool:
    """Is `e` the collection of the names the instructions of a code object load as globals (`i.argval for i in
    dis.get_instructions(code) if i.opname in ('LOAD_GLOBAL', 'LOAD_NAME')`, through temporaries)?"""
    at = fa.nodes(e)[:1]
    nodes = [e] + [d.value for x in ast.walk(e) if isinstance(x, ast.Name) for i in at for d in fa.df.reaching(i, x.id) if d.value is not None]
    txt = " ".join(A.norm(n) for n in nodes)
    return "get_instructions(" in txt and "LOAD_GLOBAL" in txt and "argval" in txt


def _unwrapped_param(fa, name, at, _depth=4):
    """If local `name` at CFG node `at` holds parameter P after `while hasattr(v, '__wrapped__'): v = v.__wrapped__` (every
    reaching definition is `v = P` or `v = v.__wrapped__`), or `inspect.unwrap(P)`: P, else None."""
    ds = fa.df.reaching(at, name)
    if not ds:
        return None
    base = None
    steps = 0
    for d in ds:
        v = d.value if d.kind == "assign" else None
        if d.kind == "param" and d.name == name:
            # the parameter itself is walked down its wrappers: `while hasattr(p, '__wrapped__'): p = p.__wrapped__`
            if base not in (None, name):
                return None
            base = name
        elif isinstance(v, ast.Name) and v.id in fa.fi.params:
            if base not in (None, v.id):
                return None
            base = v.id
        elif isinstance(v, ast.Attribute) and v.attr == "__wrapped__" and isinstance(v.value, ast.Name) and v.value.id == name:
            steps += 1
        elif isinstance(v, ast.Name) and v.id != name and fa.df.is_local(v.id) and _depth > 0 and _unwrapped_param(fa, v.id, d.node, _depth - 1) is not None:
            # a copy of a local that already holds the unwrapped parameter
            inner = _unwrapped_param(fa, v.id, d.node, _depth - 1)
            if base not in (None, inner):
                return None
            base = inner
            steps += 1
        elif isinstance(v, ast.Call) and A.call_attr(v) == "unwrap" and len(v.args) == 1 and isinstance(v.args[0], ast.Name) and v.args[0].id in fa.fi.params:
            if base not in (None, v.args[0].id):
                return None
            base = v.args[0].id
            steps += 1
        else:
            return None
    return base if base is not None and steps else None


def _chain_through_unwrap(fa, e, at):
    """(`P.a.b`, P) for an attribute chain whose root local is parameter P looked through its functools.wraps wrappers."""
    attrs = []
    cur = e
    while isinstance(cur, ast.Attribute):
        attrs.append(cur.attr)
        cur = cur.value
    if not isinstance(cur, ast.Name):
        return None
    ds = fa.df.reaching(at, cur.id)
    if cur.id in fa.fi.params and all(d.kind == "param" for d in ds):
        return None
    if len(ds) == 1 and ds[0].kind == "assign" and isinstance(ds[0].value, ast.Attribute):
        inner = _chain_through_unwrap(fa, ds[0].value, ds[0].node)
        if inner is None:
            return None
        return (".".join([inner[0]] + list(reversed(attrs))), inner[1])
    p = _unwrapped_param(fa, cur.id, at)
    if p is None:
        return None
    return (".".join([p] + list(reversed(attrs))), p)


def check_dotted_names(ck, R):
    ck.rule(R, "name extraction: the source visitor records bare names and attribute chains, and removes exactly the "
               "function's locals and cell variables (and chains rooted at them)", 4)
    fa = _fa_live(ck, CH + ".list_dotted_names")
    # the nested visitor class
    cls = None
    for n in A.walk_body(fa.node):
        if isinstance(n, ast.ClassDef):
            cls = n
    if cls is None:
        # the visitor was hoisted out of the function: it is the module-level NodeVisitor that the function instantiates
        called = {A.call_attr(c) for c in fa.calls()}
        for c_ in ck.repo.module(CH).classes.values():
            if c_.name in called and any(m_.startswith("visit_") for m_ in c_.methods):
                cls = c_.node
    ck.need(cls is not None, "list_dotted_names: visitor class not found")
    methods = {s.name: s for s in cls.body if isinstance(s, ast.FunctionDef)}

    def records(m):
        """[(field, argument)] for every `self.<field>.add(<argument>)` in a visitor method (self = its first parameter)."""
        me = m.args.args[0].arg if m.args.args else "self"
        return [(c.func.value.attr, c.args[0]) for c in ast.walk(m) if isinstance(c, ast.Call) and A.call_attr(c) == "add" and len(c.args) == 1
                and isinstance(c.func.value, ast.Attribute) and isinstance(c.func.value.value, ast.Name) and c.func.value.value.id == me]

    # the field of the visitor in which the names are gathered (whatever it is called)
    ACC = {f_ for nm_ in ("visit_Name", "visit_Attribute") if nm_ in methods for (f_, _a) in records(methods[nm_])}
    okn = False
    if "visit_Name" in methods:
        vn = methods["visit_Name"]
        p1 = vn.args.args[1].arg if len(vn.args.args) > 1 else None
        okn = any(isinstance(a_, ast.Attribute) and a_.attr == "id" and isinstance(a_.value, ast.Name) and a_.value.id == p1 for (_f, a_) in records(vn))
    ck.ob(R, fa.key(None, "visit-Name"), okn, "bare names are recorded" if okn else "bare names are no longer recorded as references", fa.where())
    oka = "visit_Attribute" in methods and bool(records(methods["visit_Attribute"])) \
        and any(isinstance(c, ast.Call) and A.call_attr(c) == "generic_visit" for c in ast.walk(methods["visit_Attribute"]))
    ck.ob(R, fa.key(None, "visit-Attribute"), oka, "attribute chains are recorded and their sub-expressions still visited" if oka else
          "attribute chains are no longer recorded (module.attr references are missed) or their sub-expressions are skipped", fa.where())
    if "visit_Attribute" in methods:
        # the chain evaluator: the method itself, the functions nested in it, and the methods of the visitor / functions of the
        # module it calls (transitively)
        va = methods["visit_Attribute"]
        mod_funcs = ck.repo.module(CH).functions
        ev, seen_ev, work = [], set(), [va]
        while work:
            cur = work.pop()
            if id(cur) in seen_ev:
                continue
            seen_ev.add(id(cur))
            ev.append(cur)
            for c in ast.walk(cur):
                if not isinstance(c, ast.Call):
                    continue
                nm_ = A.call_attr(c)
                if isinstance(c.func, ast.Attribute) and nm_ in methods and nm_ not in ("visit_Attribute", "visit_Name", "generic_visit", "visit", "__init__"):
                    work.append(methods[nm_])
                elif isinstance(c.func, ast.Name) and nm_ in mod_funcs and nm_ != fa.fi.name:
                    work.append(mod_funcs[nm_].node)
        kinds = set()
        for e in ev:
            for i in ast.walk(e):
                it = A.isinstance_types(i) if isinstance(i, ast.Call) else None
                if it:
                    kinds |= set(it[1])
        okk = {"ast.Attribute", "ast.Call", "ast.Name"} <= kinds
        ck.ob(R, fa.key(None, "chain-forms"), okk, "chains through attributes, calls and names are resolved" if okk else
              "the chain evaluator no longer handles %s" % sorted({"ast.Attribute", "ast.Call", "ast.Name"} - kinds), fa.where())
    # roles: RES = the extracted name set (what is returned / cached and reduced in place).  Every reduction of RES
    # is classified by WHAT IS SUBTRACTED: (L) the locals = a set whose elements come from exactly co_varnames and
    # co_cellvars of fn.__code__ (set()+update, set(a) | set(b), union, {*a, *b} alike), or (C) the chains rooted
    # at locals = the elements of RES itself whose first component is a member of such a set (comprehension or
    # filtering loop alike).  Anything else narrows the name set.
    WANT = {"fn.__code__.co_varnames", "fn.__code__.co_cellvars"}
    unwrapped_bases = set()
    globals_kept = set()

    def is_res(e, at, depth=4):
        """does `e` designate the set in which the visitor gathered the names (the visitor instance's field, through any
        local alias)?"""
        if e is None or at is None or depth <= 0:
            return False
        x = fa.expand(e, at)
        if isinstance(x, ast.Attribute) and x.attr in ACC and isinstance(x.value, ast.Call) and A.call_attr(x.value) == cls.name:
            return True
        if isinstance(e, ast.Name):
            # every binding that reaches here is the set (an augmented assignment reduces it in place: still the same set)
            ds = [d for d in fa.df.reaching(at, e.id) if d.kind != "aug"]
            return bool(ds) and all(d.kind == "assign" and d.value is not None and is_res(d.value, d.node, depth - 1) for d in ds)
        return False

    # the locals that stand for that set
    RESNAMES = {d.name for ds in fa.df.gen.values() for d in ds if d.kind == "assign" and d.value is not None and "." not in d.name and is_res(d.value, d.node)}

    # Every piece of the function's own source is a place where it can name something it depends on: the body, and the `def`
    # line as well (a helper used only as a parameter default, a decorator, ...: fn_code_hash describes a function-valued
    # default by name only, so the name has to be a dependency).  So (1) on every path on which the name set is taken from
    # the visitor, the visitor was run over the WHOLE parse tree of the source, not over a selection of its sub-trees, and
    # (2) no handler of the visitor stops the descent below a node kind that has children.
    def whole_tree(e, at):
        """does `e` stand, in all its alternatives, for the complete result of parsing the function's source?"""
        alts_ = _alternatives(fa, e, at)
        for (x, a_) in alts_:
            x = fa.expand(x, a_)
            if not (isinstance(x, ast.Call) and A.call_attr(x) == "parse" and len(x.args) >= 1
                    and any(isinstance(c_, ast.Call) and A.call_attr(c_) == "getsource" for c_ in ast.walk(x.args[0]))):
                return False
        return bool(alts_)

    def on_visitor(c):
        r_ = A.call_recv(c)
        if r_ is None or not fa.nodes(c):
            return False
        x = fa.expand(r_, fa.nodes(c)[0])
        return isinstance(x, ast.Call) and A.call_attr(x) == cls.name

    runs = [c for c in fa.calls() if A.call_attr(c) in ("visit", "generic_visit") and on_visitor(c)]
    whole = [c for c in runs if A.call_attr(c) == "visit" and len(c.args) == 1 and whole_tree(c.args[0], fa.nodes(c)[0])]
    whole_nodes = set(fa.nodes_all(whole))
    # `for st in <whole tree>.body: visitor.visit(st)`, every statement of the module visited: the same as visiting the module
    for c in runs:
        if c in whole or A.call_attr(c) != "visit" or len(c.args) != 1 or not isinstance(c.args[0], ast.Name):
            continue
        ds = fa.df.reaching(fa.nodes(c)[0], c.args[0].id)
        if len(ds) == 1 and ds[0].kind == "for" and isinstance(ds[0].stmt, ast.For) and isinstance(ds[0].stmt.target, ast.Name) and fa.nodes(ds[0].stmt):
            lp = ds[0].stmt
            h_ = fa.nodes(lp)[0]
            it = fa.expand(lp.iter, h_)
            if isinstance(it, ast.Attribute) and it.attr == "body" and isinstance(lp.iter, ast.Attribute):
                base_ = lp.iter.value
                if whole_tree(base_, h_) and all(_every_iteration_passes(fa, hh, fa.nodes(c)) for hh in fa.nodes(lp)):
                    whole.append(c)
                    whole_nodes |= set(fa.nodes(lp))
    takes = []   # where the name set is taken out of the visitor
    for st in fa.stmts():
        for nid in fa.nodes(st):
            for sub in (fa.cfg._own_exprs(fa.cfg.node(nid)) if fa.cfg.node(nid).ast is not None else ()):
                if isinstance(sub, ast.Attribute) and isinstance(sub.ctx, ast.Load) and sub.attr in ACC and is_res(sub, nid):
                    takes.append((st, nid))
    bad_take = [(st, nid) for (st, nid) in takes if not fa.cfg.must_pass(whole_nodes, nid)]
    partial = [c for c in runs if c not in whole]
    okw = bool(takes) and not bad_take
    ck.ob(R, fa.key(None, "whole-source-visited"), okw, "the names are taken after the visitor has gone over the whole parse tree of the source" if okw else
          ("the name set is read from the visitor on a path on which the visitor has not been run over the whole parse tree of the "
           "function's source%s: names that occur only in the skipped parts (a helper or global used only as a parameter default, in a "
           "decorator or an annotation) get no hash rule, so editing them keeps the version and the stored result is served, and a "
           "memento function named only there is missing from the closure"
           % ((" (only over `%s`)" % A.short(partial[0].args[0], 50)) if partial and partial[0].args else "")),
          fa.where(bad_take[0][0] if bad_take else None))
    pruned = []
    for (nm_, m_) in sorted(methods.items()):
        if not (nm_.startswith("visit_") or nm_ in ("visit", "generic_visit")) or nm_ in ("visit_Name", "visit_Constant"):
            continue   # Name / Constant nodes have no sub-expressions
        pn = m_.args.args[1].arg if len(m_.args.args) > 1 else None
        me_ = m_.args.args[0].arg if m_.args.args else "self"
        g = CFG(m_)
        down = set()
        for c in ast.walk(m_):
            if not (isinstance(c, ast.Call) and len(c.args) >= 1 and isinstance(c.args[-1], ast.Name) and c.args[-1].id == pn):
                continue
            r_ = A.call_recv(c)
            if nm_.startswith("visit_"):
                # self.generic_visit(node) (or the base class's, called explicitly)
                hit = A.call_attr(c) == "generic_visit" and r_ is not None and (A.norm(r_) == me_ or A.norm(r_).startswith("super(") or A.norm(r_).endswith("NodeVisitor"))
            else:
                hit = A.call_attr(c) == nm_ and r_ is not None and (A.norm(r_).startswith("super(") or A.norm(r_).endswith("NodeVisitor"))
            if hit:
                down |= set(g.nodes_of(c))
        if not g.must_pass(down, g.exit):
            pruned.append(nm_)
    ck.ob(R, fa.key(None, "no-subtree-pruned"), not pruned, "every handler of the visitor goes on below the node it handles" if not pruned else
          "the visitor's %s can return without descending into the node's children (generic_visit): the names inside those "
          "sub-trees are never recorded, so what the function refers to there is neither hashed nor in the closure" % ", ".join(pruned), fa.where())

    def local_sources(e, at, depth=6):
        """where the elements of a set-valued expression come from (attribute chains)"""
        if depth <= 0 or e is None:
            return {"<?>"}
        if isinstance(e, ast.Call) and isinstance(e.func, ast.Name) and e.func.id in ("set", "frozenset", "list", "tuple"):
            if not e.args:
                return set()
            return local_sources(e.args[0], at, depth - 1) if len(e.args) == 1 else {"<?>"}
        if isinstance(e, ast.BinOp) and isinstance(e.op, (ast.BitOr, ast.Add)):
            return local_sources(e.left, at, depth - 1) | local_sources(e.right, at, depth - 1)
        if isinstance(e, ast.Call) and A.call_attr(e) == "union" and A.call_recv(e) is not None:
            out = local_sources(A.call_recv(e), at, depth - 1)
            for a in e.args:
                out |= local_sources(a, at, depth - 1)
            return out
        if isinstance(e, (ast.Set, ast.List, ast.Tuple)):
            out = set()
            for x in e.elts:
                out |= local_sources(x.value, at, depth - 1) if isinstance(x, ast.Starred) else {"<element %s>" % A.norm(x)}
            return out
        if isinstance(e, ast.Name) and fa.df.is_local(e.id) and e.id not in fa.fi.params:
            ds = fa.df.reaching(at, e.id)
            # `locals -= <names loaded as globals>` (see the difference_update case below)
            put_back = [d for d in ds if d.kind == "aug" and isinstance(getattr(d.stmt, "op", None), ast.Sub) and _names_loaded_as_globals(fa, d.value)]
            if put_back:
                globals_kept.add(e.id)
                ds = [d for d in ds if d not in put_back]
            if ds and all(d.kind == "assign" and d.value is not None and not isinstance(d.value, (ast.Attribute, ast.Name)) for d in ds):
                out = set()
                for d in ds:
                    out |= local_sources(d.value, d.node, depth - 1)
                for c in fa.calls():
                    if isinstance(A.call_recv(c), ast.Name) and A.call_recv(c).id == e.id and fa.nodes(c):
                        if A.call_attr(c) == "update":
                            for a in c.args:
                                out |= local_sources(a, fa.nodes(c)[0], depth - 1)
                        elif A.call_attr(c) == "difference_update" and len(c.args) == 1 and _names_loaded_as_globals(fa, c.args[0]):
                            # the names the code object loads as globals are taken out of the locals again: a comprehension
                            # variable (inlined since Python 3.12, so listed in co_varnames) that shares its name with a
                            # global the function also reads does not hide that global (D53)
                            globals_kept.add(e.id)
                        elif A.call_attr(c) in ("add", "discard", "remove", "difference_update", "intersection_update", "clear", "pop", "symmetric_difference_update"):
                            out.add("<%s>" % A.norm(c))
                return out
        ch = fa.df.chains(e, at)
        if not ch:
            u = _chain_through_unwrap(fa, e, at)
            if u is not None:
                unwrapped_bases.add(u[1])
                return {u[0]}
        return set(ch) if ch else {"<not a plain attribute of fn.__code__>: " + A.norm(e)}

    def first_component_of(e, var):
        """'slice' for x[:x.find('.')] (meaningful only for a dotted x), 'split' for x.split('.')[0] / x.partition('.')[0] (the
        name itself when there is no dot), else None"""
        t = A.norm(e)
        if t in ("%s[0:%s.find('.')]" % (var, var), "%s[:%s.find('.')]" % (var, var), "%s[0:%s.index('.')]" % (var, var), "%s[:%s.index('.')]" % (var, var)):
            return "slice"
        if t in ("%s.split('.')[0]" % var, "%s.split('.', 1)[0]" % var, "%s.partition('.')[0]" % var, "%s.split('.', maxsplit=1)[0]" % var):
            return "split"
        return None

    def dnf(t, pol):
        """a test taken with a polarity as alternatives of [(atom, polarity)]"""
        if isinstance(t, ast.UnaryOp) and isinstance(t.op, ast.Not):
            return dnf(t.operand, not pol)
        if isinstance(t, ast.BoolOp):
            parts = [dnf(v, pol) for v in t.values]
            if (isinstance(t.op, ast.And) and pol) or (isinstance(t.op, ast.Or) and not pol):
                out = [[]]
                for p_ in parts:
                    out = [a_ + b_ for a_ in out for b_ in p_]
                return out
            return [c_ for p_ in parts for c_ in p_]
        return [[(t, pol)]]

    local_sets = []   # where the elements of every set used as "the locals" come from

    def selection(atoms, var, at):
        """Which elements `var` of the name set a filter selects for removal: None if it is not "the first component is a local"
        (for all its alternatives), else {'L': plain locals are covered, 'C': chains rooted at locals are covered}."""
        alts_ = [[]]
        for (t, pol) in atoms:
            alts_ = [a_ + b_ for a_ in alts_ for b_ in dnf(t, pol)]
        cover = {"L": False, "C": False}
        for conj in alts_:
            dot_guard, kinds = False, []
            for (t, pol) in conj:
                if not (isinstance(t, ast.Compare) and len(t.ops) == 1 and isinstance(t.ops[0], (ast.In, ast.NotIn))):
                    return None
                pol_in = pol if isinstance(t.ops[0], ast.In) else not pol
                if not pol_in:
                    return None
                if A.norm(t.left) in ("'.'", '"."') and A.norm(t.comparators[0]) == var:
                    dot_guard = True
                    continue
                fc = "plain" if A.norm(t.left) == var else first_component_of(t.left, var)
                if fc is None:
                    return None
                local_sets.append(local_sources(t.comparators[0], at))
                kinds.append(fc)
            if not kinds or ("slice" in kinds and not dot_guard):
                return None   # x[:x.find('.')] of a name without a dot is the name minus its last character
            if "plain" in kinds or ("split" in kinds and not dot_guard):
                cover["L"] = True
            if "slice" in kinds or "split" in kinds:
                cover["C"] = True
        return cover

    def copy_of_res(e, at):
        """list(RES) / set(RES) / tuple(RES) / sorted(RES) / RES.copy(): a snapshot to iterate while RES is reduced"""
        for (x, a_) in _alternatives(fa, e, at):
            if isinstance(x, ast.Call) and isinstance(x.func, ast.Name) and x.func.id in ("list", "set", "tuple", "sorted", "frozenset") and len(x.args) == 1 and is_res(x.args[0], a_):
                continue
            if isinstance(x, ast.Call) and A.call_attr(x) == "copy" and not x.args and A.call_recv(x) is not None and is_res(A.call_recv(x), a_):
                continue
            return False
        return True

    # every reduction of the name set: ('subtract', stmt, set expression) / ('select', stmt, cover or None) / ('other', stmt)
    reductions = []

    def reduce_by(st, arg, at0):
        spec_ = _collection_spec(fa, arg, at0) if arg is not None else None
        if arg is None:
            reductions.append(("other", st, None))
        elif spec_ is not None:
            if is_res(spec_["iter"], spec_["iter_at"]) and A.norm(spec_["elt"]) == spec_["var"]:
                reductions.append(("select", st, selection(spec_["atoms"], spec_["var"], spec_["at"])))
            else:
                reductions.append(("other", st, None))
        else:
            reductions.append(("subtract", st, arg))

    for st in fa.stmts():
        if not fa.nodes(st):
            continue
        at0 = fa.nodes(st)[0]
        if isinstance(st, (ast.Assign, ast.AnnAssign)) and getattr(st, "value", None) is not None \
                and any(isinstance(t, ast.Name) and t.id in RESNAMES for t in (st.targets if isinstance(st, ast.Assign) else [st.target])):
            if not is_res(st.value, at0):
                if isinstance(st.value, ast.BinOp) and isinstance(st.value.op, ast.Sub) and is_res(st.value.left, at0):
                    reduce_by(st, st.value.right, at0)
                else:
                    reduce_by(st, None, at0)
        if isinstance(st, ast.AugAssign):
            tg = st.target
            hit = (isinstance(tg, ast.Name) and tg.id in RESNAMES) or \
                (isinstance(tg, ast.Attribute) and is_res(ast.copy_location(ast.Attribute(value=tg.value, attr=tg.attr, ctx=ast.Load()), tg), at0))
            if hit:
                reduce_by(st, st.value if isinstance(st.op, ast.Sub) else None, at0)
        if isinstance(st, ast.Expr) and isinstance(st.value, ast.Call) and A.call_recv(st.value) is not None and is_res(A.call_recv(st.value), at0) \
                and A.call_attr(st.value) in ("difference_update", "intersection_update", "discard", "remove", "clear", "pop", "symmetric_difference_update"):
            c_ = st.value
            if A.call_attr(c_) == "difference_update" and len(c_.args) == 1:
                reduce_by(st, c_.args[0], at0)
            elif A.call_attr(c_) in ("discard", "remove") and len(c_.args) == 1 and isinstance(c_.args[0], ast.Name):
                # `for x in list(RES): [if ...:] RES.discard(x)`: a selection of RES's own elements, removed one by one
                lf = _loop_filter(fa, st)
                if lf is not None and lf[0].target.id == c_.args[0].id and copy_of_res(lf[0].iter, lf[2]):
                    reductions.append(("select", st, selection(lf[1], lf[0].target.id, lf[2])))
                else:
                    reductions.append(("other", st, None))
            else:
                reductions.append(("other", st, None))
    srcs = set()
    for (kind, st, arg) in reductions:
        if kind == "subtract":
            local_sets.append(local_sources(arg, fa.nodes(st)[0]))
    for s_ in local_sets:
        srcs |= s_
    selects = [c_ for (kind, st, c_) in reductions if kind == "select"]
    covers_l = any(kind == "subtract" for (kind, _st, _a) in reductions) or any(c_ and c_["L"] for c_ in selects)
    covers_c = any(c_ and c_["C"] for c_ in selects)
    okl = bool(local_sets) and all(s_ == WANT for s_ in local_sets)
    ck.ob(R, fa.key(None, "locals-removed"), okl, "exactly co_varnames and co_cellvars are treated as local" if okl else
          "the set of names treated as local is %s (expected co_varnames and co_cellvars): globals are dropped or locals kept" % sorted(srcs), fa.where())
    # inspect.getsource looks through functools.wraps wrappers, so the names in `source` are those of the innermost wrapped
    # function: the locals taken out must be the locals of that function too, not those of the wrapper (args, kwargs)
    uses_getsource = bool(fa.calls("getsource"))
    oku = not uses_getsource or bool(unwrapped_bases)
    ck.ob(R, fa.key(None, "locals-of-the-function-read"), oku, "the locals are those of the function whose source is read (looked through its wrappers)" if oku else
          "the source is read through the function's wrappers (inspect.getsource follows __wrapped__) but the locals removed are those of the "
          "wrapper itself: for a decorated helper the names of its own locals stay in the set and real references can be dropped", fa.where())
    import sys as _sys
    if _sys.version_info >= (3, 12):
        okg = bool(globals_kept)
        ck.ob(R, fa.key(None, "comprehension-variables-do-not-hide-globals"), okg,
              "names the code loads as globals stay references even when a comprehension variable has the same name" if okg else
              "since Python 3.12 comprehension variables are listed in co_varnames of the enclosing function: subtracting co_varnames as it "
              "is drops a global that shares its name with a comprehension variable (`[k * 2 for k in xs] + [k]`), so editing that global "
              "keeps the version and a memento function of that name is missing from the closure", fa.where())
    okd = covers_l and (covers_c or bool(selects))
    ck.ob(R, fa.key(None, "difference"), okd, "locals and chains rooted at locals are subtracted" if okd else
          "list_dotted_names no longer subtracts both locals and local-rooted chains", fa.where())
    # chains are removed only when their FIRST COMPONENT is a local (membership of the part before
    # the first '.', not a string-prefix test)
    okc = covers_c and all(c_ is not None for c_ in selects)
    ck.ob(R, fa.key(None, "local-rooted-chains"), okc, "a dotted name is dropped only when its first component is a local" if okc else
          "dotted names are not filtered by membership of their first component in the locals (e.g. a string-prefix test): "
          "`steps.base` is dropped when a parameter is called `step`, and the dependency disappears from the closure", fa.where())
    # nothing else narrows the name set between extraction and return
    narrow = [st for (kind, st, _a) in reductions if kind == "other"]
    ck.ob(R, fa.key(None, "no-further-narrowing"), not narrow, "the extracted names are only reduced by the locals" if not narrow else
          "the extracted name set is narrowed further (`%s`): names the function really refers to (e.g. only inside a nested lambda or generator) "
          "are dropped, and edits to them never change the version" % A.short(narrow[0], 70), fa.where(narrow[0] if narrow else None))
    # the parse cache is keyed by the function object itself (a redefinition is a new object)
    cache_keys = set()
    for n in A.walk_body(fa.node):
        if isinstance(n, ast.Subscript) and A.norm(n.value) == "_dotted_names_cache":
            cache_keys.add(A.norm(n.slice))
        if isinstance(n, ast.Compare) and len(n.ops) == 1 and isinstance(n.ops[0], (ast.In, ast.NotIn)) and A.norm(n.comparators[0]) == "_dotted_names_cache":
            cache_keys.add(A.norm(n.left))
    okk = cache_keys <= {"fn"}
    ck.ob(R, fa.key(None, "cache-keyed-by-object"), okk, "the name cache is keyed by the function object" if okk else
          "the name cache is keyed by %s instead of the function object: a function redefined in place (same module, name and line) gets the "
          "names of its OLD body, so its new dependencies are missed and calls to them are refused" % sorted(cache_keys - {"fn"}), fa.where())
    src = [c for c in fa.calls("getsource")]
    okg = len(src) == 1 and [A.norm(a) for a in src[0].args] == ["fn"]
    ck.ob(R, fa.key(None, "own-source"), okg, "the function's own source is parsed" if okg else "list_dotted_names does not parse inspect.getsource(fn)", fa.where())
    ini = FA(ck, MF + ".__init__")
    dd = [s for s in ini.stmts(ast.Assign) if any(A.dotted(t) == "self.detected_dependencies" for t in s.targets)]
    oc = ini.outcomes("self.detected_dependencies") if dd else None
    # stored through a local that is not re-bound afterwards: what that local finally holds, per path class
    if dd and all(isinstance(s_.value, ast.Name) and ini.df.is_local(s_.value.id) for s_ in dd) and len({s_.value.id for s_ in dd}) == 1 \
            and oc is not None and {txt for (_l, txt) in oc} == {dd[0].value.id}:
        loc_ = dd[0].value.id
        after = ini.cfg.reach(ini.nodes_all(dd), include_start=False)
        if not any(d_.name == loc_ for nid in after for d_ in ini.df.gen.get(nid, [])):
            oc = ini.outcomes(loc_)
    okdd = bool(oc) and {txt for (_l, txt) in oc} == {"list_dotted_names(self.src_fn)", "set()"} \
        and all((("auto_dependencies", True) in l_) == (txt != "set()") and (("auto_dependencies", False) in l_) == (txt == "set()") for (l_, txt) in oc)
    ck.ob(R, ini.key(None, "detected"), okdd, "detected dependencies = dotted names of the source function (when enabled)" if okdd else
          "detected_dependencies is not list_dotted_names(self.src_fn) under auto_dependencies", ini.where())


def check_graph_derivation(ck, R):
    ck.rule(R, "dependency sets are derived from the rules: transitive = all rules carrying a function, minus self; "
               "direct = those marked first_level; first_level means 'reached directly from the root'", 4)
    t = FA(ck, "dependency_graph.DependencyGraph.transitive_memento_fn_dependencies")
    r = t.one(t.returns(), "return")
    # decided on WHAT COLLECTION is returned (comprehension, set(generator) or a set filled by a filtering loop alike)
    spec = _collection_spec(t, r.value, t.nodes(r)[0]) if r.value is not None and t.nodes(r) else None
    ok = spec is not None
    if ok:
        lits = _spec_literals(t, spec)
        ok = t.xnorm(spec["iter"], spec["iter_at"]) == "self._all_rules" and A.norm(_rename(spec["elt"], spec["var"], "_c0")) == "_c0.memento_fn" \
            and lits == {("hasattr(_c0, 'memento_fn')", True), ("_c0.memento_fn == self.memento_fn", False)}
    ck.ob(R, t.key(None), ok, "transitive = every rule with a function, except self" if ok else
          "transitive_memento_fn_dependencies is not {rule.memento_fn for all rules with a function, minus self}", t.where())
    d = FA(ck, "dependency_graph.DependencyGraph.direct_memento_fn_dependencies")
    rd = d.one(d.returns(), "return")
    dspec = _collection_spec(d, rd.value, d.nodes(rd)[0]) if rd.value is not None and d.nodes(rd) else None
    if dspec is not None:
        # decided on WHAT COLLECTION is returned: the rules' functions, filtered by exactly "has a function, not self, first level"
        # (a predicate moved into a local function is read through)
        atoms = []
        for (t, pol) in dspec["atoms"]:
            t2 = _inline_predicate(d, t)
            atoms += _split_atoms(t2, pol) if t2 is not t else [(t, pol)]
        lits = _spec_literals(d, dict(dspec, atoms=atoms))
        need_ = {("hasattr(_c0, 'memento_fn')", True), ("_c0.memento_fn == self.memento_fn", False), ("_c0.first_level", True)}
        okd = d.xnorm(dspec["iter"], dspec["iter_at"]) == "self._all_rules" and A.norm(_rename(dspec["elt"], dspec["var"], "_c0")) == "_c0.memento_fn" \
            and need_ <= lits and lits - need_ <= {("_c0.memento_fn is None", False)}
    else:
        import re as _re
        txt = A.norm(d.node)
        mvar = _re.search(r"\b(\w+)\.first_level\b", txt)
        rv = mvar.group(1) if mvar else "rule"
        okd = mvar is not None and (("%s.memento_fn != self.memento_fn" % rv) in txt or ("self.memento_fn != %s.memento_fn" % rv) in txt) and "self._all_rules" in txt \
            and ("not %s.first_level" % rv) not in txt and " or " not in txt
    ck.ob(R, d.key(None), okd, "direct = first-level rules with a function, except self" if okd else
          "direct_memento_fn_dependencies is not derived from first_level rules", d.where())
    ini = FA(ck, "dependency_graph.DependencyGraph.__init__")
    oki = any(any(A.dotted(t) == "self._all_rules" for t in s_.targets) and ini.nodes(s_) and ini.xnorm(s_.value, ini.nodes(s_)[0]) in ("self.memento_fn.hash_rules()", "memento_fn.hash_rules()")
              for s_ in ini.stmts(ast.Assign))
    ck.ob(R, ini.key(None), oki, "the graph reads the function's current hash rules" if oki else "DependencyGraph does not read memento_fn.hash_rules()", ini.where())
    n = FA(ck, CH + ".NonMementoFunctionHashRule.collect_transitive_dependencies")
    okf = all(A.norm(_call_arg(ck, c, CH + ".HashRule._visit_dependency", "first_level")) == "False" for c in n.calls("_visit_dependency")) and bool(n.calls("_visit_dependency"))
    ck.ob(R, n.key(None, "first-level-false"), okf, "names reached through a plain helper are not direct" if okf else
          "dependencies reached through a plain helper are marked first_level", n.where())
    hr = FA(ck, MF + ".hash_rules")
    def _all_hashing_rules(r):
        """is the value returned self._hash_rules, or its rules in order minus the watch-only ones (which describe no dependency)?"""
        at = hr.nodes(r)[0]
        if hr.xnorm(r.value, at) == "self._hash_rules":
            return True
        spec = _collection_spec(hr, r.value, at)
        if spec is None or hr.xnorm(spec["iter"], spec["iter_at"]) != "self._hash_rules" or A.norm(spec["elt"]) != spec["var"]:
            return False
        return _spec_literals(hr, spec) <= {("_c0.watch_only", False)}

    okh = any(A.call_attr(c) == "_update_dependencies" for c in hr.calls()) and bool(hr.returns()) \
        and all(r.value is not None and hr.nodes(r) and _all_hashing_rules(r)
                and hr.cfg.must_pass(hr.nodes_all(hr.calls("_update_dependencies")), hr.nodes(r)[0]) for r in hr.returns())
    ck.ob(R, hr.key(None), okh, "hash_rules() refreshes before answering" if okh else "hash_rules() does not refresh dependencies first", hr.where())


class _ValueOrigins:
    """Where the ELEMENTS / the value of an expression come from, followed by copying only (assignments, loop variables, what is
    appended to / stored in a local in place, comprehensions, conditional expressions, the returned values of methods of the same
    class and of nested functions with their parameters bound to the call's arguments) - never through the tests of branches.
    Collected origins:
      ("call", <method name>, <receiver, in the terms of the function the walk started in>)   a method call with no argument
                                                                                               on something that is not a local copy
      ("param", <function>, <name>)    a parameter of the function the walk started in
      ("other", <text>, <where>)       a field, a global, a parameter nobody binds"""

    _BUILDERS = {"list", "set", "tuple", "sorted", "frozenset", "reversed", "iter", "filter", "chain", "deque", "dict", "enumerate", "zip", "copy", "deepcopy"}

    def __init__(self, ck, cls):
        self.ck, self.cls = ck, cls
        self.out = set()
        self.seen = set()
        self._mut = {}
        self._fas = {}

    def fa_of(self, fi):
        if fi.qual not in self._fas:
            self._fas[fi.qual] = FA(self.ck, fi)
        return self._fas[fi.qual]

    def mutations(self, fa):
        if fa.qual in self._mut:
            return self._mut[fa.qual]
        m = {}
        for st in fa.stmts():
            if isinstance(st, (ast.If, ast.While, ast.For, ast.AsyncFor, ast.Try, ast.With, ast.AsyncWith)) or not fa.nodes(st):
                continue
            for x in A.walk_local(st):
                if isinstance(x, ast.Call) and isinstance(x.func, ast.Attribute) and isinstance(x.func.value, ast.Name) and (x.args or x.keywords):
                    m.setdefault(x.func.value.id, []).append((fa.nodes(st)[0], list(x.args) + [k.value for k in x.keywords]))
                if isinstance(x, ast.Subscript) and isinstance(x.ctx, ast.Store) and isinstance(x.value, ast.Name) and getattr(st, "value", None) is not None:
                    m.setdefault(x.value.id, []).append((fa.nodes(st)[0], [st.value]))
        self._mut[fa.qual] = m
        return m

    def callee(self, fa, call):
        """the method of the same class / the nested function a call runs, else None"""
        f = call.func
        if isinstance(f, ast.Name):
            cur = fa.fi
            while cur is not None:
                if f.id in cur.nested:
                    return cur.nested[f.id]
                cur = cur.parent
            return None
        if isinstance(f, ast.Attribute) and isinstance(f.value, ast.Name) and self.cls is not None and f.attr in self.cls.methods \
                and f.value.id in ("self", "cls", self.cls.name):
            return self.cls.methods[f.attr]
        return None

    def subject(self, fa, e, at, bind):
        """`e` in the terms of the function the walk started in: a parameter is replaced by what the call bound to it"""
        ex = fa.expand(e, at)
        if isinstance(ex, ast.Name) and bind is not None and ex.id in bind:
            b = bind[ex.id]
            if b is None:
                return "<default>"
            return self.subject(b[0], b[1], b[2], b[3])
        return A.norm(ex)

    def walk(self, fa, e, at, bind=None, bound=frozenset()):
        if e is None or at is None:
            return
        k = (fa.qual, id(e), at, id(bind))
        if k in self.seen:
            return
        self.seen.add(k)
        if isinstance(e, ast.Constant) or isinstance(e, (ast.Compare, ast.Lambda, ast.JoinedStr)):
            return
        if isinstance(e, ast.IfExp):
            self.walk(fa, e.body, at, bind, bound)
            self.walk(fa, e.orelse, at, bind, bound)
            return
        if isinstance(e, (ast.ListComp, ast.SetComp, ast.GeneratorExp, ast.DictComp)):
            b2 = set(bound)
            for g in e.generators:
                self.walk(fa, g.iter, at, bind, frozenset(b2))
                b2 |= {x.id for x in ast.walk(g.target) if isinstance(x, ast.Name)}
            for part in ([e.key, e.value] if isinstance(e, ast.DictComp) else [e.elt]):
                self.walk(fa, part, at, bind, frozenset(b2))
            return
        if isinstance(e, ast.Call) and isinstance(e.func, ast.Name) and e.func.id == "getattr" and len(e.args) >= 2 and A.const_str(e.args[1]):
            self.walk(fa, ast.copy_location(ast.Attribute(value=e.args[0], attr=A.const_str(e.args[1]), ctx=ast.Load()), e), at, bind, bound)
            for x in e.args[2:]:
                self.walk(fa, x, at, bind, bound)
            return
        if isinstance(e, ast.Call):
            sub = self.callee(fa, e)
            if sub is not None:
                ps = [p_ for p_ in sub.params if not (p_ in ("self", "cls") and not sub.is_static and sub.cls is not None and sub.parent is None)]
                nb = {}
                a_ = sub.node.args
                for i, p_ in enumerate(ps):
                    v = A.arg_or_kw(e, i, p_)
                    nb[p_] = (fa, v, at, bind) if v is not None else None
                sfa = self.fa_of(sub)
                for r in sfa.returns():
                    if r.value is not None and sfa.nodes(r):
                        self.walk(sfa, r.value, sfa.nodes(r)[0], nb, frozenset())
                return
            rcv = A.call_recv(e)
            if rcv is not None and not e.args and not e.keywords and A.call_attr(e) not in ("copy", "keys", "values", "items"):
                root = rcv
                while isinstance(root, (ast.Attribute, ast.Subscript)):
                    root = root.value
                local_copy = isinstance(root, ast.Name) and fa.df.is_local(root.id) and root.id not in fa.fi.params and root.id not in bound
                if not local_copy:
                    self.out.add(("call", A.call_attr(e), self.subject(fa, rcv, at, bind)))
                    return
            inputs = ([rcv] if rcv is not None else []) + list(e.args) + [k_.value for k_ in e.keywords]
            if not inputs and not (isinstance(e.func, ast.Name) and e.func.id in self._BUILDERS):
                self.out.add(("other", A.short(e, 60), fa.where(e)))
            for x in inputs:
                self.walk(fa, x, at, bind, bound)
            return
        if isinstance(e, ast.Name):
            if e.id in bound or not isinstance(e.ctx, ast.Load):
                return
            if not fa.df.is_local(e.id):
                if fa.fi.parent is not None and e.id not in dir(__builtins__):
                    # a variable of the enclosing function, read by a nested one: followed from where the nested function is defined
                    host = self.fa_of(fa.fi.parent)
                    if host.df.is_local(e.id) and host.nodes(fa.fi.node):
                        self.walk(host, ast.copy_location(ast.Name(id=e.id, ctx=ast.Load()), fa.fi.node), host.nodes(fa.fi.node)[0], None, frozenset())
                        return
                if e.id not in self._BUILDERS and e.id not in ("None", "True", "False"):
                    self.out.add(("other", e.id, fa.where(e)))
                return
            for d in fa.df.reaching(at, e.id):
                if d.kind == "param":
                    if e.id in ("self", "cls"):
                        continue
                    if bind is not None and e.id in bind:
                        b = bind[e.id]
                        if b is None:
                            dv = self._default(fa, e.id)
                            if dv is not None and not isinstance(dv, ast.Constant):
                                self.out.add(("other", "default of `%s`" % e.id, fa.where()))
                        else:
                            self.walk(b[0], b[1], b[2], b[3], frozenset())
                    else:
                        self.out.add(("param", fa.fi.name, e.id))
                elif d.value is not None:
                    if d.kind in ("for", "unpack") or isinstance(d.value, (ast.expr,)):
                        self.walk(fa, d.value, d.node, bind, frozenset())
            for (mn, exprs) in self.mutations(fa).get(e.id, []) if e.id not in fa.fi.params else []:
                for x in exprs:
                    self.walk(fa, x, mn, bind, frozenset())
            return
        if isinstance(e, ast.Attribute):
            root = e
            while isinstance(root, (ast.Attribute, ast.Subscript)):
                root = root.value
            if isinstance(root, ast.Name) and (root.id in bound or (fa.df.is_local(root.id) and root.id not in fa.fi.params)):
                self.walk(fa, e.value, at, bind, bound)
            elif isinstance(root, ast.Name) and bind is not None and root.id in bind and bind[root.id] is not None:
                self.out.add(("other", "%s of %s" % (e.attr, self.subject(fa, e.value, at, bind)), fa.where(e)))
            elif isinstance(root, ast.Name):
                self.out.add(("other", A.norm(e), fa.where(e)))
            else:
                self.walk(fa, e.value, at, bind, bound)
            return
        if isinstance(e, ast.Subscript):
            self.walk(fa, e.value, at, bind, bound)
            return
        if isinstance(e, ast.BoolOp):
            for v in e.values:
                self.walk(fa, v, at, bind, bound)
            return
        if isinstance(e, ast.BinOp):
            self.walk(fa, e.left, at, bind, bound)
            self.walk(fa, e.right, at, bind, bound)
            return
        if isinstance(e, (ast.Tuple, ast.List, ast.Set)):
            for x in e.elts:
                self.walk(fa, x, at, bind, bound)
            return
        if isinstance(e, (ast.Starred, ast.Await, ast.NamedExpr)):
            self.walk(fa, e.value, at, bind, bound)
            return
        if isinstance(e, ast.Dict):
            for x in e.values:
                self.walk(fa, x, at, bind, bound)
            return

    @staticmethod
    def _default(fa, name):
        a_ = fa.node.args
        pos = a_.posonlyargs + a_.args
        for i, x in enumerate(pos):
            if x.arg == name:
                j = i - (len(pos) - len(a_.defaults))
                return a_.defaults[j] if j >= 0 else None
        for x, dv in zip(a_.kwonlyargs, a_.kw_defaults):
            if x.arg == name:
                return dv
        return None


def check_graph_nodes_from_own_rules(ck, R):
    """The dependency graph links every memento function to what IT reaches: the node of a function is built from the hash rules of
    that very function (`<the function>.hash_rules()`, collected with its own package scope, its own first-level marks and its own
    parent symbols).  Rules collected for another function - the root of the whole graph, the caller's - are a different set: what
    a dependency reaches through plain helpers of its own package is outside the root's package scope and only watched there."""
    ck.rule(R, "every node of the dependency graph is built from the hash rules of the node's own function", 1)
    g = FA(ck, "dependency_graph.DependencyGraph.generate_graph")
    cls = ck.repo.cls("dependency_graph.DependencyGraph")
    rec = [c for c in g.calls("generate_graph") if g.nodes(c)]
    ck.need(bool(rec), "generate_graph: no recursive call found (the graph is expected to be built by descending into each dependency)")
    params = [p_ for p_ in g.fi.params if p_ not in ("self", "cls")]
    GQ = "dependency_graph.DependencyGraph.generate_graph"
    def fn_of_a_rule(e, at):
        """`<rule>.memento_fn` / getattr(<rule>, 'memento_fn'[, default]), through temporaries"""
        ex = g.expand(e, at)
        return (isinstance(ex, ast.Attribute) and ex.attr == "memento_fn") or \
            (isinstance(ex, ast.Call) and isinstance(ex.func, ast.Name) and ex.func.id == "getattr" and len(ex.args) >= 2 and A.const_str(ex.args[1]) == "memento_fn")

    fn_params = [p_ for p_ in params if all(_call_arg(ck, c, GQ, p_) is not None and fn_of_a_rule(_call_arg(ck, c, GQ, p_), g.nodes(c)[0]) for c in rec)]
    ck.need(len(fn_params) == 1, "generate_graph: expected one parameter that the recursive calls bind to `<rule>.memento_fn` (the function of the sub-graph), found %d" % len(fn_params))
    P = fn_params[0]
    vo = _ValueOrigins(ck, cls)
    for c in rec:
        vo.walk(g, _call_arg(ck, c, GQ, P), g.nodes(c)[0])
    origins = vo.out
    ck.need(bool(origins), "generate_graph: could not follow where the rules of a node come from")
    good = {o for o in origins if o[0] == "call" and o[1] == "hash_rules" and o[2] == P}
    bad = sorted(origins - good, key=str)
    ok = bool(good) and not bad

    def say(o):
        if o[0] == "call":
            return "`%s.%s()`" % (o[2], o[1])
        if o[0] == "param":
            return "parameter `%s` of %s (handed in by the caller, collected for whatever function the caller had)" % (o[2], o[1])
        return "`%s`" % o[1]
    ck.ob(R, g.key(None, "node-from-own-rules"), ok, "the rules a node's edges are made from are `%s.hash_rules()`" % P if ok else
          "the rules from which generate_graph makes the edges of the node of `%s` can come from %s, not (only) from `%s.hash_rules()`: rules collected "
          "for another function carry that function's package scope and first-level marks, so what a dependency of another package reaches through "
          "its own plain helpers is missing (those helpers are only watched from the root's scope) - its edges and the functions behind them "
          "vanish from graph()/df() while its own dependencies() still lists them" % (P, "; ".join(say(o) for o in bad[:3]) or "nowhere visible", P),
          bad[0][2] if bad and bad[0][0] == "other" else g.where(rec[0]))


def check_names_resolved_where_defined(ck, R):
    """The names found in a function's source are looked up in the globals of the function that source belongs to.
    inspect.getsource (list_dotted_names) and fn_code_hash look through functools.wraps wrappers, so every `__globals__`
    the dependency walk reads must be taken from the function looked through its wrappers as well: the wrapper's own
    `__globals__` is the module of the decorator, where the helper's references do not resolve (D40)."""
    ck.rule(R, "referenced names are resolved in the globals of the function whose source was read (wrappers looked through)", 1)
    v = FA(ck, CH + ".HashRule._visit_dependency")
    src = v.fi.params[1] if len(v.fi.params) > 1 else "src_fn"
    reads = [n for n in ast.walk(v.node) if (isinstance(n, ast.Attribute) and n.attr == "__globals__" and isinstance(n.ctx, ast.Load))
             or (isinstance(n, ast.Call) and A.call_attr(n) == "getattr" and isinstance(n.func, ast.Name) and len(n.args) >= 2 and A.const_str(n.args[1]) == "__globals__")]
    reads = [n for n in reads if v.enclosing(n, (ast.Assign, ast.AnnAssign)) is not None or v.enclosing(n, ast.Return) is not None]
    ck.need(bool(reads), "_visit_dependency: no read of __globals__ found")
    for n in reads:
        st = v.enclosing(n, (ast.Assign, ast.AnnAssign)) or v.enclosing(n, ast.Return)
        at = v.nodes(st)[0] if v.nodes(st) else None
        if at is None:
            continue
        chain = n if isinstance(n, ast.Attribute) else ast.copy_location(ast.Attribute(value=n.args[0], attr="__globals__", ctx=ast.Load()), n)
        u = _chain_through_unwrap(v, chain, at)
        ok = u is not None and u[1] == src
        ck.ob(R, v.key(None, "globals-of-the-function-read"), ok, "names are resolved in the globals of the wrapped function" if ok else
              "`%s` is read from the object as given: for a helper decorated by a functools.wraps decorator of another module that is the "
              "decorator's module, so the memento functions the helper calls are not found (missing from the closure, "
              "UndeclaredDependencyError at run time)" % A.norm(n), v.where(st))


def _class_unit(ck, fa):
    """`fa` together with the methods of its own class it calls (transitively)."""
    cls = ck.repo.try_cls(fa.fi.qual.rsplit(".", 1)[0]) if "." in fa.fi.qual else None
    unit, seen, work = [fa], {fa.fi.name}, [fa]
    while work and cls is not None:
        cur = work.pop()
        for c in cur.calls():
            nm = A.call_attr(c)
            if nm in cls.methods and nm not in seen:
                seen.add(nm)
                sub = FA(ck, cls.methods[nm])
                unit.append(sub)
                work.append(sub)
    return unit


def check_variable_kinds_described(ck, R):
    """The hash of a tracked variable tells apart the values a program can tell apart.  The value is serialised through the
    ARGUMENT codec, which deliberately conflates some kinds (whatever isinstance group it maps to one type tag - list and
    tuple - and dictionary keys, which JSON writes as strings): the serialisation has to describe those kinds itself (D41)."""
    ck.rule(R, "kinds of value the argument codec conflates (tuple / list, non-string dictionary keys) are described in a tracked variable's hash", 2)
    enc = FA(ck, "serialization.MementoCodec.encode_arg")
    KINDS = ("list", "tuple", "set", "frozenset", "dict")
    groups = []
    for nd in enc.cfg.nodes:
        if nd.kind != "test":
            continue
        tys = set()
        for atom in A.test_atoms(nd.ast):
            it = A.isinstance_types(atom)
            if it and it[0] == (enc.fi.params[1] if len(enc.fi.params) > 1 else "obj"):
                tys |= set(it[1])
        builtin = {t for t in tys if t in KINDS}
        if len(builtin) >= 2:
            groups.append(builtin)
    if not groups:
        # the ladder may have been split over methods of the codec / functions of the module, or turned into a dispatch table
        # scanned with isinstance: the kinds one branch takes together are then one test of a helper on its parameter, or one
        # entry of a table the unit reads
        emod = enc.fi.module
        ecls = enc.fi.cls
        unit_fis, seen_f, work = [enc.fi], {enc.fi.qual}, [enc.fi]
        while work:
            cur = work.pop()
            for c in ast.walk(cur.node):
                if not isinstance(c, ast.Call):
                    continue
                f_ = None
                if isinstance(c.func, ast.Name):
                    f_ = cur.nested.get(c.func.id) or emod.functions.get(c.func.id)
                elif isinstance(c.func, ast.Attribute) and isinstance(c.func.value, ast.Name) and ecls is not None \
                        and c.func.value.id in ("cls", "self", ecls.name) and c.func.attr in ecls.methods:
                    f_ = ecls.methods[c.func.attr]
                if f_ is not None and f_.qual not in seen_f:
                    seen_f.add(f_.qual)
                    unit_fis.append(f_)
                    work.append(f_)
        for f_ in unit_fis:
            for x in ast.walk(f_.node):
                if isinstance(x, (ast.If, ast.While, ast.IfExp)):
                    tys = set()
                    for atom in A.test_atoms(x.test):
                        it = A.isinstance_types(atom)
                        if it and it[0] in f_.params:
                            tys |= set(it[1])
                    builtin = {t for t in tys if t in KINDS}
                    if len(builtin) >= 2 and builtin not in groups:
                        groups.append(builtin)
        tables = {}
        for st in emod.tree.body + (list(ecls.node.body) if ecls is not None else []):
            if isinstance(st, (ast.Assign, ast.AnnAssign)) and st.value is not None:
                for t_ in (st.targets if isinstance(st, ast.Assign) else [st.target]):
                    if isinstance(t_, ast.Name):
                        tables[t_.id] = st.value
        read = {x.id for f_ in unit_fis for x in ast.walk(f_.node) if isinstance(x, ast.Name) and x.id in tables} | \
               {x.attr for f_ in unit_fis for x in ast.walk(f_.node) if isinstance(x, ast.Attribute) and x.attr in tables and isinstance(x.value, ast.Name)
                and x.value.id in ("cls", "self", ecls.name if ecls is not None else "")}
        scanned = any(isinstance(x, ast.Call) and isinstance(x.func, ast.Name) and x.func.id == "isinstance" and len(x.args) == 2 and isinstance(x.args[1], ast.Name)
                      for f_ in unit_fis for x in ast.walk(f_.node))
        for nm_ in sorted(read) if scanned else []:
            for x in ast.walk(tables[nm_]):
                if isinstance(x, ast.Tuple) and x.elts and all(isinstance(e_, ast.Name) for e_ in x.elts):
                    builtin = {e_.id for e_ in x.elts if e_.id in KINDS}
                    if len(builtin) >= 2 and builtin not in groups:
                        groups.append(builtin)
    ck.need(bool(groups), "encode_arg: no isinstance group of container kinds found (list / tuple)")
    sv = FA(ck, CH + ".GlobalVariableHashRule._serialize_value")
    unit = _class_unit(ck, sv)
    tests = []
    for u in unit:
        for x in ast.walk(u.node):
            it = A.isinstance_types(x) if isinstance(x, ast.Call) else None
            if it:
                tests.append(set(it[1]))
    # what the helpers find reaches the serialisation: a returned value depends on a local handed to a helper of the unit,
    # or on the helper's result
    handed = set()
    for c in sv.calls():
        if A.call_attr(c) in {u.fi.name for u in unit[1:]}:
            handed.add("call:" + A.call_attr(c))
            for a_ in list(c.args) + [k.value for k in c.keywords]:
                if isinstance(a_, ast.Name) and sv.df.is_local(a_.id) and a_.id not in sv.fi.params:
                    handed.add("local:" + a_.id)
    def reaches(r):
        d = sv.df.deps(r.value, sv.nodes(r)[0])
        return any(h in d for h in handed) or any(isinstance(x, ast.Name) and ("local:" + x.id) in handed for x in _flow(sv, r.value, sv.nodes(r)[0]).values()) \
            or any(isinstance(x, ast.Name) and ("local:" + x.id) in handed for x in ast.walk(r.value))
    flows = all(r.value is None or A.is_none(r.value) or not sv.nodes(r) or reaches(r) or len(unit) == 1 for r in sv.returns())
    for g in groups:
        ok = any(t and t < g for t in tests) and (flows or len(unit) == 1)
        ck.ob(R, sv.key(None, "kinds-described:" + "/".join(sorted(g))), ok, "%s are told apart in the hash of a tracked variable" % " and ".join(sorted(g)) if ok else
              "the hash of a tracked variable is taken from its encoding as an argument, which writes %s alike, and nothing else describes the "
              "kind: editing G = (1, 2) into G = [1, 2] leaves every version where it was and results computed with the old value are served"
              % " and ".join(sorted(g)), sv.where())
    okk = any(t == {"str"} for t in tests) and (flows or len(unit) == 1)
    ck.ob(R, sv.key(None, "kinds-described:keys"), okk, "non-string dictionary keys are described in the hash of a tracked variable" if okk else
          "the hash of a tracked variable is taken from a JSON dump, which writes every dictionary key as a string, and nothing else describes "
          "the keys: editing G = {1: 'a'} into G = {'1': 'a'} leaves every version where it was", sv.where())


def _fresh_or_constant(e) -> bool:
    """a value that carries nothing over from an earlier call: a constant, or a container made on the spot"""
    if e is None or isinstance(e, ast.Constant):
        return True
    if isinstance(e, (ast.Set, ast.List, ast.Tuple, ast.Dict)):
        return True
    return isinstance(e, ast.Call) and isinstance(e.func, ast.Name) and e.func.id in ("set", "list", "dict", "tuple", "frozenset") and not e.args and not e.keywords


def check_edges_of_a_node_depend_on_its_function_only(ck, R):
    """The dependency graph links EACH memento function to those it reaches without passing through another memento function.  The
    rules between a function and the first memento functions below it (what its edges are made from) are therefore a function of
    that function's own hash rules alone: whatever the derivation consults to decide which rules to follow or to return - the set
    that stops the walk on a cycle, the work list - is made inside the call.  State that outlives the call (a parameter the caller
    binds to a set it keeps for the whole graph, a field of the class, a module-level container) makes the answer for one function
    depend on which functions of the graph were asked before it: a plain helper followed for the first function is not followed
    again for the second, and the second loses its edges to the memento functions behind that helper."""
    ck.rule(R, "the rules from which a node's edges are made depend on the node's own function only (no state carried from one function of the graph to the next)", 1)
    Q = "dependency_graph.DependencyGraph._rules_until_first_memento_fn"
    fa = FA(ck, Q)
    if fa.host_fallback:
        # the derivation was folded into its caller (one call of generate_graph per function): its working sets are locals there
        ck.ob(R, fa.key(None, "edges-from-own-function"), True, "the derivation is part of the per-function step of generate_graph", fa.where())
        return
    rets = [r for r in fa.returns() if r.value is not None and fa.nodes(r)]
    ck.need(bool(rets), "_rules_until_first_memento_fn: no returned value found")
    sl = _backward_slice(fa, [(r.value, fa.nodes(r)[0]) for r in rets], stmts=rets)
    # the parameter that stands for the function: the one whose hash rules are read
    fn_params = set()
    for c in fa.calls("hash_rules"):
        r_ = A.call_recv(c)
        if isinstance(r_, ast.Name) and r_.id in fa.fi.params:
            fn_params.add(r_.id)
    ck.need(len(fn_params) == 1, "_rules_until_first_memento_fn: expected one parameter whose hash_rules() are read, found %d" % len(fn_params))
    own = {"self", "cls"} | fn_params
    mod = fa.fi.module
    carried = []   # (what, where)
    sites = ck.cg.call_sites_of(lambda c, cands: any(f.qual == Q for f in cands))
    for n in sl.values():
        if isinstance(n, ast.Name) and isinstance(n.ctx, ast.Load):
            if n.id in fa.fi.params and n.id not in own:
                at = (fa.nodes(n) or [None])[0]
                if at is not None and not any(d.kind == "param" for d in fa.df.reaching(at, n.id)):
                    continue   # re-bound before this read
                dflt = _ValueOrigins._default(fa, n.id)
                binds = []
                for (caller, call, _c) in sites:
                    a_ = _call_arg(ck, call, Q, n.id)
                    if a_ is not None:
                        binds.append((caller, call, a_))
                    elif any(isinstance(x, ast.Starred) for x in call.args) or any(k.arg is None for k in call.keywords):
                        binds.append((caller, call, None))
                for (caller, call, a_) in binds:
                    if a_ is not None and not _fresh_or_constant(a_):
                        # something computed from the very function the call is about (`f.hash_rules()` handed in next to `f`)
                        cfa = FA(ck, caller)
                        f_ = _call_arg(ck, call, Q, sorted(fn_params)[0])
                        if f_ is not None and cfa.nodes(call):
                            at_ = cfa.nodes(call)[0]
                            about = {x.id for x in ast.walk(cfa.expand(f_, at_)) if isinstance(x, ast.Name)}
                            used = {x.id for x in ast.walk(cfa.expand(a_, at_)) if isinstance(x, ast.Name)} - {"self", "cls", "set", "list", "tuple", "sorted", "frozenset", "dict"}
                            if used and used <= about:
                                continue
                            # a container made for this very call, handed in through a temporary
                            if isinstance(a_, ast.Name) and cfa.df.is_local(a_.id):
                                ds_ = cfa.df.reaching(at_, a_.id)
                                loops = (ast.For, ast.AsyncFor, ast.While)
                                if ds_ and all(d.kind == "assign" and d.value is not None and not isinstance(d.value, ast.Constant) and _fresh_or_constant(d.value)
                                               and d.stmt is not None and cfa.enclosing(d.stmt, loops) is cfa.enclosing(call, loops) for d in ds_):
                                    continue
                    if a_ is None or not _fresh_or_constant(a_):
                        carried.append(("parameter `%s`, which %s binds to `%s`" % (n.id, caller.qual, A.short(a_, 40) if a_ is not None else "*args/**kwargs"),
                                        "%s:%d" % (caller.file, call.lineno)))
                if dflt is not None and not isinstance(dflt, ast.Constant):
                    carried.append(("parameter `%s`, whose default `%s` is one object shared by all calls" % (n.id, A.short(dflt, 40)), fa.where()))
            elif not fa.df.is_local(n.id) and n.id in mod.assigns and not isinstance(mod.assigns[n.id], ast.Constant) \
                    and n.id not in mod.functions and n.id not in mod.classes:
                v_ = mod.assigns[n.id]
                if isinstance(v_, (ast.Set, ast.List, ast.Dict)) or (isinstance(v_, ast.Call) and A.call_attr(v_) in ("set", "list", "dict", "defaultdict", "OrderedDict", "WeakSet", "WeakKeyDictionary", "WeakValueDictionary", "deque")):
                    carried.append(("module-level container `%s`" % n.id, fa.where(fa.stmt_of(n)) if fa.stmt_of(n) is not None else fa.where()))
        elif isinstance(n, ast.Attribute) and isinstance(n.ctx, ast.Load) and isinstance(n.value, ast.Name) and n.value.id in ("self", "cls") \
                and n.value.id in fa.fi.params:
            par = fa.pm.get(n)
            if isinstance(par, ast.Call) and par.func is n:
                continue   # a method of the class
            carried.append(("field `%s`" % A.norm(n), fa.where(fa.stmt_of(n)) if fa.stmt_of(n) is not None else fa.where()))
    carried = sorted(set(carried))
    ok = not carried
    ck.ob(R, fa.key(None, "edges-from-own-function"), ok,
          "which rules are followed and returned for `%s` is decided from its own hash rules and sets made inside the call" % sorted(fn_params)[0] if ok else
          "which rules _rules_until_first_memento_fn follows and returns for `%s` also depends on %s: state that lives longer than the call, so the "
          "answer for one function depends on the functions asked before it - a plain helper already followed for another function of the graph "
          "is not followed again, and every further memento function that reaches a memento function through that helper loses its edge in "
          "graph()/df() (its own dependencies().df() still shows it)" % (sorted(fn_params)[0], "; ".join(w for (w, _l) in carried[:3])),
          carried[0][1] if carried else fa.where())
