"""C19 — read-only and null back-ends never write and never execute (structural part).

Decides: persistent-write effects are unreachable on the read_only side of every guard (R1);
queries are effect-free (R2 = C05.R3); flag plumbing (R3); null storage answers constant
negatives without effects (R4); the null runner cannot reach a function body (R5).
"""
import ast

from .. import astutil as A
from ..fa import FA, log_call
from .effects import reach_effects, storage_backend_classes, QUERY_METHODS, MUTATOR_METHODS, Assume, effective_function
from .c05 import check_queries_effect_free


def _persist_owner(ck, owner_qual):
    repo = ck.repo
    bases = [repo.cls("storage.StorageBackend"), repo.cls("storage_base.DataSource"), repo.cls("storage_base.MetadataSource")]
    c = repo.try_cls(owner_qual)
    return c is not None and any(repo.is_subclass(c, b) for b in bases)


def persistent_effect_nodes(ck, fa: FA):
    """Statements of `fa` with a persistent-write effect: a direct fs write / backend-table
    mutation, or a call that reaches one.  -> [(stmt-or-expr node, description)]"""
    cg = ck.cg
    out = []
    # (a method whose statements were gathered from a helper it delegates to: the sites recorded for either)
    quals = list(getattr(fa.fi, "parts", [fa.qual]))
    for n in [n for q in quals for n in cg.fs_write_sites.get(q, [])]:
        out.append((n, "filesystem write %s" % A.short(n, 50)))
    for (owner, fld, n) in [x for q in quals for x in cg.field_mut_sites.get(q, [])]:
        if _persist_owner(ck, owner) and fld.split(":")[0] not in ("read_only", "config", "storage_type"):
            out.append((n, "mutation of %s.%s" % (owner.split(".")[-1], fld)))
    for (call, cands, how) in [x for q in quals for x in cg.edges.get(q, [])]:
        if len(quals) > 1 and not fa.nodes(call):
            continue        # the delegating call itself: its statements are here in its place
        for c in cands:
            if c.cls is not None and c.cls.qual == "storage_base.MemoryCache":
                continue
            fs, muts, prev = reach_effects(ck, c)
            pm = [m for m in muts if _persist_owner(ck, m[0])]
            if fs:
                out.append((call, "call reaching a filesystem write (%s via %s)" % (A.short(fs[0][1], 40), fs[0][2])))
                break
            if pm:
                out.append((call, "call reaching a mutation of %s.%s via %s" % (pm[0][0].split(".")[-1], pm[0][1], pm[0][4])))
                break
    # an operation dispatched by name -- getattr(layer, 'forget_call')(..), operator.methodcaller('forget_call', ..)(layer), a
    # bound method taken first -- is a call of every method of that name on a class that owns persistent state
    from .c05 import _operation_sites
    from .cache_model import safe_expand
    known = {id(call) for q in quals for (call, cands, how) in cg.edges.get(q, []) if cands}
    lits = set(A.strings_in(fa.node))
    for nm in sorted(lits):
        if not nm.isidentifier():
            continue
        targets = [m for c_ in ck.repo.modules.values() for k in c_.all_classes() for (mn, m) in k.methods.items()
                   if mn == nm and _persist_owner(ck, k.qual) and m.node is not None and not ck.repo.is_abstract(m)]
        if not targets:
            continue
        for (call, recv, args, kws) in _operation_sites(fa, nm):
            if id(call) in known or A.norm(safe_expand(fa, recv, call)).endswith("._memory_cache"):
                continue        # (the memory cache is not persistent state)
            for m in targets:
                fs, muts, prev = reach_effects(ck, m)
                pm = [x for x in muts if _persist_owner(ck, x[0])]
                if fs:
                    out.append((call, "call (dispatched by name) reaching a filesystem write (%s via %s)" % (A.short(fs[0][1], 40), fs[0][2])))
                    break
                if pm:
                    out.append((call, "call (dispatched by name) reaching a mutation of %s.%s via %s" % (pm[0][0].split(".")[-1], pm[0][1], pm[0][4])))
                    break
    return out


def _ro_edge_filter(fa: FA):
    """Edges consistent with self.read_only == True: every branch test is evaluated three-valued with
    `self.read_only` (through temporaries, negations, conjunctions, `is True` / `== False` comparisons) taken
    as true; an edge the test excludes is infeasible."""
    def atom(e):
        if isinstance(e, ast.Attribute) and A.dotted(e) == "self.read_only":
            return True
        if isinstance(e, ast.Compare) and len(e.ops) == 1 and isinstance(e.ops[0], (ast.Is, ast.Eq)) \
                and A.dotted(e.left) == "self.read_only" and isinstance(e.comparators[0], ast.Constant) \
                and isinstance(e.comparators[0].value, bool):
            return e.comparators[0].value is True
        # the flag seen through a property of the class (`self._writable` returning `not self.read_only`): what the property
        # returns, evaluated under the same assumption
        if isinstance(e, ast.Attribute) and isinstance(e.value, ast.Name) and e.value.id == "self" and fa.fi.cls is not None and depth[0] < 3:
            m = fa.ck.repo.find_method(fa.fi.cls, e.attr)
            if m is not None and m.node is not None and "property" in m.decorators and len(m.params) == 1 and m.params[0] == "self":
                body = [st for st in m.node.body if not (isinstance(st, ast.Expr) and isinstance(st.value, ast.Constant))]
                if len(body) >= 1 and isinstance(body[-1], ast.Return) and body[-1].value is not None \
                        and all(isinstance(st, (ast.Assign, ast.AnnAssign)) for st in body[:-1]) \
                        and not any(isinstance(x, ast.Call) for st in body for x in ast.walk(st)):
                    try:
                        val = FA(fa.ck, m).expand(body[-1].value)
                    except Exception:  # noqa - a property the expander cannot place: unknown
                        return None
                    depth[0] += 1
                    try:
                        return holder["asm"].ev(val)
                    finally:
                        depth[0] -= 1
        return None
    depth, holder = [0], {}
    asm = Assume(fa, atom)
    holder["asm"] = asm
    tests = [n.id for n in fa.cfg.nodes if n.kind == "test" and asm.truth(n.ast, n.id) is not None]
    return asm.edge_ok, tests, asm


def check_guard(ck):
    R = "C19.R1"
    ck.rule(R, "guard dominates effect: in every public method of every StorageBackend implementation, no "
               "persistent-write effect is reachable on paths consistent with read_only == True; memoize exits "
               "silently, forget_* and write_metadata raise", 12)
    repo = ck.repo
    seen = set()
    for cls in storage_backend_classes(ck):
        # all public methods visible on this class
        names = set()
        for c in repo.mro(cls):
            for n in c.methods:
                if not n.startswith("_"):
                    names.add(n)
        for name in sorted(names):
            m = repo.find_method(cls, name)
            if m is None or repo.is_abstract(m) or m.qual in seen or name in ("create", "register", "to_dict"):
                continue
            seen.add(m.qual)
            # the statements that run when the method is called: wrappers of new decorators applied, a body that only
            # delegates to a new helper replaced by the helper's
            fa = FA(ck, effective_function(ck, m))
            effs = persistent_effect_nodes(ck, fa)
            if name in QUERY_METHODS:
                continue  # decided by R2 (must have no effect at all)
            edge_ok, tests, asm = _ro_edge_filter(fa)
            live = fa.cfg.reach([fa.cfg.entry], edge_ok=edge_ok)
            bad = []
            for (node, desc) in effs:
                for i in fa.nodes(node):
                    # reachable, and not in an arm of a conditional expression / behind an `and` / `or` that the flag excludes
                    if i in live and (isinstance(node, ast.stmt) or asm.evaluated(node, i) is not False):
                        bad.append((node, desc))
                        break
            if effs:
                ck.ob(R, fa.key(None, "guarded"), not bad,
                      "%d persistent effects, all on the writable side of the read_only guard" % len(effs) if not bad else
                      "with read_only=True %s is still reachable: %s" % (A.short(bad[0][0], 50), bad[0][1]),
                      fa.where(bad[0][0]) if bad else fa.where())
                # reaction: memoize silent, the others raise
                if name == "memoize":
                    ok = fa.cfg.exit in live
                    ck.ob(R, fa.key(None, "silent"), ok, "read-only memoize returns silently" if ok else
                          "read-only memoize does not return normally", fa.where())
                elif name in MUTATOR_METHODS:
                    ok = fa.cfg.exit not in live and fa.cfg.raise_exit in live
                    ck.ob(R, fa.key(None, "rejects"), ok, "read-only %s is rejected with an exception" % name if ok else
                          "read-only %s returns normally instead of being rejected" % name, fa.where())
            elif name in MUTATOR_METHODS:
                ck.note(R, fa.key(None, "no-effect"), "no persistent effect in %s" % m.qual)


def _flag_by_cases(fa: FA) -> bool:
    """What self.read_only holds at the normal exit, case by case (the value followed through locals along the ways that are
    feasible in each case): a given argument (not None) is taken as it is; without one the configuration's 'readonly' is
    taken, and False when the configuration has none."""
    def is_none_test(e):
        return isinstance(e, ast.Compare) and len(e.ops) == 1 and isinstance(e.ops[0], ast.Is) and isinstance(e.left, ast.Name) \
            and e.left.id == "read_only" and A.is_none(e.comparators[0])

    def has_key_test(e):
        return isinstance(e, ast.Compare) and len(e.ops) == 1 and isinstance(e.ops[0], ast.In) and A.const_str(e.left) == "readonly"

    def final_texts(asm):
        IN = asm.IN()
        ds = [d for d in IN.get(fa.cfg.exit, ()) if d.name == "self.read_only"]
        if not ds or any(d.kind != "assign" or d.value is None for d in ds):
            return None
        out = set()
        for d in ds:
            out |= asm.texts(d.value, d.node, IN)
        return out

    def cfg_read(t):
        return t.endswith(".get('readonly', False)") or t.endswith("['readonly']")

    given = final_texts(Assume(fa, lambda e: False if is_none_test(e) else None))
    with_key = final_texts(Assume(fa, lambda e: True if is_none_test(e) else (True if has_key_test(e) else None)))
    without = final_texts(Assume(fa, lambda e: True if is_none_test(e) else (False if has_key_test(e) else None)))
    if not given or not with_key or not without:
        return False
    return given == {"read_only"} and all(cfg_read(t) for t in with_key) \
        and all(t.endswith(".get('readonly', False)") or t == "False" for t in without)


def check_plumbing(ck):
    R = "C19.R3"
    ck.rule(R, "flag plumbing: the base constructor reads 'readonly' from the configuration and lets the argument "
               "override it; every backend constructor forwards its read_only parameter", 3)
    fa = FA(ck, "storage.StorageBackend.__init__")
    # decided on what self.read_only finally holds in each case (argument given / not given, configuration with / without the key)
    ok = _flag_by_cases(fa)
    ck.ob(R, fa.key(None, "config-then-arg"), ok, "read_only = config['readonly'] (default False), then the argument overrides" if ok else
          "the base constructor no longer reads 'readonly' (default False) and lets a non-None argument override it", fa.where())
    for cls in storage_backend_classes(ck):
        init = cls.methods.get("__init__")
        if init is None or "read_only" not in init.params:
            continue
        f2 = FA(ck, init)
        # the base constructor call: super().__init__(..) or <Base>.__init__(self, ..)
        bases = {b.name for b in ck.repo.mro(cls) if b is not cls}
        sup = [c for c in f2.calls("__init__") if (isinstance(A.call_recv(c), ast.Call) and A.call_attr(A.call_recv(c)) == "super")
               or (isinstance(A.call_recv(c), ast.Name) and A.call_recv(c).id in bases and c.args and A.norm(c.args[0]) == "self")]
        bparams = [p_ for p_ in fa.fi.params if p_ != "self"]

        def forwarded(c, pname):
            shift = 1 if isinstance(A.call_recv(c), ast.Name) else 0      # explicit `self`
            v = A.arg_or_kw(c, bparams.index(pname) + shift, pname) if pname in bparams else A.kwarg(c, pname)
            if v is None:
                return False
            return A.norm(v) == pname or (bool(f2.nodes(c)) and f2.xnorm(v, f2.nodes(c)[0]) == pname)
        okf = any(forwarded(c, "read_only") for c in sup)
        ck.ob(R, f2.key(None, "forwards"), okf, "constructor forwards read_only" if okf else
              "constructor accepts read_only but does not forward it to the base class", f2.where())
        okc = any(forwarded(c, "config") for c in sup)
        ck.ob(R, f2.key(None, "forwards-config"), okc, "constructor forwards config" if okc else
              "constructor does not forward config (the 'readonly' option is lost)", f2.where())


NEG_CONSTS = ("False", "None", "[]", "[None] * len(fns)")
# calls without any effect that a constant-negative answer may use
PURE_CALLS = ("len", "ValueError", "list", "tuple", "dict", "range", "NotImplementedError", "KeyError", "format")


def _negative_constant(e) -> bool:
    """A 'nothing is memoized' answer, however it is spelled: False / None, an empty list / tuple / dict, or a
    list of None (False) of the length of the request: `[None] * len(xs)`, `[None for _ in xs]`, `list(...)` of those."""
    if isinstance(e, ast.Constant):
        return e.value is None or e.value is False
    if isinstance(e, (ast.List, ast.Tuple)):
        return all(_negative_constant(x) for x in e.elts)
    if isinstance(e, ast.Dict):
        return not e.keys
    if isinstance(e, ast.Call) and isinstance(e.func, ast.Name) and e.func.id in ("list", "tuple", "dict") and not e.keywords:
        return all(_negative_constant(a) or isinstance(a, ast.GeneratorExp) and _negative_constant(a.elt) for a in e.args)
    if isinstance(e, ast.BinOp) and isinstance(e.op, ast.Mult):
        for seq, n in ((e.left, e.right), (e.right, e.left)):
            if isinstance(seq, (ast.List, ast.Tuple)) and seq.elts and all(_negative_constant(x) for x in seq.elts):
                # the multiplier is a pure size expression (len of a parameter, a constant)
                if all(isinstance(x, (ast.Name, ast.Constant, ast.Load, ast.Attribute)) or (isinstance(x, ast.Call) and A.call_attr(x) == "len") for x in ast.walk(n)):
                    return True
        return False
    if isinstance(e, (ast.ListComp, ast.GeneratorExp)):
        return _negative_constant(e.elt) and not any(g.ifs for g in e.generators) and \
            all(not isinstance(x, ast.Call) or A.call_attr(x) in ("range", "len") for g in e.generators for x in ast.walk(g.iter))
    return False


def _negative_answer(ck, cls, e, depth=2) -> bool:
    """a constant negative, or one obtained from the null storage's own queries: `self.q(..)` of a query that answers a
    constant negative itself, `any(<negative> for ..)` (False for every request, the empty one included)"""
    if _negative_constant(e):
        return True
    if depth <= 0:
        return False
    if isinstance(e, ast.Call) and isinstance(e.func, ast.Attribute) and isinstance(e.func.value, ast.Name) and e.func.value.id == "self" \
            and e.func.attr in QUERY_METHODS and e.func.attr in cls.methods:
        m = cls.methods[e.func.attr]
        rets = [st for st in A.all_stmts(m.node) if isinstance(st, ast.Return)]
        return bool(rets) and all(r.value is not None and _negative_answer(ck, cls, r.value, depth - 1) for r in rets) \
            and not any(isinstance(st, ast.Raise) for st in A.all_stmts(m.node))
    if isinstance(e, ast.Call) and isinstance(e.func, ast.Name) and e.func.id == "any" and len(e.args) == 1 and not e.keywords:
        a = e.args[0]
        if isinstance(a, (ast.GeneratorExp, ast.ListComp)):
            return _negative_answer(ck, cls, a.elt, depth) and all(not isinstance(x, ast.Call) or A.call_attr(x) in ("range", "len")
                                                                   for g in a.generators for x in ast.walk(g.iter))
    return False


def check_null_storage(ck):
    R = "C19.R4"
    ck.rule(R, "null storage: every query returns a constant negative and no method has an effect", 8)
    cls = ck.repo.cls("storage_null.NullStorageBackend")
    for name in QUERY_METHODS + MUTATOR_METHODS:
        m = cls.methods.get(name)
        if m is None:
            if name == "get_memento":
                continue
            ck.ob(R, cls.qual + "." + name, False, "NullStorageBackend does not define %s" % name, A.loc(cls, cls.node))
            continue
        fa = FA(ck, m)
        fs, muts, prev = reach_effects(ck, m)
        pm = [x for x in muts if _persist_owner(ck, x[0])]
        own_q = lambda c: isinstance(c.func, ast.Attribute) and isinstance(c.func.value, ast.Name) and c.func.value.id == "self" \
            and c.func.attr in QUERY_METHODS and c.func.attr in cls.methods and c.func.attr != name     # noqa: E731 (decided on its own)
        calls = [c for c in fa.calls() if A.call_attr(c) not in PURE_CALLS + ("any",) and not own_q(c) and not (fa.nodes(c) and log_call(c))]
        ok = not fs and not pm and not calls
        detail = ""
        if name in QUERY_METHODS:
            for r in fa.returns():
                if r.value is not None and A.norm(r.value) not in NEG_CONSTS:
                    leaves = [r.value]
                    if fa.nodes(r):
                        leaves = [e for (e, _) in Assume(fa, lambda e: None).cases(r.value, fa.nodes(r)[0])]
                    if not all(_negative_answer(ck, cls, e) for e in leaves):
                        ok = False
                        detail = "returns %s" % A.norm(r.value)
        ck.ob(R, fa.key(None), ok, "constant negative / no effect" if ok else
              "null storage %s is not a constant negative without effects %s" % (name, detail), fa.where())


def module_value(tree, e, depth=4):
    """`e` with a module-level name replaced by the value of its ONE module-level assignment (a constant moved out of a
    call: `_TYPE = "null"` ... `register(_TYPE, ...)`); anything else is returned as it is."""
    while isinstance(e, ast.Name) and depth > 0:
        vals = []
        for st in tree.body:
            if isinstance(st, ast.Assign) and any(isinstance(t, ast.Name) and t.id == e.id for t in st.targets):
                vals.append(st.value)
            elif isinstance(st, ast.AnnAssign) and isinstance(st.target, ast.Name) and st.target.id == e.id and st.value is not None:
                vals.append(st.value)
        if len(vals) != 1:
            return e
        e = vals[0]
        depth -= 1
    return e


def check_null_runner(ck):
    R = "C19.R5"
    ck.rule(R, "null runner: batch_run raises on every path and cannot reach a function body", 2)
    fa = FA(ck, "runner_null.NullRunnerBackend.batch_run")
    ok = fa.cfg.exit not in fa.cfg.reachable_nodes()
    ck.ob(R, fa.key(None, "raises"), ok, "batch_run never returns normally" if ok else "the null runner can return results", fa.where())
    prev = ck.cg.reachable([fa.fi])
    bad = [q for q in prev if q.endswith("._filter_call") or q == "runner_local.memento_run_local" or q.endswith(".batch_run") and q != fa.qual]
    ck.ob(R, fa.key(None, "no-body"), not bad, "no function body reachable (%d functions explored)" % len(prev) if not bad else
          "the null runner reaches %s via %s" % (bad[0], ck.cg.chain(prev, bad[0])), fa.where())
    # registered under its own type: some registration call of the module binds the type name 'null' (a literal, or a
    # module-level constant that holds it) to this class (by name, or through a module-level alias)
    m = ck.repo.module("runner_null")
    reg = [n for n in ast.walk(m.tree) if isinstance(n, ast.Call) and A.call_attr(n) == "register"
           and (A.call_dotted(n) or "").split(".")[0] in ("RunnerBackend", "NullRunnerBackend")]
    rp = ck.repo.try_func("runner.RunnerBackend.register")
    rparams = [p_ for p_ in (rp.params if rp is not None else ["cls", "runner_type", "clazz"]) if p_ not in ("self", "cls")]

    def bound(c):
        out = {}
        for i, a in enumerate(c.args):
            if i < len(rparams) and not isinstance(a, ast.Starred):
                out[rparams[i]] = a
        for k in c.keywords:
            if k.arg:
                out[k.arg] = k.value
        return [out.get(p_) for p_ in rparams[:2]]

    okr = False
    for c in reg:
        b_ = bound(c)
        if len(b_) == 2 and b_[0] is not None and b_[1] is not None:
            t_, k_ = module_value(m.tree, b_[0]), module_value(m.tree, b_[1])
            if A.const_str(t_) == "null" and A.norm(k_) == "NullRunnerBackend":
                okr = True
    # ... and nothing else in the package claims the name (the last registration wins)
    other = []
    for om in ck.repo.modules.values():
        for n in ast.walk(om.tree):
            if isinstance(n, ast.Call) and A.call_attr(n) == "register" and "Runner" in (A.call_dotted(n) or "").split(".")[0]:
                b_ = bound(n)
                if len(b_) == 2 and b_[0] is not None and b_[1] is not None and A.const_str(module_value(om.tree, b_[0])) == "null" \
                        and A.norm(module_value(om.tree, b_[1])) != "NullRunnerBackend":
                    other.append((om, n))
    okr = okr and not other
    ck.ob(R, "runner_null::register", okr, "'null' runner type resolves to NullRunnerBackend" if okr else
          ("the 'null' runner type is also registered to `%s` (%s:%d): the last registration wins" % (A.norm(bound(other[0][1])[1]), other[0][0].relpath, other[0][1].lineno)
           if other else "the 'null' runner type is not registered to NullRunnerBackend"), m.relpath)


def check(ck):
    from .memo import check_new_memo_tables
    ck.run(check_new_memo_tables, ck, "C19.M1", ('storage', 'storage_base', 'storage_filesystem', 'storage_null', 'runner_null'))
    ck.run(check_guard, ck)
    ck.run(check_queries_effect_free, ck, "C19.R2")
    ck.run(check_plumbing, ck)
    ck.run(check_null_storage, ck)
    ck.run(check_null_runner, ck)
