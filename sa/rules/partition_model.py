"""Facts about Partition classes read from their class bodies and methods (C02.R6, C17)."""
import ast

from .. import astutil as A
from .cache_model import self_attr

STORE = "storage_base.DefaultCodec.PicklePartitionStrategy.store"
PICKLE_PARTITION = "storage_base.DefaultCodec.PicklePartition"


def partition_classes(ck):
    base = ck.repo.cls("partition.Partition")
    return [c for c in ck.repo.subclasses(base)]


def declared_attrs(ck, cls):
    """Attributes an instance of `cls` has: class-body names and self.x assignments anywhere."""
    out = set()
    for c in ck.repo.mro(cls):
        out |= set(c.fields)
        for m in c.methods.values():
            for n in A.walk_body(m.node):
                if isinstance(n, (ast.Assign, ast.AnnAssign)):
                    ts = n.targets if isinstance(n, ast.Assign) else [n.target]
                    for t in ts:
                        f = self_attr(t)
                        if f:
                            out.add(f)
    return out


def accessor_reads(ck, cls, names=("get", "list_keys", "__getitem__")):
    """self attributes read by the accessors of cls (own or inherited)."""
    out = set()
    for nm in names:
        m = ck.repo.find_method(cls, nm)
        if m is None:
            continue
        for n in A.walk_body(m.node):
            f = self_attr(n)
            if f and isinstance(n.ctx, ast.Load):
                out.add(f)
    return out


def store_writes_on_obj(fa):
    """Attributes of the stored object assigned inside PicklePartitionStrategy.store:
    [(attr, stmt, guard-if or None)]"""
    out = []
    for s in fa.stmts(ast.Assign):
        for t in s.targets:
            if isinstance(t, ast.Attribute) and isinstance(t.value, ast.Name) and t.value.id == "obj":
                out.append((t.attr, s, fa.enclosing(s, ast.If)))
    return out


def eval_duck_test(test, attrs, is_pickle_partition, subject):
    """Evaluate a hasattr/getattr/isinstance conjunction about `subject` against an attribute
    table.  -> True / False / None (unknown)."""
    vals = []
    for a in A.conj_atoms(test):
        v = None
        if isinstance(a, ast.Call) and A.call_attr(a) == "hasattr" and len(a.args) == 2 and A.norm(a.args[0]) == subject:
            nm = A.const_str(a.args[1])
            v = nm in attrs
        elif isinstance(a, ast.Call) and A.call_attr(a) == "isinstance" and A.norm(a.args[0]) == subject:
            v = is_pickle_partition if "PicklePartition" in A.norm(a.args[1]) else None
        elif isinstance(a, ast.Compare) and len(a.ops) == 1 and isinstance(a.ops[0], ast.IsNot) and A.is_none(a.comparators[0]) \
                and isinstance(a.left, ast.Call) and A.call_attr(a.left) == "getattr" and A.norm(a.left.args[0]) == subject:
            nm = A.const_str(a.left.args[1])
            v = True if nm in attrs else False  # declared => may be set after serialisation
        vals.append(v)
    if any(v is False for v in vals):
        return False
    if all(v is True for v in vals):
        return True
    return None
