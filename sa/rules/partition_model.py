"""Facts about Partition classes read from their class bodies and methods (C02.R6, C17).

Besides the class tables this module holds the small path machinery the C17 rules decide with:
`walk` (acyclic paths of a function with their branch literals, disjunctive tests split into cases, every loop
taken zero times or once), `entry_fields` (an index entry whichever way it is built: keyword / positional
constructor call, `v._replace(...)`) and `duck_atoms` (the hasattr / getattr / isinstance facts a test states
about one object, conjunction / `all(... for a in (...))` alike)."""
import ast
from collections import namedtuple

from .. import astutil as A
from .cache_model import self_attr

STORE = "storage_base.DefaultCodec.PicklePartitionStrategy.store"
PICKLE_PARTITION = "storage_base.DefaultCodec.PicklePartition"
ENTRY_TYPE = "_ResultTypeAndContentKey"


def partition_classes(ck):
    base = ck.repo.cls("partition.Partition")
    return [c for c in ck.repo.subclasses(base)]


def declared_attrs(ck, cls):
    """Attributes an instance of `cls` has: class-body names and self.x assignments anywhere."""
    out = set()
    for c in ck.repo.mro(cls):
        out |= set(c.fields)
        for m in c.methods.values():
            for n in A.walk_body(m.node):
                if isinstance(n, (ast.Assign, ast.AnnAssign)):
                    ts = n.targets if isinstance(n, ast.Assign) else [n.target]
                    for t in ts:
                        for t1 in (t.elts if isinstance(t, (ast.Tuple, ast.List)) else [t]):
                            f = self_attr(t1)
                            if f:
                                out.add(f)
    return out


def accessor_reads(ck, cls, names=("get", "list_keys", "__getitem__")):
    """self attributes read by the accessors of cls (own or inherited)."""
    out = set()
    for nm in names:
        m = ck.repo.find_method(cls, nm)
        if m is None:
            continue
        for n in A.walk_body(m.node):
            f = self_attr(n)
            if f and isinstance(n.ctx, ast.Load):
                out.add(f)
    return out


def _flat_targets(s):
    """[(target, value or None)] of an assignment, tuple targets paired with the elements of a tuple value."""
    out = []
    if isinstance(s, ast.Assign):
        tgs, val = s.targets, s.value
    elif isinstance(s, ast.AnnAssign) and s.value is not None:
        tgs, val = [s.target], s.value
    else:
        return out
    for t in tgs:
        if isinstance(t, (ast.Tuple, ast.List)):
            vs = val.elts if isinstance(val, (ast.Tuple, ast.List)) and len(val.elts) == len(t.elts) else [None] * len(t.elts)
            out += list(zip(t.elts, vs))
        else:
            out.append((t, val))
    return out


def store_writes_on_obj(fa):
    """Attributes of the stored object assigned inside PicklePartitionStrategy.store:
    [(attr, stmt, guard-if or None)]  (`obj.a, obj.b = x, y` counts as two writes)"""
    out = []
    for s in fa.stmts((ast.Assign, ast.AnnAssign)):
        for (t, _v) in _flat_targets(s):
            if isinstance(t, ast.Attribute) and isinstance(t.value, ast.Name) and t.value.id == "obj":
                out.append((t.attr, s, fa.enclosing(s, ast.If)))
    return out


def write_value(stmt, attr, subject="obj"):
    """The expression assigned to `<subject>.<attr>` by `stmt` (None when it cannot be told apart, e.g.
    unpacking of a call result)."""
    for (t, v) in _flat_targets(stmt):
        if isinstance(t, ast.Attribute) and isinstance(t.value, ast.Name) and t.value.id == subject and t.attr == attr:
            return v
    return None


# ---- duck-typing tests -------------------------------------------------------------------------------

def _conj(test):
    """Conjuncts of a test, `all(f(a) for a in (c1, c2))` / `all([f(c1), f(c2)])` unrolled."""
    out = []
    for a in A.conj_atoms(test):
        if isinstance(a, ast.Call) and isinstance(a.func, ast.Name) and a.func.id == "all" and len(a.args) == 1 and not a.keywords:
            g = a.args[0]
            if isinstance(g, (ast.GeneratorExp, ast.ListComp)) and len(g.generators) == 1 and not g.generators[0].ifs \
                    and isinstance(g.generators[0].target, ast.Name) and isinstance(g.generators[0].iter, (ast.Tuple, ast.List, ast.Set)) \
                    and all(isinstance(e, ast.Constant) for e in g.generators[0].iter.elts):
                var = g.generators[0].target.id
                for c in g.generators[0].iter.elts:
                    out += _conj(_subst(g.elt, var, c))
                continue
            if isinstance(g, (ast.Tuple, ast.List)):
                for e in g.elts:
                    out += _conj(e)
                continue
        out.append(a)
    return out


def _subst(expr, name, value):
    import copy

    class T(ast.NodeTransformer):
        def visit_Name(self, n):
            return copy.deepcopy(value) if n.id == name and isinstance(n.ctx, ast.Load) else n

    return ast.fix_missing_locations(T().visit(copy.deepcopy(expr)))


def duck_atom(a, subject):
    """One atom of a test about `subject`: ('has', attr, holds-when-true) for hasattr(subject, 'a') and for
    getattr(subject, 'a', None) is (not) None; ('isinstance', type text, True); None for anything else."""
    if isinstance(a, ast.UnaryOp) and isinstance(a.op, ast.Not):
        r = duck_atom(a.operand, subject)
        return (r[0], r[1], not r[2]) if r else None
    if isinstance(a, ast.Call) and A.call_attr(a) == "hasattr" and len(a.args) == 2 and A.norm(a.args[0]) == subject and A.const_str(a.args[1]):
        return ("has", A.const_str(a.args[1]), True)
    if isinstance(a, ast.Call) and A.call_attr(a) == "isinstance" and len(a.args) == 2 and A.norm(a.args[0]) == subject:
        return ("isinstance", A.norm(a.args[1]), True)
    if isinstance(a, ast.Compare) and len(a.ops) == 1 and isinstance(a.ops[0], (ast.IsNot, ast.Is)) and A.is_none(a.comparators[0]) \
            and isinstance(a.left, ast.Call) and A.call_attr(a.left) == "getattr" and len(a.left.args) >= 2 and A.norm(a.left.args[0]) == subject \
            and A.const_str(a.left.args[1]) and (len(a.left.args) == 2 or A.is_none(a.left.args[2])):
        return ("has", A.const_str(a.left.args[1]), isinstance(a.ops[0], ast.IsNot))
    return None


def duck_attrs(test, subject):
    """Attribute names a test requires `subject` to have (positive conjuncts only)."""
    out = []
    for a in _conj(test):
        r = duck_atom(a, subject)
        if r and r[0] == "has" and r[2]:
            out.append(r[1])
    return out


def eval_duck_test(test, attrs, is_pickle_partition, subject):
    """Evaluate a hasattr/getattr/isinstance conjunction about `subject` against an attribute
    table.  -> True / False / None (unknown)."""
    vals = []
    for a in _conj(test):
        v = None
        r = duck_atom(a, subject)
        if r and r[0] == "has":
            # hasattr: declared; getattr(..) is not None: declared => may be set after serialisation
            v = (r[1] in attrs) if r[2] else (None if r[1] in attrs else True)
        elif r and r[0] == "isinstance":
            v = is_pickle_partition if "PicklePartition" in r[1] else None
            if v is not None and not r[2]:
                v = not v
        vals.append(v)
    if any(v is False for v in vals):
        return False
    if all(v is True for v in vals):
        return True
    return None


# ---- index entries ---------------------------------------------------------------------------------

def entry_type_fields(ck):
    """Field names of the in-memory index entry type, in declaration order."""
    nt = ck.repo.module("storage_base").assigns.get(ENTRY_TYPE)
    if isinstance(nt, ast.Call) and len(nt.args) > 1:
        if isinstance(nt.args[1], (ast.List, ast.Tuple)):
            return [A.const_str(e) for e in nt.args[1].elts if A.const_str(e)]
        if A.const_str(nt.args[1]):
            return A.const_str(nt.args[1]).replace(",", " ").split()
    # the class form: `class _ResultTypeAndContentKey(NamedTuple): field: type ...`
    ci = ck.repo.try_cls("storage_base." + ENTRY_TYPE)
    if ci is not None and any(b.split(".")[-1] == "NamedTuple" for b in ci.base_exprs):
        return [st.target.id for st in ci.node.body if isinstance(st, ast.AnnAssign) and isinstance(st.target, ast.Name)]
    return []


def entry_fields(call, fields):
    """{field: expression} of an index entry built by `call`: the entry type called with keyword and / or
    positional arguments, or `<entry>._replace(field=...)` (the remaining fields are those of <entry>).
    None when `call` does not build an entry."""
    if not isinstance(call, ast.Call) or any(k.arg is None for k in call.keywords) or any(isinstance(a, ast.Starred) for a in call.args):
        return None
    if A.call_attr(call) == ENTRY_TYPE:
        out = {}
        for f, a in zip(fields, call.args):
            out[f] = a
        for k in call.keywords:
            out[k.arg] = k.value
        return out if set(out) == set(fields) else None
    if A.call_attr(call) == "_replace" and isinstance(call.func, ast.Attribute) and not call.args:
        out = {}
        for f in fields:
            out[f] = ast.copy_location(ast.Attribute(value=call.func.value, attr=f, ctx=ast.Load()), call)
        for k in call.keywords:
            if k.arg not in fields:
                return None
            out[k.arg] = k.value
        return out
    return None


def entries_in(node, fields):
    """[(call, {field: expr})] for every entry construction inside `node`."""
    out = []
    for c in A.calls_in(node):
        ef = entry_fields(c, fields)
        if ef is not None:
            out.append((c, ef))
    return out


# ---- paths -----------------------------------------------------------------------------------------

# canonical text and its polarity; the atom as written and its polarity; the CFG node of the test; live = nothing
# the atom mentions has been assigned since (a stale literal says nothing about the current values)
Lit = namedtuple("Lit", "text pos atom apos at live")


def _strip_casts(e):
    class C(ast.NodeTransformer):
        def visit_Call(self, n):
            self.generic_visit(n)
            if isinstance(n.func, ast.Name) and n.func.id == "cast" and len(n.args) == 2:
                return n.args[1]
            return n

    import copy
    return C().visit(copy.deepcopy(e))


def _canon_expanded(t, positive):
    """FA._literal for an atom that is already expanded (no further expansion: the names left in it belong to
    the places their values were taken from)."""
    if isinstance(t, ast.Compare) and len(t.ops) == 1:
        op = t.ops[0]
        neg = {ast.IsNot: ast.Is, ast.NotEq: ast.Eq, ast.NotIn: ast.In}
        if type(op) in neg:
            op = neg[type(op)]()
            positive = not positive
        lt, rt = A.norm(_strip_casts(t.left)), A.norm(_strip_casts(t.comparators[0]))
        if isinstance(op, ast.Eq) and rt < lt:
            lt, rt = rt, lt
        sym = {ast.Is: "is", ast.Eq: "==", ast.In: "in", ast.Lt: "<", ast.Gt: ">", ast.LtE: "<=", ast.GtE: ">="}.get(type(op), type(op).__name__)
        return ("%s %s %s" % (lt, sym, rt), positive)
    return (A.norm(_strip_casts(t)), positive)


def cases(fa, test, node_id, positive, _expanded=False):
    """The ways a branch test can come out `positive`: a list of literal lists (disjunctive normal form,
    short-circuit order kept).  `a and b` taken false is `not a` | `a and not b`; a disjunction taken true
    likewise; negations are pushed inward; a local that holds a boolean combination / comparison
    (`missing = key not in own`) is opened up."""
    t = test
    if isinstance(t, ast.UnaryOp) and isinstance(t.op, ast.Not):
        return cases(fa, t.operand, node_id, not positive, _expanded)
    if isinstance(t, ast.BoolOp):
        conj = (isinstance(t.op, ast.And) and positive) or (isinstance(t.op, ast.Or) and not positive)
        if conj:
            out = [[]]
            for v in t.values:
                out = [p + c for p in out for c in cases(fa, v, node_id, positive, _expanded)]
            return out
        out, prefix = [], [[]]
        for v in t.values:
            out += [p + c for p in prefix for c in cases(fa, v, node_id, positive, _expanded)]
            prefix = [p + c for p in prefix for c in cases(fa, v, node_id, not positive, _expanded)]
        return out
    if isinstance(t, ast.NamedExpr):
        # `(p := e)` tests e
        return cases(fa, t.value, node_id, positive, _expanded)
    if isinstance(t, ast.IfExp):
        # `(a if c else b)` comes out like a when c holds, like b otherwise
        out = []
        for (pol, br) in ((True, t.body), (False, t.orelse)):
            out += [c1 + c2 for c1 in cases(fa, t.test, node_id, pol, _expanded) for c2 in cases(fa, br, node_id, positive, _expanded)]
        return out
    if isinstance(t, ast.Constant):
        # a constant comes out one way only
        return [[]] if bool(t.value) == positive else []
    if _expanded:
        (txt, pos) = _canon_expanded(t, positive)
        return [[Lit(txt, pos, t, positive, node_id, True)]]
    if isinstance(t, ast.Name):
        e = fa.expand(t, node_id)
        if isinstance(e, (ast.BoolOp, ast.Compare, ast.IfExp)) or (isinstance(e, ast.UnaryOp) and isinstance(e.op, ast.Not)):
            return cases(fa, e, node_id, positive, True)
    (txt, pos) = fa._literal(t, node_id, positive)
    return [[Lit(txt, pos, t, positive, node_id, True)]]


def split_ifexp(fa, e, node_id):
    """A value with its conditional expressions decided: [(literals, expression without IfExp)]."""
    import copy
    first = None
    todo = [e]
    while todo and first is None:
        x = todo.pop(0)
        if isinstance(x, ast.IfExp):
            first = x
            break
        if isinstance(x, (ast.Lambda, ast.ListComp, ast.SetComp, ast.DictComp, ast.GeneratorExp)):
            continue
        todo += list(ast.iter_child_nodes(x))
    if first is None:
        return [([], e)]
    out = []
    for pol in (True, False):
        class R(ast.NodeTransformer):
            def visit_IfExp(self, n):
                if n is first:
                    return n.body if pol else n.orelse
                return self.generic_visit(n)
        e2 = first.body if (e is first and pol) else first.orelse if e is first else R().visit(_shallow_copy(e, first))
        for c in cases(fa, first.test, node_id, pol):
            for (l2, e3) in split_ifexp(fa, e2, node_id):
                out.append((c + l2, e3))
    return out


def _shallow_copy(e, keep):
    """Copy of `e` that shares the subtree `keep` (so that it can be found by identity in the copy)."""
    import copy
    if e is keep:
        return e
    if not isinstance(e, ast.AST):
        return e
    new = copy.copy(e)
    for f, v in ast.iter_fields(e):
        if isinstance(v, list):
            setattr(new, f, [_shallow_copy(x, keep) for x in v])
        elif isinstance(v, ast.AST):
            setattr(new, f, _shallow_copy(v, keep))
    return new


def consistent(lits):
    """No live literal is stated with both polarities."""
    have = {(l.text, l.pos) for l in lits if l.live}
    return not any((t, not p) in have for (t, p) in have)


def walk(fa, targets, avoid=(), cap=20000):
    """Paths of the function from its entry to any node of `targets`, over normal (non-exception) edges:
    [(target node id, literals, trail of node ids before the target)].  A loop is taken zero times or once
    (its head may be passed twice, the second time only to leave).  Branch tests contribute literals
    (`cases`); loop tests do not.  Contradictory paths are dropped; a literal goes stale (live=False) once a
    name it mentions is assigned again.  Nodes in `avoid` are not entered.
    Raises AnalysisError when there are more than `cap` paths."""
    from ..loader import AnalysisError
    cfg = fa.cfg
    want, avoid = set(targets), set(avoid)
    out = []

    def is_loop_head(nd):
        if nd.kind == "for":
            return True
        return nd.kind == "test" and isinstance(fa.pm.get(nd.ast), ast.While) and fa.pm.get(nd.ast).test is nd.ast

    def assigned(nd):
        """Names / attribute texts (re)bound by the node."""
        st, tg = nd.ast, []
        if nd.kind == "for":
            tg = [st.target]
        elif nd.kind == "with":
            tg = [i.optional_vars for i in st.items if i.optional_vars is not None]
        elif nd.kind == "stmt" and isinstance(st, ast.Assign):
            tg = list(st.targets)
        elif nd.kind == "stmt" and isinstance(st, (ast.AugAssign, ast.AnnAssign)):
            tg = [st.target]
        elif nd.kind == "stmt" and isinstance(st, ast.Delete):
            tg = list(st.targets)
        out = set()
        for t in tg:
            for x in ast.walk(t):
                if isinstance(x, ast.Name) and isinstance(x.ctx, (ast.Store, ast.Del)):
                    out.add(x.id)
                elif isinstance(x, ast.Attribute) and isinstance(x.ctx, (ast.Store, ast.Del)):
                    out.add(A.norm(x))
        return out

    def mentions(l, names):
        for x in ast.walk(l.atom):
            if isinstance(x, ast.Name) and x.id in names:
                return True
            if isinstance(x, ast.Attribute) and A.norm(x) in names:
                return True
        return False

    def dfs(n, visits, lits, trail):
        if len(out) > cap:
            return
        if n in want:
            out.append((n, tuple(lits), tuple(trail)))
            return
        nd = cfg.node(n)
        names = assigned(nd)
        if names:
            lits = [l._replace(live=False) if l.live and mentions(l, names) else l for l in lits]
        loop = is_loop_head(nd)
        second = visits.get(n, 0) >= 1
        visits[n] = visits.get(n, 0) + 1
        trail.append(n)
        for (d, l) in cfg.succ[n]:
            if l == "exc" or d in avoid:
                continue
            if loop and second and l == "T":
                continue
            dn = cfg.node(d)
            seen = visits.get(d, 0)
            if seen and not (is_loop_head(dn) and seen < 2):
                continue
            alts = [[]]
            if nd.kind == "test" and l in ("T", "F") and not loop:
                flagged = _flags_on_trail(fa, nd.ast, n, trail)
                if flagged is not None:
                    # a local that holds a verdict and is assigned more than once: read through the value THIS path gave it
                    alts = cases(fa, flagged, n, l == "T", True)
                else:
                    memo = fa.__dict__.setdefault("_pm_cases", {})
                    if (n, l) not in memo:
                        memo[(n, l)] = cases(fa, nd.ast, n, l == "T")
                    alts = memo[(n, l)]
            for add in alts:
                have = {(x.text, x.pos) for x in lits if x.live}
                if any((a.text, not a.pos) in have for a in add):
                    continue
                # a case may contradict itself (`x and not x`)
                mine = {(a.text, a.pos) for a in add}
                if any((t_, not p_) in mine for (t_, p_) in mine):
                    continue
                dfs(d, visits, lits + [a for a in add if (a.text, a.pos) not in have], trail)
        trail.pop()
        visits[n] -= 1

    dfs(cfg.entry, {}, [], [])
    if len(out) > cap:
        raise AnalysisError("%s: more than %d paths" % (fa.qual, cap))
    return out


def _flags_on_trail(fa, test, node_id, trail):
    """`test` with every local that has SEVERAL reaching definitions replaced by the (expanded) value the path
    assigned it last, when that value is a verdict (comparison / boolean combination / negation / constant / call);
    None when the test mentions no such local or one of them cannot be resolved on the path."""
    import copy
    multi = {x.id for x in ast.walk(test) if isinstance(x, ast.Name) and isinstance(x.ctx, ast.Load) and len(fa.df.reaching(node_id, x.id)) > 1}
    if not multi:
        return None
    last = {}
    for i in trail:
        nd = fa.cfg.node(i)
        if nd.kind == "stmt" and isinstance(nd.ast, (ast.Assign, ast.AnnAssign)):
            for (t, v) in _flat_targets(nd.ast):
                if isinstance(t, ast.Name) and t.id in multi:
                    last[t.id] = (v, i)
        elif nd.kind in ("for", "with") or (nd.kind == "stmt" and isinstance(nd.ast, (ast.AugAssign, ast.Delete))):
            for x in ast.walk(nd.ast.target if nd.kind == "for" or isinstance(nd.ast, ast.AugAssign) else nd.ast):
                if isinstance(x, ast.Name) and isinstance(x.ctx, (ast.Store, ast.Del)) and x.id in multi:
                    last[x.id] = (None, i)
    verdict = (ast.Compare, ast.BoolOp, ast.UnaryOp, ast.Constant, ast.Call, ast.IfExp)
    if any(m not in last or last[m][0] is None or not isinstance(last[m][0], verdict) for m in multi):
        return None
    vals = {}
    for m, (v, i) in last.items():
        # the value as the path computed it: locals inside it resolved on the trail up to the assignment
        inner = _flags_on_trail(fa, v, i, trail[:trail.index(i)]) if i in trail else None
        vals[m] = fa.expand(inner if inner is not None else v, i)

    class T(ast.NodeTransformer):
        def visit_Name(self, n):
            return copy.deepcopy(vals[n.id]) if isinstance(n.ctx, ast.Load) and n.id in vals else n

    return T().visit(copy.deepcopy(test))


def walrus_bindings(fa, trail):
    """{name: value} bound by `(name := value)` inside the branch tests a path passed (the dataflow only
    sees those of simple statements)."""
    out = {}
    for i in trail:
        nd = fa.cfg.node(i)
        if nd.kind == "test" and nd.ast is not None:
            for x in A.walk_local(nd.ast):
                if isinstance(x, ast.NamedExpr) and isinstance(x.target, ast.Name):
                    out[x.target.id] = x.value
    return out


# ---- one spelling for constructs that say the same thing --------------------------------------------

def _is_self_assign(st):
    return isinstance(st, ast.Assign) and len(st.targets) == 1 and A.norm(st.targets[0]) == A.norm(st.value)


def _lower_stmt(st, pour_only=False):
    """One statement -> the statements that spell it with plain branches and loops:
    `t = a if c else b` / `return a if c else b`  ->  an if statement (self-assignments dropped);
    `acc.update({k: v for x in it if c})` / `acc |= {...}` / `acc = {k: v for ...}`  ->  a loop storing into acc."""
    import copy

    def at(new):
        return ast.fix_missing_locations(ast.copy_location(new, st))

    val = getattr(st, "value", None)
    if not pour_only and isinstance(st, (ast.Assign, ast.AnnAssign, ast.Return)) and isinstance(val, ast.IfExp) and \
            (not isinstance(st, ast.Assign) or len(st.targets) == 1):
        arms = []
        for br in (val.body, val.orelse):
            s2 = copy.copy(st)
            s2.value = br
            if isinstance(s2, ast.AnnAssign):
                s2 = ast.Assign(targets=[st.target], value=br, type_comment=None)
            s2 = at(s2)
            arms.append([x for x in _lower_stmt(s2) if not _is_self_assign(x)])
        if not arms[0] and not arms[1]:
            return []
        if not arms[0]:
            return [at(ast.If(test=ast.UnaryOp(op=ast.Not(), operand=val.test), body=arms[1], orelse=[]))]
        return [at(ast.If(test=val.test, body=arms[0], orelse=arms[1]))]
    comp = acc = None
    pre = []
    if isinstance(st, ast.Expr) and isinstance(val, ast.Call) and isinstance(val.func, ast.Attribute) and val.func.attr == "update" \
            and A.dotted(val.func.value) and len(val.args) == 1 and not val.keywords and isinstance(val.args[0], ast.DictComp):
        acc, comp = val.func.value, val.args[0]
    elif isinstance(st, ast.AugAssign) and isinstance(st.op, ast.BitOr) and isinstance(st.target, ast.Name) and isinstance(val, ast.DictComp):
        acc, comp = ast.Name(id=st.target.id, ctx=ast.Load()), val
    elif not pour_only and isinstance(st, ast.Assign) and len(st.targets) == 1 and isinstance(st.targets[0], ast.Name) and isinstance(val, ast.DictComp) \
            and st.targets[0].id not in {x.id for x in ast.walk(val) if isinstance(x, ast.Name)}:
        acc, comp = ast.Name(id=st.targets[0].id, ctx=ast.Load()), val
        pre = [at(ast.Assign(targets=[st.targets[0]], value=ast.Dict(keys=[], values=[]), type_comment=None))]
    if comp is not None and len(comp.generators) == 1 and not comp.generators[0].is_async:
        g = comp.generators[0]
        store = at(ast.Assign(targets=[ast.Subscript(value=acc, slice=comp.key, ctx=ast.Store())], value=comp.value, type_comment=None))
        body = [store]
        if g.ifs:
            body = [at(ast.If(test=g.ifs[0] if len(g.ifs) == 1 else ast.BoolOp(op=ast.And(), values=list(g.ifs)), body=body, orelse=[]))]
        tgt = copy.deepcopy(g.target)
        for x in ast.walk(tgt):
            if isinstance(x, (ast.Name, ast.Tuple, ast.List, ast.Starred)):
                x.ctx = ast.Store()
        return pre + [at(ast.For(target=tgt, iter=g.iter, body=body, orelse=[], type_comment=None))]
    return [st]


def _raise_stmt(st):
    """`for x in it: [if c:] acc.add(e)` (nothing else in the loop) -> `acc.update({e for x in it if c})`
    (`append` -> `extend([...])`): a loop that only collects is the comprehension it spells out."""
    if not (isinstance(st, ast.For) and not st.orelse and st.body):
        return [st]
    body, ifs = list(st.body), []
    # `if c: continue` ahead of the collecting statement is the filter `not c`
    while len(body) > 1 and isinstance(body[0], ast.If) and not body[0].orelse and len(body[0].body) == 1 and isinstance(body[0].body[0], ast.Continue):
        ifs.append(ast.copy_location(ast.UnaryOp(op=ast.Not(), operand=body[0].test), body[0].test))
        body = body[1:]
    if len(body) != 1:
        return [st]
    inner = body[0]
    while isinstance(inner, ast.If) and not inner.orelse and len(inner.body) == 1:
        ifs.append(inner.test)
        inner = inner.body[0]
    c = inner.value if isinstance(inner, ast.Expr) else None
    if not (isinstance(c, ast.Call) and isinstance(c.func, ast.Attribute) and c.func.attr in ("add", "append") and isinstance(c.func.value, ast.Name)
            and len(c.args) == 1 and not c.keywords):
        return [st]
    bound = {x.id for x in ast.walk(st.target) if isinstance(x, ast.Name)}
    if c.func.value.id in bound:
        return [st]
    # `if x not in acc: acc.append(x)`: collected once however often it comes -- a set in all but name
    dedupe = [t for t in ifs if isinstance(t, ast.Compare) and len(t.ops) == 1 and isinstance(t.ops[0], ast.NotIn) and A.norm(t.left) == A.norm(c.args[0])
              and isinstance(t.comparators[0], ast.Name) and t.comparators[0].id == c.func.value.id]
    if dedupe:
        ifs = [t for t in ifs if t not in dedupe]
    import copy
    tgt = copy.deepcopy(st.target)
    for x in ast.walk(tgt):
        if isinstance(x, (ast.Name, ast.Tuple, ast.List, ast.Starred)):
            x.ctx = ast.Store()
    gen = ast.comprehension(target=tgt, iter=st.iter, ifs=ifs, is_async=0)
    as_set = c.func.attr == "add" or bool(dedupe)
    comp = (ast.SetComp if as_set else ast.ListComp)(elt=c.args[0], generators=[gen])
    call = ast.Call(func=ast.Attribute(value=c.func.value, attr="update" if as_set else "extend", ctx=ast.Load()), args=[comp], keywords=[])
    return [ast.fix_missing_locations(ast.copy_location(ast.Expr(value=call), st))]


def plain_dict_fields(ck, cls):
    """Fields of `cls` that only ever hold a dict the class made itself (every assignment is `dict()` / `{}`, a class-level
    None aside): a lookup of a missing key in them raises KeyError.  A mapping handed in by the caller is not one of
    them -- a defaultdict answers a missing key with a default and keeps it."""
    vals = {}
    for c in ck.repo.mro(cls):
        for m in c.methods.values():
            for n in A.walk_body(m.node):
                if isinstance(n, (ast.Assign, ast.AnnAssign, ast.AugAssign)):
                    pairs = _flat_targets(n) if not isinstance(n, ast.AugAssign) else [(n.target, None)]
                    for (t, v) in pairs:
                        f = self_attr(t)
                        if f:
                            vals.setdefault(f, []).append(v)
    def fresh(v):
        return v is not None and ((isinstance(v, ast.Dict) and not v.keys) or
                                  (isinstance(v, ast.Call) and isinstance(v.func, ast.Name) and v.func.id == "dict" and not v.args and not v.keywords))
    return {f for f, vs in vals.items() if vs and all(fresh(v) for v in vs)}


def _lower_keyerror_try(st, plain=()):
    """`try: return self.m[k] ... except KeyError: H [else: E]` (one statement tried, every lookup in it by the same
    key in a plain dict of the class's own making, the exception object not used)  ->  `if k in self.m: return self.m[k]
    ...; E  else: H`: asking forgiveness for a missing key is asking permission first.  (That nothing else in the
    statement raises KeyError is taken as given.)"""
    import copy
    if not (isinstance(st, ast.Try) and len(st.handlers) == 1 and not st.finalbody and len(st.body) == 1):
        return [st]
    h = st.handlers[0]
    if h.name is not None or not (isinstance(h.type, ast.Name) and h.type.id == "KeyError"):
        return [st]
    only = st.body[0]
    if not isinstance(only, (ast.Return, ast.Assign, ast.AnnAssign)) or only.value is None:
        return [st]
    if any(isinstance(x, ast.Raise) and x.exc is None for b_ in h.body for x in ast.walk(b_)):
        return [st]
    subs = [x for x in ast.walk(only.value) if isinstance(x, ast.Subscript) and isinstance(x.ctx, ast.Load) and self_attr(x.value) and isinstance(x.slice, ast.Name)]
    if not subs or len({x.slice.id for x in subs}) != 1 or not all(self_attr(x.value) in plain for x in subs):
        return [st]
    first = min(subs, key=lambda x: (x.lineno, x.col_offset))
    test = ast.Compare(left=ast.Name(id=first.slice.id, ctx=ast.Load()), ops=[ast.In()], comparators=[copy.deepcopy(first.value)])
    new = ast.If(test=test, body=[only] + list(st.orelse), orelse=list(h.body))
    return [ast.fix_missing_locations(ast.copy_location(new, st))]


def _rewrite_blocks(node, one):
    for f in ("body", "orelse", "finalbody"):
        blk = getattr(node, f, None)
        if isinstance(blk, list) and blk and isinstance(blk[0], ast.stmt):
            new = []
            for st in blk:
                if not isinstance(st, (ast.FunctionDef, ast.AsyncFunctionDef, ast.ClassDef)):
                    _rewrite_blocks(st, one)
                new += one(st)
            if not new:
                new = [ast.fix_missing_locations(ast.copy_location(ast.Pass(), blk[0]))]
            setattr(node, f, new)
    for h in getattr(node, "handlers", []) or []:
        _rewrite_blocks(h, one)
    for c in getattr(node, "cases", []) or []:
        _rewrite_blocks(c, one)


def _merge_parts(node):
    """`a = {}` ... a[k] = v ...; `b = {}` ... b[k] = v ...; `t = {**a, **b}` (or dict(a, **b), a | b, t = dict(a); t.update(b))
    with a and b used for nothing else and filled one after the other in merge order  ->  one mapping t that both
    passes store into: layering b's entries over a's at the end is storing them on top of a's as they come."""
    stmts = A.all_stmts(node)
    pos = {id(st): i for i, st in enumerate(stmts)}
    pm = A.parent_map(node)
    occ = {}
    for x in A.walk_body(node):
        if isinstance(x, ast.Name):
            occ.setdefault(x.id, []).append(x)

    def empty(v):
        return (isinstance(v, ast.Dict) and not v.keys) or (isinstance(v, ast.Call) and isinstance(v.func, ast.Name) and v.func.id == "dict" and not v.args and not v.keywords)

    def part(name):
        """(init statement, [store statements], the one other use) of a local that is only created empty, stored into and used once"""
        init, stores, other = None, [], []
        for x in occ.get(name, []):
            p_ = pm.get(x)
            if isinstance(p_, (ast.Assign, ast.AnnAssign)) and (p_.targets[0] if isinstance(p_, ast.Assign) else p_.target) is x and p_.value is not None and empty(p_.value) \
                    and (not isinstance(p_, ast.Assign) or len(p_.targets) == 1):
                if init is not None:
                    return None
                init = p_
            elif isinstance(p_, ast.Subscript) and p_.value is x and isinstance(p_.ctx, ast.Store) and isinstance(pm.get(p_), ast.Assign) and len(pm.get(p_).targets) == 1:
                stores.append(pm.get(p_))
            else:
                other.append(x)
        if init is None or not stores or len(other) != 1:
            return None
        return init, stores, other[0]

    def parts_of(e):
        """names merged by an expression, in the order in which later ones win"""
        if isinstance(e, ast.Dict) and e.keys and all(k is None for k in e.keys) and all(isinstance(v, ast.Name) for v in e.values):
            return [v.id for v in e.values]
        if isinstance(e, ast.BinOp) and isinstance(e.op, ast.BitOr):
            l, r = parts_of(e.left), parts_of(e.right)
            return l + r if l and r else None
        if isinstance(e, ast.Name):
            return [e.id]
        if isinstance(e, ast.Call) and isinstance(e.func, ast.Name) and e.func.id == "dict" and len(e.args) == 1 and isinstance(e.args[0], ast.Name) \
                and all(k.arg is None and isinstance(k.value, ast.Name) for k in e.keywords):
            return [e.args[0].id] + [k.value.id for k in e.keywords]
        if isinstance(e, ast.Call) and isinstance(e.func, ast.Attribute) and e.func.attr == "copy" and not e.args and isinstance(e.func.value, ast.Name):
            return [e.func.value.id]
        return None

    for st in stmts:
        if not (isinstance(st, ast.Assign) and len(st.targets) == 1 and isinstance(st.targets[0], ast.Name)):
            continue
        t = st.targets[0].id
        names = parts_of(st.value)
        if not names or t in names or isinstance(st.value, ast.Name):
            continue
        drop = [st]
        # t.update(b) statements that follow
        for x in occ.get(t, []):
            c = pm.get(pm.get(x)) if isinstance(pm.get(x), ast.Attribute) else None
            if isinstance(c, ast.Call) and c.func is pm.get(x) and c.func.attr == "update" and len(c.args) == 1 and not c.keywords and isinstance(c.args[0], ast.Name) \
                    and isinstance(pm.get(c), ast.Expr) and pos.get(id(pm.get(c)), -1) > pos[id(st)]:
                names = names + [c.args[0].id]
                drop.append(pm.get(c))
        if len(names) < 2 or len(set(names)) != len(names):
            continue
        ps = [part(n_) for n_ in names]
        if any(p_ is None for p_ in ps):
            continue
        if sum(1 for x in occ.get(t, []) if isinstance(x.ctx, ast.Store)) != 1:
            continue
        # filled one after the other, in merge order, each before it is merged in
        ok = True
        last = -1
        for (init, stores, use), n_ in zip(ps, names):
            ss = sorted(pos[id(s_)] for s_ in stores)
            ok = ok and ss[0] > last and pos[id(init)] < ss[0]
            last = ss[-1]
            home = [d_ for d_ in drop if any(y is use for y in ast.walk(d_))]
            ok = ok and bool(home) and ss[-1] < pos[id(home[0])]
        if not ok:
            continue
        first_init = ps[0][0]
        removed = {id(d_) for d_ in drop} | {id(p_[0]) for p_ in ps[1:]}
        for (init, stores, use) in ps:
            for s_ in stores:
                s_.targets[0].value = ast.copy_location(ast.Name(id=t, ctx=ast.Load()), s_.targets[0].value)
        new_init = ast.fix_missing_locations(ast.copy_location(ast.Assign(targets=[ast.Name(id=t, ctx=ast.Store())], value=first_init.value, type_comment=None), first_init))

        def one(x):
            if x is first_init:
                return [new_init]
            return [] if id(x) in removed else [x]

        _rewrite_blocks(node, one)
        return _merge_parts(node)  # tables are stale: start over for a further merge
    return node


def strip_order(it):
    """The collection under calls that only fix an order / make a copy (sorted, list, tuple, reversed, iter)."""
    while isinstance(it, ast.Call) and isinstance(it.func, ast.Name) and it.func.id in ("list", "sorted", "tuple", "reversed", "iter") and len(it.args) == 1 \
            and (not it.keywords or it.func.id == "sorted"):
        it = it.args[0]
    return it


def _name_unpacked_entries(node, fields):
    """`for k, (t, c, p) in m.items():` / `for (t, c, p) in m.values():` with as many names as the entry type has
    fields, the names used inside the loop only and never rebound  ->  `for k, e in m.items():` with e.<field> in place
    of the names: an entry taken apart by position is the entry read field by field."""
    if not fields:
        return node
    used = {}
    for x in ast.walk(node):
        if isinstance(x, ast.Name):
            used.setdefault(x.id, []).append(x)
    n_new = 0
    for lp in [x for x in ast.walk(node) if isinstance(x, ast.For)]:
        it = strip_order(lp.iter)
        if not (isinstance(it, ast.Call) and isinstance(it.func, ast.Attribute) and not it.args and not it.keywords):
            continue
        tgt, inner = lp.target, None
        if it.func.attr == "items" and isinstance(tgt, (ast.Tuple, ast.List)) and len(tgt.elts) == 2 and isinstance(tgt.elts[1], (ast.Tuple, ast.List)):
            inner = tgt.elts[1]
        elif it.func.attr == "values" and isinstance(tgt, (ast.Tuple, ast.List)):
            inner = tgt
        if inner is None or len(inner.elts) != len(fields) or not all(isinstance(e, ast.Name) for e in inner.elts):
            continue
        names = [e.id for e in inner.elts]
        if len(set(names) - {"_"}) != len([n_ for n_ in names if n_ != "_"]):
            continue
        inside = {id(x) for b_ in lp.body for x in ast.walk(b_)} | {id(e) for e in inner.elts}
        okay = True
        for nm in names:
            for occ in used.get(nm, []):
                if id(occ) not in inside or (not isinstance(occ.ctx, ast.Load) and not any(occ is e for e in inner.elts)):
                    okay = okay and nm == "_" and any(occ is e for e in inner.elts)
        if not okay or lp.orelse:
            continue
        n_new += 1
        fresh = "entry_%d_" % n_new
        while fresh in used:
            fresh += "_"
        field_of = {nm: f for nm, f in zip(names, fields) if nm != "_"}

        class T(ast.NodeTransformer):
            def visit_Name(self, n):
                if isinstance(n.ctx, ast.Load) and n.id in field_of:
                    return ast.copy_location(ast.Attribute(value=ast.Name(id=fresh, ctx=ast.Load()), attr=field_of[n.id], ctx=ast.Load()), n)
                return n

        lp.body = [T().visit(b_) for b_ in lp.body]
        new_t = ast.copy_location(ast.Name(id=fresh, ctx=ast.Store()), inner)
        if inner is tgt:
            lp.target = new_t
        else:
            tgt.elts[1] = new_t
        ast.fix_missing_locations(lp)
    return node


def view(ck, qual_or_fi, how):
    """The per-function bundle of a function rewritten into ONE spelling, so that a rule reads the same thing
    whichever way the code says it.  how='branches': conditional expressions that are the whole value of an
    assignment / return become if statements, dict comprehensions poured into a mapping become loops (the form the
    path rules of store() read).  how='collections': loops that only collect become comprehensions (the form the
    key-source evaluation of the accessors reads).  how='accessor': 'branches' with `try: ... self.m[k] ... except KeyError`
    turned into the membership test it stands for (the form the exits of a get() are read in).  Line numbers are those of the original statements."""
    import copy
    from ..fa import FA
    from ..loader import FuncInfo
    fi = ck.fn(qual_or_fi) if isinstance(qual_or_fi, str) else qual_or_fi
    memo = ck.__dict__.setdefault("_pm_views", {})
    key = (fi.qual, id(fi.node), how, ck.exc_mode)
    if key not in memo:
        node = copy.deepcopy(fi.node)
        if how == "accessor":
            # the branches view of a get(): a lookup tried and caught is a membership test first
            plain = plain_dict_fields(ck, fi.cls) if fi.cls is not None else set()
            _rewrite_blocks(node, lambda st_: _lower_keyerror_try(st_, plain))
        _rewrite_blocks(node, _lower_stmt if how in ("branches", "accessor") else _raise_stmt)
        if how == "branches":
            node = _merge_parts(node)
            node = _name_unpacked_entries(node, entry_type_fields(ck))
        changed = ast.dump(node) != ast.dump(fi.node)
        inl = getattr(ck.repo, "inliner", None)
        if changed and inl is not None and how == "branches":
            # a new helper called from inside a comprehension could not be written out by the front end; now that the
            # comprehension is a loop its call is the value of a statement and can be
            try:
                from ..inline import _all_names
                inl.rewrite_block_owner(node, fi, _all_names(node), 0)
                ast.fix_missing_locations(node)
            except Exception:  # noqa
                node = copy.deepcopy(fi.node)
                _rewrite_blocks(node, _lower_stmt)
        memo[key] = FuncInfo(fi.module, node, fi.qual, cls=fi.cls, parent=fi.parent) if changed else fi
    return FA(ck, memo[key])
