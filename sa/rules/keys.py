"""Keying rule shared by C01.R5 and C05.R1: every storage / cache / mutex key is built from the
*versioned* qualified name and the argument hash."""
import ast

from .. import astutil as A
from ..fa import FA
from ..loader import AnalysisError

# function -> which key parts its result must depend on.  Confirmed by reading; one line each.
KEY_SITES = {
    # metadata tree  m/<qualified name>/<arg hash>.*
    "storage_base.DataSourceMetadataSource._get_function_path": ("qn",),
    "storage_base.DataSourceMetadataSource._get_path": ("qn-via:_get_function_path", "ah"),
    "storage_base.DataSourceMetadataSource._get_metadata_path": ("via:_get_path",),
    "storage_base.DataSourceMetadataSource._get_metadata_key": ("via:_get_path",),
    # helper paths of the backend base
    "storage_base.StorageBackendBase._get_function_path": ("qn",),
    # memory cache key
    "storage_base.MemoryCache._cache_key_for_fn": ("qn", "ah"),
    "storage_base.MemoryCache._cache_key_for_memento": ("via:_cache_key_for_fn",),
    # memory backend
    "storage_memory.MemoryStorageBackend._get_memento_key": ("qn", "ah"),
    # per-call mutex
    "runner_local._mutex_for_invocation": ("qn", "ah"),
}

FORBIDDEN_ATTRS = ("qualified_name_without_version", "qualified_name_without_cluster", "function_name")
KEY_MODULES = ("storage_base", "storage_memory", "storage_filesystem", "storage", "runner_local", "runner")


def _flow_nodes(fa, expr, at, seen=None, out=None):
    """{id(node): (node, cfg node)} for every expression node whose value can reach `expr` through evaluation and copying
    (reaching definitions of the local names it reads, augmented assignments included)."""
    out = out if out is not None else {}
    seen = seen if seen is not None else set()
    for n in ast.walk(expr):
        out.setdefault(id(n), (n, at))
    for n in ast.walk(expr):
        if isinstance(n, ast.Name) and isinstance(n.ctx, ast.Load):
            for d in fa.df.reaching(at, n.id):
                if d.value is None or (d.node, d.name) in seen:
                    continue
                seen.add((d.node, d.name))
                _flow_nodes(fa, d.value, d.node, seen, out)
    return out


def _formula(text, pol):
    """A literal (FA's text, polarity) as a boolean formula over leaf propositions: composite texts (`a and b` taken
    false stays ONE literal in FA) are split; leaves are canonicalised syntactically (`is not` / `!=` / `not in` as
    negations, operands of == sorted)."""
    try:
        e = ast.parse(text, mode="eval").body
    except SyntaxError:
        e = None

    def rec(x):
        if isinstance(x, ast.UnaryOp) and isinstance(x.op, ast.Not):
            return ("not", rec(x.operand))
        if isinstance(x, ast.BoolOp):
            return ("and" if isinstance(x.op, ast.And) else "or",) + tuple(rec(v) for v in x.values)
        if isinstance(x, ast.Compare) and len(x.ops) == 1:
            op, l, r = x.ops[0], A.norm(x.left), A.norm(x.comparators[0])
            neg = {ast.IsNot: "is", ast.NotEq: "==", ast.NotIn: "in"}
            pos = {ast.Is: "is", ast.Eq: "==", ast.In: "in"}
            if type(op) in neg or type(op) in pos:
                sym = neg.get(type(op)) or pos.get(type(op))
                if sym == "==" and r < l:
                    l, r = r, l
                leaf = ("var", "%s %s %s" % (l, sym, r))
                return ("not", leaf) if type(op) in neg else leaf
        return ("var", A.norm(x))

    f = rec(e) if e is not None else ("var", text)
    return f if pol else ("not", f)


def _vars(f, out):
    if f[0] == "var":
        out.add(f[1])
    else:
        for x in f[1:]:
            _vars(x, out)
    return out


def _ev(f, val):
    if f[0] == "var":
        return val[f[1]]
    if f[0] == "not":
        return not _ev(f[1], val)
    if f[0] == "and":
        return all(_ev(x, val) for x in f[1:])
    return any(_ev(x, val) for x in f[1:])


def dnf_compare(d1, d2, extra2=()):
    """(d1 implies d2, d2 implies d1) for two path-condition DNFs (sets of frozensets of (text, polarity)) read as
    boolean functions.  `extra2`: literals conjoined to every conjunct of d2.  Decided by truth table over the leaf
    propositions; None if there are too many."""
    import itertools
    f1 = [[_formula(t, p_) for (t, p_) in c] for c in d1]
    f2 = [[_formula(t, p_) for (t, p_) in list(c) + list(extra2)] for c in d2]
    vs = set()
    for c in f1 + f2:
        for f in c:
            _vars(f, vs)
    vs = sorted(vs)
    if len(vs) > 16:
        return None
    fwd = bwd = True
    for bits in itertools.product((False, True), repeat=len(vs)):
        val = dict(zip(vs, bits))
        a = any(all(_ev(f, val) for f in c) for c in f1)
        b = any(all(_ev(f, val) for f in c) for c in f2)
        if a and not b:
            fwd = False
        if b and not a:
            bwd = False
    return (fwd, bwd)


def dnf_equivalent(d1, d2, extra2=()):
    r = dnf_compare(d1, d2, extra2)
    return None if r is None else (r[0] and r[1])


def _is_version(fa, e, at, _depth=0):
    """Does `e` (evaluated at CFG node `at`) denote the reference's effective version — the constructor's `version`
    argument, defaulted from the function's own version where none was given — through any chain of temporaries /
    str()?  Returns the name of the local that holds it (the parameter re-bound in place, or another local bound to
    one or the other per case), else None.  The raw parameter before it was defaulted is not the effective version: a
    name built from it lacks the version of every reference made without an explicit one."""
    try:
        x = fa.expand(e, at)
    except AnalysisError:
        x = e
    while isinstance(x, ast.Call) and isinstance(x.func, ast.Name) and x.func.id in ("str", "cast") and x.args and not x.keywords:
        x = x.args[-1]
    if not isinstance(x, ast.Name) or _depth > 4:
        return None
    given = defaulted = False
    for d in fa.df.reaching(at, x.id):
        if d.kind == "param":
            if d.name != "version":
                return None
            given = True
            continue
        if d.kind != "assign" or d.value is None:
            return None
        v = d.value
        while isinstance(v, ast.Call) and isinstance(v.func, ast.Name) and v.func.id in ("str", "cast") and v.args and not v.keywords:
            v = v.args[-1]
        if isinstance(v, ast.Call) and A.call_attr(v) == "version" and not v.args and not v.keywords:
            defaulted = True        # <function>.version()
        elif isinstance(v, ast.Name) and v.id == "version" and all(dd.kind == "param" for dd in fa.df.reaching(d.node, "version")):
            given = True
        elif isinstance(v, ast.Name) and v.id != x.id and _is_version(fa, v, d.node, _depth + 1) is not None:
            given = defaulted = True
        else:
            return None
    return x.id if given and defaulted else None


def _join_conditions(fa, val, at, names=None):
    """Every place where '#' and the version are joined (`+=`, `+`, format, f-string, %; in a statement under an `if`
    or in an arm of a conditional expression) and whose result can flow into `val` (evaluated at `at`), with the
    condition under which it is evaluated: a DNF (set of frozensets of literals); None when there are too many paths."""
    pm = fa.pm
    dnf = set()
    for (n, n_at) in _flow_nodes(fa, val, at).values():
        parts = A.str_parts(n) if isinstance(n, (ast.BinOp, ast.JoinedStr, ast.Call)) else None
        if not parts:
            continue
        vn = [_is_version(fa, v2, n_at) for (k1, v1), (k2, v2) in zip(parts, parts[1:]) if k1 == "lit" and v1.endswith("#") and k2 == "expr"]
        vn = [x for x in vn if x is not None]
        if not vn:
            continue
        if names is not None:
            names.update(vn)
        # expression-level guards: arms of conditional expressions around the site
        guards = []
        x = n
        while x is not None and not isinstance(x, ast.stmt):
            p_ = pm.get(x)
            if isinstance(p_, ast.IfExp) and x is not p_.test:
                guards += fa._atoms(p_.test, n_at, x is p_.body)
            x = p_
        st = x
        conds = fa.conditions(st) if st is not None else None
        if conds is None:
            return None
        for c in conds:
            lits = set(c) | set(guards)
            if any((t, not pol) in lits for (t, pol) in lits):
                continue
            dnf.add(frozenset(lits))
    # (a site nested in a larger concatenation is seen twice, with the same condition: harmless)
    return dnf


def _conj_product(d1, d2):
    """DNF of (d1 and d2); contradictory conjuncts dropped"""
    out = set()
    for a in d1:
        for b in d2:
            c = set(a) | set(b)
            if not any((t, not p_) in c for (t, p_) in c):
                out.add(frozenset(c))
    return out


def simplify_dnf(dnf):
    """resolution ((A & x) | (A & ~x) = A) and absorption, as FA.conditions does"""
    res = set(dnf)
    changed = True
    while changed:
        changed = False
        lst = list(res)
        for i in range(len(lst)):
            for j in range(i + 1, len(lst)):
                a, b = lst[i], lst[j]
                diff = a ^ b
                if len(diff) == 2:
                    x, y = tuple(diff)
                    if x[0] == y[0] and x[1] != y[1]:
                        res.add(a & b)
                        res.discard(a)
                        res.discard(b)
                        changed = True
                        break
            if changed:
                break
        if not changed:
            for a in list(res):
                if any(b < a for b in res):
                    res.discard(a)
                    changed = True
    return res


def final_bind_paths(fa, resets, extends, cap=4000):
    """Which bindings make up what a field holds when the function returns normally, per path class:
    {tuple of CFG node ids: DNF}.  `resets`: nodes that assign the field (everything before is forgotten), `extends`:
    nodes that build on its previous value (`+=`).  Paths are followed from the entry until no binding can follow
    any more; the tuple is () for paths on which the field is never bound.  None when there are too many paths."""
    cfg = fa.cfg
    marks = set(resets) | set(extends)
    to_exit = {n.id for n in cfg.nodes if cfg.exit in cfg.reach([n.id])}
    more = {n.id for n in cfg.nodes if cfg.reach([n.id], include_start=False) & marks}
    res = {}
    count = [0]

    def dfs(n, onpath, lits, seq):
        if count[0] > cap:
            return
        if n in resets:
            seq = (n,)
        elif n in extends:
            seq = seq + (n,)
        if n == cfg.exit or n not in more:
            count[0] += 1
            res.setdefault(seq, set()).add(frozenset(lits))
            return
        nd = cfg.node(n)
        for (d, l) in cfg.succ[n]:
            if d in onpath or l == "exc" or d not in to_exit:
                continue
            add = []
            if nd.kind == "test" and l in ("T", "F") and not isinstance(fa.pm.get(nd.ast), ast.While):
                add = fa._atoms(nd.ast, n, l == "T")
            if any((a[0], not a[1]) in lits for a in add):
                continue
            onpath.add(d)
            dfs(d, onpath, lits + [a for a in add if a not in lits], seq)
            onpath.discard(d)

    dfs(cfg.entry, {cfg.entry}, [], ())
    if count[0] > cap:
        return None
    return {seq: simplify_dnf(d) for seq, d in res.items()}


def _hash_version_exactly_when_versioned(fa, binds):
    """What the field finally holds gets '#' + version appended exactly when the (effective) version is not None.  `binds` are the
    bindings of the field: [(statement, value expression, extends)] (plain, one element of a tuple assignment, or the
    right-hand side of `+=`).  For every binding the places where '#' and the version are joined and flow into its
    value are collected with the conditions under which they are evaluated; per class of paths to the normal exit the
    bindings that make up the final value are known; over all of them, [a join happened and is part of the final value]
    must amount to [version is not None] — whether there is one binding after a conditional `+=`, one binding per
    case, an early return per case, or a later binding that replaces an earlier one."""
    by_node = {}
    for (asg, val, ext) in binds:
        for i in fa.nodes(asg):
            by_node[i] = (asg, val, ext)
    paths = final_bind_paths(fa, {i for i, b in by_node.items() if not b[2]}, {i for i, b in by_node.items() if b[2]})
    if paths is None:
        raise AnalysisError("%s: too many paths around the construction of the qualified name" % fa.qual)
    joins = {}
    vnames = set()      # the local(s) that hold the effective version where it is joined on
    joined, finished = set(), set()
    for seq, dnf in paths.items():
        finished |= dnf
        if not seq:
            return False    # a path on which the field is never bound
        for i in seq:
            if i not in joins:
                joins[i] = _join_conditions(fa, by_node[i][1], i, vnames)
                if joins[i] is None:
                    raise AnalysisError("%s: too many paths around the construction of the qualified name" % fa.qual)
            joined |= _conj_product(joins[i], dnf)
    if not joined:
        return False
    if len(vnames) != 1:
        return False
    eq = dnf_equivalent(simplify_dnf(joined), simplify_dnf(finished), extra2=[("%s is None" % vnames.pop(), False)])
    if eq is None:
        raise AnalysisError("%s: too many independent conditions around the construction of the qualified name" % fa.qual)
    return eq


def _ret_exprs(fa: FA):
    out = []
    for r in fa.returns():
        if r.value is not None:
            out.append((r, r.value))
    return out


def _mutex_key_in_host(ck, rule):
    from .c09 import mutex_table_names
    mod = ck.repo.module("runner_local")
    table = mutex_table_names(ck, mod)[0]
    n = 0
    for fi in mod.all_funcs():
        fa = None
        for x in A.walk_body(fi.node):
            key = None
            if isinstance(x, ast.Subscript) and isinstance(x.value, ast.Name) and x.value.id == table:
                key = x.slice
            elif isinstance(x, ast.Call) and isinstance(x.func, ast.Attribute) and isinstance(x.func.value, ast.Name) and x.func.value.id == table \
                    and x.func.attr in ("get", "setdefault") and x.args:
                key = x.args[0]
            if key is None:
                continue
            fa = fa or FA(ck, fi)
            d = fa.deps(key)
            attrs = {y.split(".")[-1] for y in d if y.startswith("attr:")} | {y[8:] for y in d if y.startswith("getattr:")}
            problems = []
            if "qualified_name" not in attrs:
                problems.append("the key does not contain the versioned qualified name")
            if "arg_hash" not in attrs:
                problems.append("the key does not contain the argument hash")
            if attrs & set(FORBIDDEN_ATTRS):
                problems.append("an unversioned name flows into the key")
            n += 1
            ck.ob(rule, fa.key(x, "mutex-key"), not problems, "; ".join(problems) or "the per-call mutex is looked up by qualified name + argument hash", fa.where(x))
    ck.need(n >= 1, "runner_local: no lookup in the per-call mutex table found")


_LOSSY_CALLS = {"hash", "len", "id", "ord", "abs", "int", "bool", "float", "lower", "upper", "casefold", "title", "capitalize", "swapcase",
                "strip", "lstrip", "rstrip", "split", "rsplit", "splitlines", "partition", "rpartition", "replace", "translate",
                "removeprefix", "removesuffix", "basename", "dirname", "splitext", "min", "max", "sum", "sorted", "set", "frozenset", "zip",
                "islice", "truncate", "shorten", "crc32", "adler32"}
_PRECISION_NEW = __import__("re").compile(r"\{[^{}]*:[^{}]*\.\d+[^{}]*\}")
_PRECISION_OLD = __import__("re").compile(r"%[-+ #0]*\d*\.\d+[sr]")


def enters_whole(fa, e, at, is_leaf, _seen=None):
    """Does the key component recognised by `is_leaf` reach the value of `e` (at CFG node `at`) intact — through
    locals, concatenation, formatting without a precision, joining, displays, wrapping calls — on some way that does
    not cut it down?  Taking a slice or an element of it, formatting it with a precision (`{:.8}`, `%.8s`) or passing it
    through something that folds or shortens text (lower, strip, split, hash, len, ...) does not count: what is left
    no longer tells two calls apart."""
    seen = _seen if _seen is not None else set()

    def rec(x, node):
        if is_leaf(x):
            return True
        if isinstance(x, ast.Name):
            ds = [d for d in fa.df.reaching(node, x.id) if d.value is not None]
            res = False
            for d in ds:
                if (d.node, d.name) in seen:
                    continue
                seen.add((d.node, d.name))
                if d.kind in ("for", "unpack"):
                    continue
                if rec(d.value, d.node):
                    res = True
            return res
        if isinstance(x, ast.NamedExpr):
            return rec(x.value, node)
        if isinstance(x, ast.BinOp):
            if isinstance(x.op, ast.Mod) and isinstance(x.left, ast.Constant) and isinstance(x.left.value, str):
                return not _PRECISION_OLD.search(x.left.value) and rec(x.right, node)
            return rec(x.left, node) or rec(x.right, node)
        if isinstance(x, ast.JoinedStr):
            for v in x.values:
                if isinstance(v, ast.FormattedValue) and rec(v.value, node):
                    spec = v.format_spec
                    txt = "".join(c.value for c in spec.values if isinstance(c, ast.Constant) and isinstance(c.value, str)) if isinstance(spec, ast.JoinedStr) else ""
                    if "." not in txt:
                        return True
            return False
        if isinstance(x, (ast.Tuple, ast.List, ast.Set)):
            return any(rec(v, node) for v in x.elts)
        if isinstance(x, ast.Starred):
            return rec(x.value, node)
        if isinstance(x, ast.Dict):
            return any(rec(v, node) for v in list(x.values) + [k for k in x.keys if k is not None])
        if isinstance(x, ast.IfExp):
            return rec(x.body, node) or rec(x.orelse, node)
        if isinstance(x, ast.BoolOp):
            return any(rec(v, node) for v in x.values)
        if isinstance(x, ast.Attribute):
            return rec(x.value, node)
        if isinstance(x, ast.Subscript):
            # looked up under a key that holds it: intact; a slice / an element OF it: not
            return not isinstance(x.slice, ast.Slice) and rec(x.slice, node)
        if isinstance(x, ast.Call):
            name = A.call_attr(x)
            if name in _LOSSY_CALLS:
                return False
            if name == "format" and isinstance(x.func, ast.Attribute) and isinstance(x.func.value, ast.Constant) and isinstance(x.func.value.value, str) \
                    and _PRECISION_NEW.search(x.func.value.value):
                return False
            args = list(x.args) + [k.value for k in x.keywords]
            if isinstance(x.func, ast.Attribute):
                args.append(x.func.value)
            return any(rec(a_, node) for a_ in args)
        if isinstance(x, (ast.ListComp, ast.GeneratorExp, ast.SetComp)):
            return rec(x.elt, node) or any(rec(g.iter, node) for g in x.generators)
        return False

    return rec(e, at)


def check_keying(ck, rule):
    ck.rule(rule, "every storage/cache/mutex key is built from the versioned qualified name and the argument hash; "
                  "no unversioned name flows into a key", len(KEY_SITES))
    for qual, parts in KEY_SITES.items():
        if ck.repo.try_func(qual) is None and qual == "runner_local._mutex_for_invocation":
            # the lookup was inlined into its caller: the key is whatever the mutex table is indexed with
            _mutex_key_in_host(ck, rule)
            continue
        if ck.repo.try_func(qual) is None and ck.repo.try_func(qual.rsplit(".", 1)[0] + ".__init__") is not None:
            # a one-line private key builder that was inlined into its callers and removed: its expression is
            # no longer identifiable as a unit; the negative clause below (no unversioned name in the keying
            # modules) and the callers' own rules still apply
            ck.note(rule, qual, "key builder %s no longer exists as a function (inlined); its expression is checked only through the negative clause" % qual)
            continue
        fa = FA(ck, qual)
        rets = fa.some(_ret_exprs(fa), "return with a value")
        # a builder this one used to go through that no longer exists (inlined into its callers): this function
        # must now carry what that builder had to carry
        def effective(ps, depth=0):
            out = []
            for p_ in ps:
                if p_.startswith(("via:", "qn-via:")) and depth < 4:
                    callee = p_.split(":")[1]
                    cq = qual.rsplit(".", 1)[0] + "." + callee
                    if ck.repo.try_func(cq) is None and cq in KEY_SITES and not any(A.call_attr(c) == callee for c in fa.calls()):
                        out += effective(KEY_SITES[cq], depth + 1)
                        continue
                out.append(p_)
            return tuple(dict.fromkeys(out))

        parts_eff = effective(parts)
        for (r, e) in rets:
            deps = set()
            for i in fa.nodes(r):
                deps |= fa.df.deps(e, i)
            attrs = {d.split(".")[-1] for d in deps if d.startswith("attr:")} | {d[8:] for d in deps if d.startswith("getattr:")}
            calls = {d[5:] for d in deps if d.startswith("call:")}
            params = {d[6:] for d in deps if d.startswith("param:")}
            problems = []
            for p in parts_eff:
                if p == "qn" and "qualified_name" not in attrs:
                    problems.append("the key does not contain the versioned qualified name")
                elif p == "ah" and "arg_hash" not in attrs and "arg_hash" not in params:
                    problems.append("the key does not contain the argument hash")
                elif p.startswith("via:") or p.startswith("qn-via:"):
                    callee = p.split(":")[1]
                    if callee not in calls:
                        problems.append("the key is not derived through %s" % callee)
                    else:
                        # arguments of that call must carry fn_reference (+ arg_hash where the callee takes it)
                        for c in fa.calls(callee):
                            adeps = set()
                            for a in list(c.args) + [k.value for k in c.keywords]:
                                for i in fa.nodes(c):
                                    adeps |= fa.df.deps(a, i)
                            names = {d.split(".")[-1] for d in adeps if d.startswith(("attr:", "param:"))} | {d[6:] for d in adeps if d.startswith("param:")}
                            if "fn_reference" not in names and "fn_ref" not in names:
                                problems.append("%s(...) is not given the function reference" % callee)
                            if len(c.args) + len(c.keywords) >= 2 and "arg_hash" not in names:
                                problems.append("%s(...) is not given the argument hash" % callee)
            # ... and they enter it whole
            if not problems:
                at_ = fa.nodes(r)[0] if fa.nodes(r) else None
                if at_ is not None and "qn" in parts_eff and not enters_whole(fa, e, at_, lambda x: isinstance(x, ast.Attribute) and x.attr == "qualified_name"):
                    problems.append("the versioned qualified name does not enter the key whole (it is sliced, shortened or folded on the way)")
                if at_ is not None and "ah" in parts_eff and not enters_whole(
                        fa, e, at_, lambda x: (isinstance(x, ast.Attribute) and x.attr == "arg_hash") or
                        (isinstance(x, ast.Name) and x.id == "arg_hash" and any(d.kind == "param" for d in fa.df.reaching(at_, "arg_hash")))):
                    problems.append("the argument hash does not enter the key whole (it is sliced, shortened or folded on the way): calls whose hashes agree on what is left share an entry")
            bad = attrs & set(FORBIDDEN_ATTRS)
            if bad:
                problems.append("an unversioned name (%s) flows into the key" % ", ".join(sorted(bad)))
            ck.ob(rule, fa.key(r), not problems, "; ".join(problems) or "key carries " + "+".join(parts), fa.where(r))
    # negative: the unversioned names never appear in the keying modules at all
    for modname in KEY_MODULES:
        m = ck.repo.module(modname)
        for fi in m.all_funcs():
            for n in A.walk_body(fi.node):
                if isinstance(n, ast.Attribute) and n.attr in FORBIDDEN_ATTRS[:2]:
                    ck.ob(rule, "%s::%s" % (fi.qual, A.short(n, 60)), False,
                          "%s is used in a storage/runner module: keys there must use the versioned name" % n.attr,
                          A.loc(fi, n))
    # FunctionReference: the qualified name depends on the version
    fa = FA(ck, "reference.FunctionReference.__init__")
    # every binding of the field (plain, one element of a tuple assignment, `+=`)
    FIELD = "self._qualified_name"
    binds = []
    for s_ in fa.stmts((ast.Assign, ast.AugAssign, ast.AnnAssign)):
        if not fa.nodes(s_):
            continue
        if isinstance(s_, ast.AugAssign):
            if A.dotted(s_.target) == FIELD:
                binds.append((s_, s_.value, isinstance(s_.op, ast.Add)))
            continue
        if isinstance(s_, ast.AnnAssign):
            if A.dotted(s_.target) == FIELD and s_.value is not None:
                binds.append((s_, s_.value, False))
            continue
        for t in s_.targets:
            if A.dotted(t) == FIELD:
                binds.append((s_, s_.value, False))
            elif isinstance(t, (ast.Tuple, ast.List)) and isinstance(s_.value, (ast.Tuple, ast.List)) and len(t.elts) == len(s_.value.elts):
                for (te, ve) in zip(t.elts, s_.value.elts):
                    if A.dotted(te) == FIELD:
                        binds.append((s_, ve, False))
            elif isinstance(t, (ast.Tuple, ast.List)) and any(A.dotted(te) == FIELD for te in t.elts):
                binds.append((s_, s_.value, False))
    binds = fa.some(binds, "assignment to self._qualified_name")
    ok = _hash_version_exactly_when_versioned(fa, binds)
    asg = binds[0][0]
    ck.ob(rule, fa.key(None, "versioned-name"), ok, "qualified_name = name + '#' + version whenever a version exists" if ok else
          "the qualified name is not extended with '#'+version whenever a version exists", fa.where(asg))
    # the property returns that very field
    p = FA(ck, "reference.FunctionReference.qualified_name")
    rets = p.returns()
    okp = len(rets) == 1 and A.dotted(rets[0].value) == "self._qualified_name"
    ck.ob(rule, p.key(rets[0] if rets else None), okp, "qualified_name property returns the versioned field" if okp else
          "qualified_name no longer returns the versioned field", p.where())
