"""Keying rule shared by C01.R5 and C05.R1: every storage / cache / mutex key is built from the
*versioned* qualified name and the argument hash."""
import ast

from .. import astutil as A
from ..fa import FA

# function -> which key parts its result must depend on.  Confirmed by reading; one line each.
KEY_SITES = {
    # metadata tree  m/<qualified name>/<arg hash>.*
    "storage_base.DataSourceMetadataSource._get_function_path": ("qn",),
    "storage_base.DataSourceMetadataSource._get_path": ("qn-via:_get_function_path", "ah"),
    "storage_base.DataSourceMetadataSource._get_metadata_path": ("via:_get_path",),
    "storage_base.DataSourceMetadataSource._get_metadata_key": ("via:_get_path",),
    # helper paths of the backend base
    "storage_base.StorageBackendBase._get_function_path": ("qn",),
    # memory cache key
    "storage_base.MemoryCache._cache_key_for_fn": ("qn", "ah"),
    "storage_base.MemoryCache._cache_key_for_memento": ("via:_cache_key_for_fn",),
    # memory backend
    "storage_memory.MemoryStorageBackend._get_memento_key": ("qn", "ah"),
    # per-call mutex
    "runner_local._mutex_for_invocation": ("qn", "ah"),
}

FORBIDDEN_ATTRS = ("qualified_name_without_version", "qualified_name_without_cluster", "function_name")
KEY_MODULES = ("storage_base", "storage_memory", "storage_filesystem", "storage", "runner_local", "runner")


def _ret_exprs(fa: FA):
    out = []
    for r in fa.returns():
        if r.value is not None:
            out.append((r, r.value))
    return out


def _mutex_key_in_host(ck, rule):
    from .c09 import mutex_table_names
    mod = ck.repo.module("runner_local")
    table = mutex_table_names(ck, mod)[0]
    n = 0
    for fi in mod.all_funcs():
        fa = None
        for x in A.walk_body(fi.node):
            key = None
            if isinstance(x, ast.Subscript) and isinstance(x.value, ast.Name) and x.value.id == table:
                key = x.slice
            elif isinstance(x, ast.Call) and isinstance(x.func, ast.Attribute) and isinstance(x.func.value, ast.Name) and x.func.value.id == table \
                    and x.func.attr in ("get", "setdefault") and x.args:
                key = x.args[0]
            if key is None:
                continue
            fa = fa or FA(ck, fi)
            d = fa.deps(key)
            attrs = {y.split(".")[-1] for y in d if y.startswith("attr:")} | {y[8:] for y in d if y.startswith("getattr:")}
            problems = []
            if "qualified_name" not in attrs:
                problems.append("the key does not contain the versioned qualified name")
            if "arg_hash" not in attrs:
                problems.append("the key does not contain the argument hash")
            if attrs & set(FORBIDDEN_ATTRS):
                problems.append("an unversioned name flows into the key")
            n += 1
            ck.ob(rule, fa.key(x, "mutex-key"), not problems, "; ".join(problems) or "the per-call mutex is looked up by qualified name + argument hash", fa.where(x))
    ck.need(n >= 1, "runner_local: no lookup in the per-call mutex table found")


def check_keying(ck, rule):
    ck.rule(rule, "every storage/cache/mutex key is built from the versioned qualified name and the argument hash; "
                  "no unversioned name flows into a key", len(KEY_SITES))
    for qual, parts in KEY_SITES.items():
        if ck.repo.try_func(qual) is None and qual == "runner_local._mutex_for_invocation":
            # the lookup was inlined into its caller: the key is whatever the mutex table is indexed with
            _mutex_key_in_host(ck, rule)
            continue
        if ck.repo.try_func(qual) is None and ck.repo.try_func(qual.rsplit(".", 1)[0] + ".__init__") is not None:
            # a one-line private key builder that was inlined into its callers and removed: its expression is
            # no longer identifiable as a unit; the negative clause below (no unversioned name in the keying
            # modules) and the callers' own rules still apply
            ck.note(rule, qual, "key builder %s no longer exists as a function (inlined); its expression is checked only through the negative clause" % qual)
            continue
        fa = FA(ck, qual)
        rets = fa.some(_ret_exprs(fa), "return with a value")
        for (r, e) in rets:
            deps = set()
            for i in fa.nodes(r):
                deps |= fa.df.deps(e, i)
            attrs = {d.split(".")[-1] for d in deps if d.startswith("attr:")} | {d[8:] for d in deps if d.startswith("getattr:")}
            calls = {d[5:] for d in deps if d.startswith("call:")}
            params = {d[6:] for d in deps if d.startswith("param:")}
            problems = []
            for p in parts:
                if p == "qn" and "qualified_name" not in attrs:
                    problems.append("the key does not contain the versioned qualified name")
                elif p == "ah" and "arg_hash" not in attrs and "arg_hash" not in params:
                    problems.append("the key does not contain the argument hash")
                elif p.startswith("via:") or p.startswith("qn-via:"):
                    callee = p.split(":")[1]
                    if callee not in calls:
                        problems.append("the key is not derived through %s" % callee)
                    else:
                        # arguments of that call must carry fn_reference (+ arg_hash where the callee takes it)
                        for c in fa.calls(callee):
                            adeps = set()
                            for a in list(c.args) + [k.value for k in c.keywords]:
                                for i in fa.nodes(c):
                                    adeps |= fa.df.deps(a, i)
                            names = {d.split(".")[-1] for d in adeps if d.startswith(("attr:", "param:"))} | {d[6:] for d in adeps if d.startswith("param:")}
                            if "fn_reference" not in names and "fn_ref" not in names:
                                problems.append("%s(...) is not given the function reference" % callee)
                            if len(c.args) + len(c.keywords) >= 2 and "arg_hash" not in names:
                                problems.append("%s(...) is not given the argument hash" % callee)
            bad = attrs & set(FORBIDDEN_ATTRS)
            if bad:
                problems.append("an unversioned name (%s) flows into the key" % ", ".join(sorted(bad)))
            ck.ob(rule, fa.key(r), not problems, "; ".join(problems) or "key carries " + "+".join(parts), fa.where(r))
    # negative: the unversioned names never appear in the keying modules at all
    for modname in KEY_MODULES:
        m = ck.repo.module(modname)
        for fi in m.all_funcs():
            for n in A.walk_body(fi.node):
                if isinstance(n, ast.Attribute) and n.attr in FORBIDDEN_ATTRS[:2]:
                    ck.ob(rule, "%s::%s" % (fi.qual, A.short(n, 60)), False,
                          "%s is used in a storage/runner module: keys there must use the versioned name" % n.attr,
                          A.loc(fi, n))
    # FunctionReference: the qualified name depends on the version
    fa = FA(ck, "reference.FunctionReference.__init__")
    asg = [s for s in fa.stmts(ast.Assign) if any(A.dotted(t) == "self._qualified_name" for t in s.targets)]
    asg = fa.one(asg, "assignment to self._qualified_name")
    deps = fa.deps(asg.value)
    ok = "param:version" in deps and any(d == "const:'#'" for d in deps)
    # the '#version' part is appended whenever a version exists
    acc = asg.value.id if isinstance(asg.value, ast.Name) else None  # the local the name is accumulated in
    app = [s for s in fa.stmts(ast.AugAssign) if isinstance(s.target, ast.Name) and s.target.id == acc
           and "version" in A.names_in(s.value) and "#" in A.strings_in(s.value)]
    guard_ok = False
    for s in app:
        g = fa.enclosing(s, ast.If)
        if g is not None and A.norm(g.test) == "version is not None":
            guard_ok = True
    ok = ok and guard_ok
    ck.ob(rule, fa.key(None, "versioned-name"), ok, "qualified_name = name + '#' + version whenever a version exists" if ok else
          "the qualified name is not extended with '#'+version whenever a version exists", fa.where(asg))
    # the property returns that very field
    p = FA(ck, "reference.FunctionReference.qualified_name")
    rets = p.returns()
    okp = len(rets) == 1 and A.dotted(rets[0].value) == "self._qualified_name"
    ck.ob(rule, p.key(rets[0] if rets else None), okp, "qualified_name property returns the versioned field" if okp else
          "qualified_name no longer returns the versioned field", p.where())
